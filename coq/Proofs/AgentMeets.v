(* The client model satisfies the spec monitors, for every history.

   Agent/Monitors.v judges the IMPLEMENTATION's observed behaviour with the executable monitors mon_C05, mon_C06, mon_C11,
   mon_C12, mon_C17 (monitor_step). Here the same monitors, in exactly that form, are run in lockstep with the MODEL
   (Agent/Model.v: init, step) through the observation `obs_of` that mirrors ocaml/driver.ml (render_events,
   render_snapshot, parse_obs), and every verdict they give is proved to be `true`, for every history.

   Mirror notes. The driver sorts the snapshot lists; the monitors only use them as sets (memN, subsetb, find on an id,
   length of a duplicate-free list), so obs_of keeps the model's order. `ob_same` compares (T with the `inst` flags, H,
   mechanism) of the two states with a decidable equality; it is at least as fine as the driver's string comparison,
   and the monitors only ever REQUIRE ob_same = true, so the verdicts proved here imply the driver's.
   The id of ETmo is the id of the model's Notif event (the driver reads it from the implementation's tmoid fact).

   Route: a simulation invariant R between the model state and the monitor state (live s = ids of T c as sets,
   ms_K s = the observed markers, the bookkeeping of used ids), preserved by step + next_state (step_R); each verdict
   follows from R and the one-step theorems of AgentInv / AgentTrace / AgentSched. For C06 a second invariant MInv ties
   ms_sent (t0, r, ntx) to the RtoManager of each table entry (Minv of Agent/Rto.v with ntx <= k). *)
From Coq Require Import List NArith Lia Bool Arith Permutation.
Import ListNotations.
From Rustun Require Import Agent.Rto Agent.Model Agent.Monitors Proofs.AgentInv Proofs.AgentTrace Proofs.AgentSched.
Open Scope N_scope.

(* ------------------------------------------------------------------ the observation of a model step *)
Definition oret_of (r:reply) : oret :=
  match r with ROk _ => OOk | RMaxOut => OMaxOut | RDiscarded => ODiscarded | RIgnored => OIgnored
             | RStunCheck => OStunCheck | RInternal => OInternal end.
Definition oev_of (e:event) : oev :=
  match e with
  | Out id true p => EOut id true true (Some p)
  | Out id false _ => EOut id false true None
  | Notif id l => ETmo id l
  | Retry id => ERetry' id
  | Failed id r => EFail id r
  | Received m => ERecv (m_class m) (m_id m)
  end.
Definition obs_H (h:list hent) : list (N*N*N) := map (fun e => (h_id e, fst (fst e), snd (fst e))) h.
Definition obs_K (c:client) : list N := match mech_ c with MNone => [] | _ => markers c end.
Definition snapshot := (list (N*bool) * list (N*N*N) * mech)%type.
Definition snap (c:client) : snapshot :=
  (map (fun kv => (fst kv, match inst (snd kv) with Some _ => true | None => false end)) (T c), H c, mech_ c).
Definition snap_eq_dec (a b:snapshot) : {a = b} + {a <> b}.
Proof. repeat decide equality. Defined.
Definition snap_eqb (a b:snapshot) : bool := if snap_eq_dec a b then true else false.

Definition obs_of (c c':client) (o:op) (r:reply) (evs:list event) : obs :=
  {| ob_ret := oret_of r; ob_events := map oev_of evs; ob_T := ids_t (T c'); ob_H := obs_H (H c');
     ob_K := obs_K c'; ob_same := snap_eqb (snap c) (snap c') |}.
Definition mop_of (o:op) (r:reply) : mop :=
  match o with
  | Send now id rr method app _ => MSend now id rr method app
  | Indication _ method app _ => MInd method app
  | Recv now d m => MRecv now d m
  | Tmo now => MTmo now
  end.

Fixpoint run_mon (cf:mcfg) (cc:ccfg) (c:client) (s:mall) (ops:list op) : list (list (N*bool*N)) :=
  match ops with
  | [] => []
  | o :: rest =>
      let '(c', rep, evs) := step c o in
      let '(s', vs) := monitor_step cf cc s (mop_of o rep) (obs_of c c' o rep evs) in
      vs :: run_mon cf cc c' s' rest
  end.


(* ------------------------------------------------------------------ boolean list predicates of the monitors *)
Lemma memN_in x l : memN x l = true <-> In x l.
Proof.
  unfold memN. rewrite existsb_exists. split.
  - intros (y & Hin & He). apply N.eqb_eq in He. subst y. exact Hin.
  - intros Hin. exists x. split; [exact Hin|apply N.eqb_refl].
Qed.
Lemma memN_notin x l : memN x l = false <-> ~ In x l.
Proof.
  split.
  - intros Hm Hin. apply memN_in in Hin. congruence.
  - intros Hni. destruct (memN x l) eqn:Hm; [|reflexivity]. exfalso. apply Hni. apply memN_in. exact Hm.
Qed.
Lemma subsetb_spec a b : subsetb a b = true <-> (forall x, In x a -> In x b).
Proof.
  unfold subsetb. rewrite forallb_forall. split; intros Hs x Hx.
  - apply memN_in. apply Hs. exact Hx.
  - apply memN_in. apply Hs. exact Hx.
Qed.
Lemma subsetb_refl a : subsetb a a = true.
Proof. apply subsetb_spec. auto. Qed.
Lemma nodupb_spec l : nodupb l = true <-> NoDup l.
Proof.
  induction l as [|x l IH]; cbn [nodupb].
  - split; [constructor|reflexivity].
  - rewrite andb_true_iff, negb_true_iff, memN_notin, IH. split.
    + intros [Hn Hd]. constructor; assumption.
    + intros Hnd. inversion Hnd; subst. split; assumption.
Qed.
Lemma filter_nil_all {A} (f:A->bool) l : (forall x, In x l -> f x = false) -> filter f l = [].
Proof.
  induction l as [|a l IH]; cbn [filter]; [reflexivity|]. intros Hall.
  rewrite (Hall a (or_introl eq_refl)). apply IH. intros x Hx. apply Hall. right. exact Hx.
Qed.
Lemma same_elements_length (a b:list N) : NoDup a -> NoDup b -> (forall x, In x a <-> In x b) -> length a = length b.
Proof. intros Ha Hb Hab. apply Permutation_length. apply NoDup_Permutation; assumption. Qed.

(* ------------------------------------------------------------------ events *)
Lemma final_id_oev e : final_id (oev_of e) = ev_final e.
Proof.
  destruct e as [id [|] p|id l|id|id r|m]; cbn [oev_of final_id ev_final]; try reflexivity.
  unfold is_response. destruct (m_class m); reflexivity.
Qed.
Lemma finals_oev evs : Monitors.finals (map oev_of evs) = AgentTrace.finals evs.
Proof.
  induction evs as [|e evs IH]; cbn [map Monitors.finals]; [reflexivity|].
  rewrite final_id_oev, IH. unfold AgentTrace.finals. cbn [flat_map]. destruct (ev_final e); reflexivity.
Qed.

Definition bumpf (l:list sent) (e:oev) : list sent := match e with EOut i false _ _ => bump i l | _ => l end.
Lemma ids_bump i l : map s_id (bump i l) = map s_id l.
Proof.
  unfold bump. rewrite map_map. apply map_ext. intros x. destruct (s_id x =? i); reflexivity.
Qed.
Lemma ids_fold_bump evs : forall l, map s_id (fold_left bumpf evs l) = map s_id l.
Proof.
  induction evs as [|e evs IH]; intros l; cbn [fold_left]; [reflexivity|]. rewrite IH.
  destruct e as [i [|] sm p| | | |]; cbn [bumpf]; try reflexivity. apply ids_bump.
Qed.
Lemma fold_bump_noretx evs : forall l, (forall i p, ~ In (Out i false p) evs) -> fold_left bumpf (map oev_of evs) l = l.
Proof.
  induction evs as [|e evs IH]; intros l Hno; cbn [map fold_left]; [reflexivity|].
  assert (He : bumpf l (oev_of e) = l).
  { destruct e as [id [|] p|id lf|id|id r|m]; cbn [oev_of bumpf]; try reflexivity.
    exfalso. apply (Hno id p). left. reflexivity. }
  rewrite He. apply IH. intros i p Hin. apply (Hno i p). right. exact Hin.
Qed.

(* the sent list of the successor state *)
Definition sent1_of (s:mstate) (op:mop) (ret:oret) : list sent :=
  match op, ret with
  | MSend now id r _ _, OOk => {| s_id := id; s_t0 := now; s_r := r; s_ntx := 1 |} :: ms_sent s
  | _, _ => ms_sent s
  end.
Lemma next_state_sent s op o : ms_sent (next_state s op o) = fold_left bumpf (ob_events o) (sent1_of s op (ob_ret o)).
Proof. reflexivity. Qed.
Lemma next_state_fin s op o : ms_fin (next_state s op o) = Monitors.finals (ob_events o) ++ ms_fin s.
Proof. reflexivity. Qed.
Lemma next_state_K s op o : ms_K (next_state s op o) = ob_K o.
Proof. reflexivity. Qed.

Lemma live_spec s x : In x (live s) <-> In x (map s_id (ms_sent s)) /\ ~ In x (ms_fin s).
Proof. unfold live. rewrite filter_In, negb_true_iff, memN_notin. tauto. Qed.
Lemma live_next s op o x :
  In x (live (next_state s op o)) <->
  In x (map s_id (sent1_of s op (ob_ret o))) /\ ~ In x (Monitors.finals (ob_events o)) /\ ~ In x (ms_fin s).
Proof.
  rewrite live_spec, next_state_sent, next_state_fin, ids_fold_bump. rewrite in_app_iff. tauto.
Qed.
Lemma live_nodup s : NoDup (map s_id (ms_sent s)) -> NoDup (live s).
Proof. intros Hnd. unfold live. apply NoDup_filter. exact Hnd. Qed.

(* ------------------------------------------------------------------ what one step does to the table *)
Definition sent_ok (o:op) (rep:reply) (x:txid) : Prop :=
  match o, rep with Send _ id _ _ _ _, ROk _ => x = id | _, _ => False end.

Lemma tmo_one_keep now t0 t h mk ev id :
  (forall x, In x (ids_t t0) -> In x (ids_t t) \/ In x (AgentTrace.finals ev)) ->
  let '(t', _, _, ev') := tmo_one now (t, h, mk, ev) id in
  forall x, In x (ids_t t0) -> In x (ids_t t') \/ In x (AgentTrace.finals ev').
Proof.
  intros Hk. unfold tmo_one. destruct (lookup id t) as [y|]; [|exact Hk].
  destruct (next_rto (tm y) now) as [[d|] m'].
  - intros x Hx. rewrite ids_update_t, finals_snoc. cbn [ev_final opt_list]. rewrite app_nil_r. apply Hk. exact Hx.
  - intros x Hx. rewrite finals_snoc. cbn [ev_final opt_list]. destruct (Hk x Hx) as [Hin|Hin].
    + destruct (N.eq_dec x id) as [->|Hne].
      * right. apply in_or_app. right. left. reflexivity.
      * left. apply ids_remove_t. split; assumption.
    + right. apply in_or_app. left. exact Hin.
Qed.
Lemma tmo_fold_keep_ids now t0 : forall pending t h mk ev,
  (forall x, In x (ids_t t0) -> In x (ids_t t) \/ In x (AgentTrace.finals ev)) ->
  let '(t', _, _, ev') := fold_left (tmo_one now) pending (t, h, mk, ev) in
  forall x, In x (ids_t t0) -> In x (ids_t t') \/ In x (AgentTrace.finals ev').
Proof.
  induction pending as [|id pending IH]; intros t h mk ev Hk; cbn [fold_left]; [exact Hk|].
  pose proof (tmo_one_keep now t0 t h mk ev id Hk) as H1.
  destruct (tmo_one now (t, h, mk, ev) id) as [[[t1 h1] mk1] ev1]. apply IH. exact H1.
Qed.

Lemma step_table c o c' rep evs :
  Inv c -> fresh_for c o -> step c o = (c', rep, evs) ->
  forall x, In x (ids_t (T c')) <-> (In x (ids_t (T c)) /\ ~ In x (AgentTrace.finals evs)) \/ sent_ok o rep x.
Proof.
  intros Hinv Hfresh Hs.
  pose proof (step_events_spec c o Hinv Hfresh) as Hok. rewrite Hs in Hok.
  destruct Hok as (_ & Hfin & _ & _ & Hsub & Hfirst).
  destruct o as [now id r method app room|id method app room|now d w|now].
  - destruct (step_send_cases c now id r method app room) as [(rep0 & He & Hn & _)|(a & d & m1 & _ & _ & _ & He)];
      rewrite He in Hs; inversion Hs; subst; clear Hs.
    + intros x. cbn [sent_ok AgentTrace.finals flat_map]. destruct rep; try tauto. exfalso. eapply Hn. reflexivity.
    + intros x. cbn [sent_ok]. unfold with_TH; cbn [T ids_t map fst].
      change (Out id true ?p :: ?n) with ([Out id true p] ++ n). rewrite finals_app, finals_notif. cbn [AgentTrace.finals flat_map ev_final opt_list List.app].
      split; [intros [<-|Hx]; [right; reflexivity|left; split; [exact Hx|intros []]]|intros [[Hx _]| ->]; [right; exact Hx|left; reflexivity]].
  - destruct (step_indication_cases c id method app room) as [(rep0 & He)|(a & He)]; rewrite He in Hs; inversion Hs; subst; clear Hs.
    + intros x. cbn [sent_ok AgentTrace.finals flat_map]. tauto.
    + intros x. cbn [sent_ok AgentTrace.finals flat_map ev_final opt_list List.app]. tauto.
  - intros x. cbn [sent_ok]. split.
    + intros Hx. left. destruct (Hsub x Hx) as [Hin|[]]. split; [exact Hin|].
      intros Hf. apply in_finals in Hf as (e & Hine & Hef). destruct (Hfin e x Hine Hef) as [_ Hnot]. contradiction.
    + intros [[Hx Hnf]|[]].
      destruct (step_recv_cases c now d w) as [(rep0 & He & _)|[(mk & He & _)|[(_ & mech' & mk & He)|(Hr & _ & mech' & mk & ev & He & Hev)]]];
        rewrite He in Hs; inversion Hs; subst; clear Hs; try exact Hx.
      unfold with_TH, with_mech; cbn [T]. apply ids_remove_t. split; [exact Hx|]. intros ->. apply Hnf.
      apply in_finals. exists ev. split; [left; reflexivity|].
      destruct Hev as [->|[->|(rs & ->)]]; cbn [ev_final wmsg m_id]; try reflexivity.
      change (is_response (wmsg w)) with (is_response w). rewrite Hr. reflexivity.
  - intros x. cbn [sent_ok]. split.
    + intros Hx. left. destruct (Hsub x Hx) as [Hin|[]]. split; [exact Hin|].
      intros Hf. apply in_finals in Hf as (e & Hine & Hef). destruct (Hfin e x Hine Hef) as [_ Hnot]. contradiction.
    + intros [[Hx Hnf]|[]]. cbn [step] in Hs.
      pose proof (tmo_fold_keep_ids now (T c) (map h_id (filter (fun e => h_exp e <=? now) (H c))) (T c)
                    (filter (fun e => negb (h_exp e <=? now)) (H c)) (markers c) [] (fun y Hy => or_introl Hy)) as Hk.
      destruct (fold_left (tmo_one now) _ _) as [[[t' h'] mk'] ev]. inversion Hs; subst; clear Hs. cbn [T].
      destruct (Hk x Hx) as [Hin|Hin]; [exact Hin|]. exfalso. apply Hnf. rewrite finals_app. apply in_or_app. left. exact Hin.
Qed.


(* ------------------------------------------------------------------ the simulation invariant *)
Definition consistent (mc:mcfg) (cf:config) : Prop :=
  mc_reliable mc = reliable cf /\ mc_rm mc = cf_rm cf /\ mc_rc mc = cf_rc cf /\ mc_limit mc = limit cf.

Record R (mc:mcfg) (c:client) (s:mstate) (used:list txid) : Prop := {
  R_cfg : consistent mc (cfg c);
  R_inv : Inv c;
  R_nd : NoDup (map s_id (ms_sent s));
  R_live : forall x, In x (live s) <-> In x (ids_t (T c));
  R_K : ms_K s = obs_K c;
  R_lim : N.of_nat (length (T c)) <= limit (cfg c);
  R_used : forall x, In x (map s_id (ms_sent s)) -> In x used;
  R_fin : forall x, In x (ms_fin s) -> In x (map s_id (ms_sent s)) }.

Lemma R_init mc cf m : consistent mc cf -> R mc (init cf m) mstate0 [].
Proof.
  intros Hc. constructor; cbn [init cfg T H mstate0 ms_sent ms_fin ms_K map live filter ids_t length].
  - exact Hc.
  - apply inv_init.
  - constructor.
  - intros x. tauto.
  - unfold obs_K; cbn [mech_ markers]. destruct m; reflexivity.
  - lia.
  - intros x [].
  - intros x [].
Qed.

Lemma fresh_for_of c s mc used o : R mc c s used -> fresh_op used o -> fresh_for c o.
Proof.
  intros HR Hf. destruct o as [now id r method app room| | |]; cbn [fresh_for fresh_op] in *; try exact I.
  intros Hin. apply Hf. apply (R_used _ _ _ _ HR). apply (R_live _ _ _ _ HR) in Hin. apply live_spec in Hin. apply Hin.
Qed.

Lemma R_length mc c s used : R mc c s used -> N.of_nat (length (live s)) = N.of_nat (length (T c)).
Proof.
  intros HR. f_equal. rewrite <- (map_length fst (T c)). apply same_elements_length.
  - apply live_nodup. apply (R_nd _ _ _ _ HR).
  - apply (R_inv _ _ _ _ HR).
  - apply (R_live _ _ _ _ HR).
Qed.

Lemma send_ok_iff c now id r method app room c' rep evs :
  step c (Send now id r method app room) = (c', rep, evs) ->
  (oret_of rep = OOk <-> exists x, rep = ROk x).
Proof.
  intros _. destruct rep; cbn [oret_of]; split; try discriminate; try (intros (x & Hx); discriminate).
  - intros _. eexists; reflexivity.
  - reflexivity.
Qed.

Lemma sent1_ids s o rep x :
  In x (map s_id (sent1_of s (mop_of o rep) (oret_of rep))) <-> In x (map s_id (ms_sent s)) \/ sent_ok o rep x.
Proof.
  destruct o as [now id r method app room|id method app room|now d w|now]; cbn [mop_of sent1_of sent_ok].
  - destruct rep; cbn [oret_of map s_id In]; try tauto. split; [intros [<-|Hx]; auto|intros [Hx| ->]; auto].
  - destruct rep; tauto.
  - destruct rep; tauto.
  - destruct rep; tauto.
Qed.

Theorem step_R mc c s used o c' rep evs :
  R mc c s used -> fresh_op used o -> step c o = (c', rep, evs) ->
  R mc c' (next_state s (mop_of o rep) (obs_of c c' o rep evs)) (used_step used o).
Proof.
  intros HR Hf Hs. pose proof (fresh_for_of _ _ _ _ _ HR Hf) as Hff.
  pose proof (R_inv _ _ _ _ HR) as Hinv.
  pose proof (step_table c o c' rep evs Hinv Hff Hs) as Htab.
  pose proof (step_events_spec c o Hinv Hff) as Hok. rewrite Hs in Hok. destruct Hok as (Hinv' & Hfin & _ & _ & _ & _).
  assert (Hc' : c' = fst (fst (step c o))) by (rewrite Hs; reflexivity).
  assert (Hsok : forall x, sent_ok o rep x -> ~ In x used /\ o = o).
  { intros x Hx. split; [|reflexivity]. destruct o as [now id r method app room| | |]; cbn [sent_ok] in Hx; try contradiction.
    destruct rep; try contradiction. subst x. exact Hf. }
  assert (Hfinlive : forall x, In x (AgentTrace.finals evs) -> In x (live s)).
  { intros x Hx. apply in_finals in Hx as (e & Hine & Hef). apply (R_live _ _ _ _ HR). apply (Hfin e x Hine Hef). }
  constructor.
  - rewrite Hc', cfg_step. apply (R_cfg _ _ _ _ HR).
  - exact Hinv'.
  - rewrite next_state_sent, ids_fold_bump. cbn [obs_of ob_ret].
    destruct o as [now id r method app room|id method app room|now d w|now]; cbn [mop_of sent1_of];
      try (destruct rep; apply (R_nd _ _ _ _ HR)).
    destruct rep; cbn [oret_of]; try apply (R_nd _ _ _ _ HR). cbn [map s_id]. constructor; [|apply (R_nd _ _ _ _ HR)].
    intros Hin. apply Hf. apply (R_used _ _ _ _ HR). exact Hin.
  - intros x. rewrite live_next. cbn [obs_of ob_ret ob_events]. rewrite finals_oev, sent1_ids, Htab.
    rewrite <- (R_live _ _ _ _ HR x), live_spec. split.
    + intros ([Hx|Hx] & Hnf & Hnfin); [left; tauto|right; exact Hx].
    + intros [[[Hx Hnfin] Hnf]|Hx]; [tauto|]. destruct (Hsok x Hx) as [Hnu _].
      assert (Hns : ~ In x (map s_id (ms_sent s))) by (intros Hin; apply Hnu; apply (R_used _ _ _ _ HR); exact Hin).
      split; [right; exact Hx|]. split.
      * intros Hin. apply Hfinlive in Hin. apply live_spec in Hin. tauto.
      * intros Hin. apply Hns. apply (R_fin _ _ _ _ HR). exact Hin.
  - reflexivity.
  - rewrite Hc'. apply count_le_limit. apply (R_lim _ _ _ _ HR).
  - intros x. rewrite next_state_sent, ids_fold_bump. cbn [obs_of ob_ret]. rewrite sent1_ids. intros [Hx|Hx].
    + apply used_step_incl. apply (R_used _ _ _ _ HR). exact Hx.
    + destruct o as [now id r method app room| | |]; cbn [sent_ok] in Hx; try contradiction.
      destruct rep; try contradiction. subst x. left. reflexivity.
  - intros x. rewrite next_state_fin, next_state_sent, ids_fold_bump. cbn [obs_of ob_ret ob_events]. rewrite finals_oev, sent1_ids.
    intros Hx. apply in_app_or in Hx as [Hx|Hx]; left.
    + apply Hfinlive in Hx. apply live_spec in Hx. tauto.
    + apply (R_fin _ _ _ _ HR). exact Hx.
Qed.

(* ------------------------------------------------------------------ C12 *)
Lemma snap_eqb_refl a : snap_eqb a a = true.
Proof. unfold snap_eqb. destruct (snap_eq_dec a a) as [_|Hn]; [reflexivity|exfalso; apply Hn; reflexivity]. Qed.

Lemma snap_eqb_spec a b : snap_eqb a b = true <-> a = b.
Proof. unfold snap_eqb. destruct (snap_eq_dec a b) as [E|E]; split; intros HE; try assumption; try reflexivity; try discriminate; contradiction. Qed.

Theorem step_C12 mc c s used o c' rep evs :
  R mc c s used -> step c o = (c', rep, evs) ->
  mon_C12 mc s (mop_of o rep) (obs_of c c' o rep evs) = true.
Proof.
  intros HR Hs. unfold mon_C12. rewrite (R_length _ _ _ _ HR).
  destruct (R_cfg _ _ _ _ HR) as (_ & _ & _ & Hlim). rewrite Hlim.
  pose proof (R_lim _ _ _ _ HR) as Hle.
  assert (H1 : (N.of_nat (length (T c)) <=? limit (cfg c)) = true) by (apply N.leb_le; exact Hle).
  rewrite H1. cbn [andb].
  destruct o as [now id r method app room|id method app room|now d w|now]; cbn [mop_of]; try reflexivity.
  cbn [obs_of ob_ret ob_events ob_same].
  destruct (step_send_cases c now id r method app room) as [(rep0 & He & Hn & Hiff)|(a & d & m1 & Hlt & _ & _ & He)];
    rewrite He in Hs; inversion Hs; subst; clear Hs.
  - destruct rep; cbn [oret_of].
    + exfalso. eapply Hn. reflexivity.
    + assert (Hge : limit (cfg c') <= N.of_nat (length (T c'))) by (apply Hiff; reflexivity).
      cbn [map]. rewrite snap_eqb_refl. rewrite andb_true_r, andb_true_r. apply N.eqb_eq. lia.
    + apply N.ltb_lt. destruct (N.lt_ge_cases (N.of_nat (length (T c'))) (limit (cfg c'))) as [Hl|Hg]; [exact Hl|].
      apply Hiff in Hg. discriminate.
    + apply N.ltb_lt. destruct (N.lt_ge_cases (N.of_nat (length (T c'))) (limit (cfg c'))) as [Hl|Hg]; [exact Hl|].
      apply Hiff in Hg. discriminate.
    + apply N.ltb_lt. destruct (N.lt_ge_cases (N.of_nat (length (T c'))) (limit (cfg c'))) as [Hl|Hg]; [exact Hl|].
      apply Hiff in Hg. discriminate.
    + apply N.ltb_lt. destruct (N.lt_ge_cases (N.of_nat (length (T c'))) (limit (cfg c'))) as [Hl|Hg]; [exact Hl|].
      apply Hiff in Hg. discriminate.
  - cbn [oret_of]. apply N.ltb_lt. exact Hlt.
Qed.


(* ------------------------------------------------------------------ C17 *)
(* an indication never gets a marker *)
Lemma discard_message_ind rel mk m : m_class m = CIndication -> discard_message rel mk m = (EDiscarded, mk).
Proof. intros Hc. unfold discard_message. rewrite Hc. reflexivity. Qed.
Lemma compute_mi_ind rel mk key i m : m_class m = CIndication -> snd (compute_mi rel mk key i m) = mk.
Proof.
  intros Hc. unfold compute_mi. rewrite (discard_message_ind rel mk m Hc), Hc. cbn [class_eqb].
  destruct i as [a|]; [destruct (keyd_eqb (mac_key a) key)|]; reflexivity.
Qed.
Lemma st_recv_ind rel mk s m : m_class m = CIndication -> snd (fst (st_recv rel mk s m)) = mk.
Proof.
  intros Hc. unfold st_recv. rewrite Hc. cbn [class_eqb negb].
  destruct (st_scan false (rfc_filter (m_attrs m)) None None) as [[mi sha]|]; [|reflexivity].
  destruct (st_agreed s) as [v|].
  - pose proof (compute_mi_ind rel mk (KST 0) (match v with IMI => mi | ISHA => sha end) m Hc) as Hk.
    destruct (compute_mi rel mk (KST 0) _ m) as [e0 mk0]. exact Hk.
  - pose proof (compute_mi_ind rel mk (KST 0) (match mi with Some _ => mi | None => sha end) m Hc) as Hk.
    destruct (compute_mi rel mk (KST 0) _ m) as [e0 mk0]. cbn [snd] in Hk. subst mk0. destruct e0; reflexivity.
Qed.
Lemma lt_recv_ind rel mk s m : m_class m = CIndication -> snd (fst (lt_recv rel mk s m)) = mk.
Proof. intros Hc. unfold lt_recv. rewrite Hc. reflexivity. Qed.
Lemma mech_step_ind rel mk mc m : m_class m = CIndication -> snd (fst (mech_step rel mk mc m)) = mk.
Proof.
  intros Hc. unfold mech_step. destruct mc as [|s|s]; [reflexivity| |].
  - pose proof (st_recv_ind rel mk s m Hc) as Hk. destruct (st_recv rel mk s m) as [[e0 mk0] s0]. exact Hk.
  - pose proof (lt_recv_ind rel mk s m Hc) as Hk. destruct (lt_recv rel mk s m) as [[e0 mk0] s0]. exact Hk.
Qed.

(* a rejected packet: the marker, if any, is for an outstanding request *)
Theorem reject_marker c now d w c' r evs :
  step c (Recv now d w) = (c', r, evs) -> r <> ROk None ->
  markers c' = markers c
  \/ (reliable (cfg c) = false /\ markers c' = ins (m_id w) (markers c) /\ In (m_id w) (ids_t (T c))).
Proof.
  intros Hs Hr. destruct d; [|cbn [step negb] in Hs; inversion Hs; subst; left; reflexivity].
  rewrite step_recv_eq in Hs. cbv zeta in Hs. cbn [wmsg m_class m_id m_attrs] in Hs.
  destruct (class_eqb (m_class w) CRequest) eqn:Hreq; [inversion Hs; subst; left; reflexivity|].
  destruct (is_response (wmsg w) && match lookup (m_id w) (T c) with None => true | Some _ => false end) eqn:Hlk;
    [inversion Hs; subst; left; reflexivity|].
  destruct (use_fp (cfg c) && match find a_is_fp (rfc_filter (m_attrs w)) with None => true | Some _ => false end);
    [inversion Hs; subst; left; reflexivity|].
  destruct (use_fp (cfg c) && _); [inversion Hs; subst; left; reflexivity|].
  pose proof (mech_step_ind (reliable (cfg c)) (markers c) (mech_ c) (wmsg w)) as Hind.
  destruct (mech_step (reliable (cfg c)) (markers c) (mech_ c) (wmsg w)) as [[e mk] mech'] eqn:Hm.
  apply mech_step_spec in Hm as [Hm1 _]. cbn [fst snd wmsg m_class] in Hind.
  unfold recv_tail in Hs. cbn [wmsg m_class m_id] in Hs.
  assert (He : e = Some EDiscarded).
  { destruct e as [[| | |]|]; try reflexivity; exfalso;
      destruct (class_eqb (m_class w) CIndication); inversion Hs; subst; apply Hr; reflexivity. }
  subst e. inversion Hs; subst; clear Hs. unfold with_mech; cbn [markers].
  destruct (Hm1 eq_refl) as [_ [->|[Hrel Hmk]]]; [left; reflexivity|].
  cbn [wmsg m_id] in Hmk.
  destruct (m_class w) eqn:Hc.
  - discriminate.
  - left. apply Hind. reflexivity.
  - right. refine (conj Hrel (conj Hmk _)). unfold is_response in Hlk; cbn [wmsg m_class] in Hlk. rewrite Hc in Hlk. cbn [andb] in Hlk.
    destruct (lookup (m_id w) (T c)) as [x|] eqn:Hl; [|discriminate]. eapply lookup_some_in. exact Hl.
  - right. refine (conj Hrel (conj Hmk _)). unfold is_response in Hlk; cbn [wmsg m_class] in Hlk. rewrite Hc in Hlk. cbn [andb] in Hlk.
    destruct (lookup (m_id w) (T c)) as [x|] eqn:Hl; [|discriminate]. eapply lookup_some_in. exact Hl.
Qed.

Lemma in_ins x y l : In x (ins y l) <-> x = y \/ In x l.
Proof.
  unfold ins. destruct (mem y l) eqn:Hm; cbn [In]; [|split; intros [Hx|Hx]; auto].
  split; [auto|]. intros [->|Hx]; [|exact Hx].
  unfold mem in Hm. apply existsb_exists in Hm as (z & Hin & He). apply N.eqb_eq in He. subst z. exact Hin.
Qed.
Lemma length_ins y l : (length (ins y l) <= length l + 1)%nat.
Proof. unfold ins. destruct (mem y l); cbn [length]; lia. Qed.

Theorem step_C17 mc c s used o c' rep evs :
  R mc c s used -> step c o = (c', rep, evs) ->
  mon_C17 mc s (mop_of o rep) (obs_of c c' o rep evs) = true.
Proof.
  intros HR Hs. unfold mon_C17.
  destruct o as [now id r method app room|id method app room|now d w|now]; cbn [mop_of]; try reflexivity.
  cbn [obs_of ob_ret ob_events ob_same ob_K].
  destruct (oret_of rep) eqn:Hret; try reflexivity;
    (assert (Hne : rep <> ROk None) by (intros ->; discriminate));
    destruct (reject_noop c now d w c' rep evs Hs Hne) as (-> & HT & HH & _ & Hmech & _);
    pose proof (reject_marker c now d w c' rep [] Hs Hne) as Hmk;
    (assert (Hsame : snap_eqb (snap c) (snap c') = true) by (unfold snap; rewrite HT, HH, Hmech; apply snap_eqb_refl));
    rewrite Hsame; cbn [map andb];
    rewrite (R_K _ _ _ _ HR); destruct (R_cfg _ _ _ _ HR) as (Hrel & _); rewrite Hrel;
    unfold obs_K; rewrite Hmech;
    (destruct Hmk as [Hmk|(Hrf & Hmk & Hin)];
     [rewrite Hmk; destruct (reliable (cfg c)); rewrite !subsetb_refl; cbn [andb]; try reflexivity;
      rewrite andb_true_iff; split; [apply N.leb_le; lia|apply subsetb_spec; intros x Hx; apply in_or_app; left; exact Hx]
     |rewrite Hrf, Hmk; destruct (mech_ c); [reflexivity| |];
      (rewrite !andb_true_iff; refine (conj (conj _ _) _);
       [apply subsetb_spec; intros x Hx; apply in_ins; right; exact Hx
       |apply N.leb_le; pose proof (length_ins (m_id w) (markers c)); unfold txid in *; lia
       |apply subsetb_spec; intros x Hx; apply in_ins in Hx as [->|Hx]; apply in_or_app;
        [right; apply (R_live _ _ _ _ HR); exact Hin|left; exact Hx]])]).
Qed.

(* ------------------------------------------------------------------ C05 *)
Lemma step_no_retx c o c' rep evs :
  step c o = (c', rep, evs) -> (match o with Tmo _ => False | _ => True end) -> forall i p, ~ In (Out i false p) evs.
Proof.
  intros Hs Ho i p Hin. destruct o as [now id r method app room|id method app room|now d w|now]; [| | |contradiction].
  - destruct (step_send_cases c now id r method app room) as [(rep0 & He & _)|(a & d & m1 & _ & _ & _ & He)];
      rewrite He in Hs; inversion Hs; subst; clear Hs.
    + destruct Hin.
    + destruct Hin as [Hin|Hin]; [discriminate|]. apply notif_ids in Hin as (m & _ & Hin). discriminate.
  - destruct (step_indication_cases c id method app room) as [(rep0 & He)|(a & He)]; rewrite He in Hs; inversion Hs; subst; clear Hs.
    + destruct Hin.
    + destruct Hin as [Hin|[]]. discriminate.
  - destruct (step_recv_cases c now d w) as [(rep0 & He & _)|[(mk & He & _)|[(_ & mech' & mk & He)|(_ & _ & mech' & mk & ev & He & Hev)]]];
      rewrite He in Hs; inversion Hs; subst; clear Hs.
    + destruct Hin.
    + destruct Hin.
    + destruct Hin as [Hin|[]]. discriminate.
    + destruct Hin as [Hin|[]]. destruct Hev as [->|[->|(rs & ->)]]; discriminate.
Qed.

Theorem step_C05 mc c s used o c' rep evs :
  R mc c s used -> fresh_op used o -> step c o = (c', rep, evs) ->
  let ob := obs_of c c' o rep evs in
  mon_C05 s (next_state s (mop_of o rep) ob) ob = true.
Proof.
  intros HR Hf Hs ob. pose proof (step_R mc c s used o c' rep evs HR Hf Hs) as HR'. fold ob in HR'.
  pose proof (fresh_for_of _ _ _ _ _ HR Hf) as Hff.
  pose proof (step_events_spec c o (R_inv _ _ _ _ HR) Hff) as Hok. rewrite Hs in Hok.
  destruct Hok as (_ & Hfin & Hlive & Hnd & Hsub & _).
  unfold mon_C05. subst ob. cbn [obs_of ob_events]. rewrite finals_oev. fold (obs_of c c' o rep evs).
  rewrite !andb_true_iff. refine (conj (conj _ _) _).
  - apply nodupb_spec. exact Hnd.
  - apply subsetb_spec. intros x Hx. apply in_finals in Hx as (e & Hine & Hef). apply (R_live _ _ _ _ HR). apply (Hfin e x Hine Hef).
  - apply forallb_forall. intros oe Hoe. apply in_map_iff in Hoe as (e & <- & Hine).
    destruct e as [id [|] p|id lf|id|id r|m]; cbn [oev_of]; try reflexivity.
    + assert (Hin' : In id (ids_t (T c'))) by (apply (Hlive _ id Hine); reflexivity).
      rewrite andb_true_iff, negb_true_iff, memN_notin, memN_in. split.
      * apply (R_live _ _ _ _ HR). destruct (Hsub id Hin') as [Hin|Hsent]; [exact Hin|]. exfalso.
        destruct o as [now i0 r method app room| | |]; cbn [sent_id] in Hsent; try contradiction.
        eapply (step_no_retx _ _ _ _ _ Hs I). exact Hine.
      * intros Hx. apply in_finals in Hx as (e & Hine' & Hef). destruct (Hfin e id Hine' Hef) as [_ Hnot]. contradiction.
    + apply memN_in. apply (R_live _ _ _ _ HR'). apply (Hlive _ id Hine). reflexivity.
Qed.


(* ------------------------------------------------------------------ C11 *)
Definition is_etmo (e:oev) : bool := match e with ETmo _ _ => true | _ => false end.
Lemma is_etmo_oev e : is_etmo (oev_of e) = is_notif e.
Proof. destruct e as [id [|] p|id lf|id|id r|m]; reflexivity. Qed.
Lemma filter_etmo evs : filter is_etmo (map oev_of evs) = map oev_of (filter is_notif evs).
Proof.
  induction evs as [|e evs IH]; cbn [map filter]; [reflexivity|]. rewrite is_etmo_oev.
  destruct (is_notif e); cbn [map]; rewrite IH; reflexivity.
Qed.
Lemma obs_H_ids h : map h_ident (obs_H h) = ids_h h.
Proof. unfold obs_H, ids_h. rewrite map_map. apply map_ext. intros e. reflexivity. Qed.
Lemma find_obs_H m : forall h, NoDup (ids_h h) -> In m h ->
  find (fun e => h_ident e =? h_id m) (obs_H h) = Some (h_id m, fst (fst m), snd (fst m)).
Proof.
  induction h as [|e h IH]; cbn [In obs_H map find ids_h]; [intros _ []|].
  intros Hnd Hin. inversion Hnd as [|? ? Hni Hnd']; subst. unfold h_ident at 1. cbn [fst].
  destruct (N.eqb_spec (h_id e) (h_id m)) as [E|E].
  - destruct Hin as [->|Hin]; [reflexivity|]. exfalso. apply Hni. rewrite E. apply in_map. exact Hin.
  - destruct Hin as [->|Hin]; [contradiction|]. apply IH; assumption.
Qed.
Lemma expiry_obs e : expiry (h_id e, fst (fst e), snd (fst e)) = h_exp e.
Proof. reflexivity. Qed.

Lemma no_notif_no_etmo evs :
  (forall e, In e evs -> is_notif e = false) ->
  forallb (fun e => match e with ETmo _ _ => false | _ => true end) (map oev_of evs) = true.
Proof.
  intros Hno. apply forallb_forall. intros oe Hoe. apply in_map_iff in Hoe as (e & <- & Hin).
  specialize (Hno e Hin). destruct e as [id [|] p|id lf|id|id r|m]; cbn [oev_of]; try reflexivity. discriminate.
Qed.

Lemma armed_C11 c o c' rep evs now s' :
  Inv c' -> (forall x, In x (live s') <-> In x (ids_t (T c'))) ->
  step c o = (c', rep, evs) -> arms o rep now ->
  match live s', filter is_etmo (map oev_of evs) with
  | [], [] => true
  | _ :: _, [ETmo i lft] =>
      memN i (live s') &&
      match find (fun e => h_ident e =? i) (obs_H (H c')) with
      | None => false
      | Some e => forallb (fun x => expiry e <=? expiry x) (obs_H (H c')) && (lft =? expiry e - now)
      end
      && subsetb (live s') (map h_ident (obs_H (H c'))) && subsetb (map h_ident (obs_H (H c'))) (live s')
      && nodupb (map h_ident (obs_H (H c')))
  | _, _ => false
  end = true.
Proof.
  intros Hinv' Hlive Hs Ha. rewrite filter_etmo.
  destruct (notif_spec c o c' rep evs now Hs Ha) as [[Hnil Hno]|(pre & m & -> & Hpre & Hin & Hmin)].
  - rewrite (filter_nil_all is_notif evs Hno). cbn [map].
    assert (HT : T c' = []) by (apply (inv_H_nil_iff c' Hinv'); exact Hnil).
    destruct (live s') as [|a l]; [reflexivity|]. exfalso.
    assert (Hx : In a (ids_t (T c'))) by (apply Hlive; left; reflexivity). rewrite HT in Hx. destruct Hx.
  - rewrite filter_app, (filter_nil_all is_notif pre Hpre). cbn [filter is_notif List.app map oev_of].
    destruct Hinv' as (Hnt & Hnh & Heq).
    assert (Hidm : In (h_id m) (live s')) by (apply Hlive; apply Heq; apply in_map; exact Hin).
    destruct (live s') as [|a l] eqn:Hlv; [destruct Hidm|]. rewrite <- Hlv in *.
    rewrite (find_obs_H m (H c') Hnh Hin), obs_H_ids, expiry_obs.
    rewrite !andb_true_iff. refine (conj (conj (conj (conj _ (conj _ _)) _) _) _).
    + apply memN_in. exact Hidm.
    + apply forallb_forall. intros x Hx. unfold obs_H in Hx. apply in_map_iff in Hx as (e & <- & He).
      rewrite expiry_obs. apply N.leb_le. apply Hmin. exact He.
    + apply N.eqb_refl.
    + apply subsetb_spec. intros x Hx. apply Heq. apply Hlive. exact Hx.
    + apply subsetb_spec. intros x Hx. apply Hlive. apply Heq. exact Hx.
    + apply nodupb_spec. exact Hnh.
Qed.

Theorem step_C11 mc c s used o c' rep evs :
  R mc c s used -> fresh_op used o -> step c o = (c', rep, evs) ->
  let ob := obs_of c c' o rep evs in
  mon_C11 (next_state s (mop_of o rep) ob) (mop_of o rep) ob = true.
Proof.
  intros HR Hf Hs ob. pose proof (step_R mc c s used o c' rep evs HR Hf Hs) as HR'. fold ob in HR'.
  set (s' := next_state s (mop_of o rep) ob) in *.
  pose proof (R_inv _ _ _ _ HR') as Hinv'. pose proof (R_live _ _ _ _ HR') as Hlive'.
  unfold mon_C11.
  destruct o as [now id r method app room|id method app room|now d w|now]; cbn [mop_of].
  - subst ob. cbn [obs_of ob_ret ob_events ob_H]. fold (obs_of c c' (Send now id r method app room) rep evs).
    destruct rep as [x| | | | |]; cbn [oret_of];
      try (apply no_notif_no_etmo; apply (no_notif_otherwise _ _ _ _ _ Hs); intros n [_ (y & Hy)]; discriminate).
    apply (armed_C11 c _ c' _ evs now s' Hinv' Hlive' Hs). cbn [arms]. split; [reflexivity|eexists; reflexivity].
  - assert (Hnone : forallb (fun e => match e with ETmo _ _ => false | _ => true end) (ob_events ob) = true).
    { subst ob. cbn [obs_of ob_events]. apply no_notif_no_etmo. apply (no_notif_otherwise _ _ _ _ _ Hs). intros n []. }
    destruct (ob_ret ob); exact Hnone.
  - assert (Hnone : forallb (fun e => match e with ETmo _ _ => false | _ => true end) (ob_events ob) = true).
    { subst ob. cbn [obs_of ob_events]. apply no_notif_no_etmo. apply (no_notif_otherwise _ _ _ _ _ Hs). intros n []. }
    destruct (ob_ret ob); exact Hnone.
  - subst ob. cbn [obs_of ob_ret ob_events ob_H]. fold (obs_of c c' (Tmo now) rep evs).
    apply (armed_C11 c _ c' _ evs now s' Hinv' Hlive' Hs). reflexivity.
Qed.


(* ------------------------------------------------------------------ C06: the schedule bookkeeping of the monitor *)
Definition fs (i:N) (l:list sent) : option sent := find (fun x => s_id x =? i) l.
Lemma fs_id i l x : fs i l = Some x -> s_id x = i.
Proof. unfold fs. intros Hf. apply find_some in Hf as [_ He]. apply N.eqb_eq. exact He. Qed.
Lemma fs_some i l : In i (map s_id l) -> exists x, fs i l = Some x.
Proof.
  unfold fs. induction l as [|y l IH]; cbn [map In find]; [intros []|].
  destruct (N.eqb_spec (s_id y) i) as [E|E]; [intros _; eexists; reflexivity|].
  intros [Hy|Hin]; [contradiction|apply IH; exact Hin].
Qed.
Lemma fs_bump_neq i j l : i <> j -> fs j (bump i l) = fs j l.
Proof.
  intros Hne. unfold fs, bump. induction l as [|y l IH]; cbn [map find]; [reflexivity|].
  destruct (N.eqb_spec (s_id y) i) as [E|E]; cbn [s_id].
  - destruct (N.eqb_spec (s_id y) j) as [E'|_]; [congruence|exact IH].
  - destruct (s_id y =? j); [reflexivity|exact IH].
Qed.
Lemma fs_bump_eq i l x : fs i l = Some x ->
  fs i (bump i l) = Some {| s_id := s_id x; s_t0 := s_t0 x; s_r := s_r x; s_ntx := s_ntx x + 1 |}.
Proof.
  unfold fs, bump. induction l as [|y l IH]; cbn [map find]; [discriminate|].
  destruct (N.eqb_spec (s_id y) i) as [E|E]; cbn [s_id].
  - destruct (N.eqb_spec (s_id y) i) as [_|E']; [|contradiction]. intros Hx; inversion Hx; subst. reflexivity.
  - destruct (N.eqb_spec (s_id y) i) as [E'|_]; [contradiction|exact IH].
Qed.

Section Fold.
Variables (rm rc now : N).
Hypothesis Hrc : 1 <= rc.

Definition ent_ok (t:list (txid*txn)) (l:list sent) (e:hent) : Prop :=
  exists x sx k, lookup (h_id e) t = Some x /\ fs (h_id e) l = Some sx
                 /\ latest (tm x) = Some (fst (fst e)) /\ last_rto (tm x) = snd (fst e)
                 /\ Minv (s_r sx) rm rc (s_t0 sx) k (tm x) /\ s_ntx sx <= k.
Definition pend_ok (t:list (txid*txn)) (l:list sent) (id:txid) : Prop :=
  exists x sx k, lookup id t = Some x /\ fs id l = Some sx
                 /\ Minv (s_r sx) rm rc (s_t0 sx) k (tm x) /\ s_t0 sx + slot (s_r sx) rm rc k <= now /\ s_ntx sx <= k.
Definition FJ (t:list (txid*txn)) (h:list hent) (pending:list txid) (l:list sent) : Prop :=
  NoDup (ids_h h ++ pending) /\ (forall id, In id pending -> pend_ok t l id) /\ (forall e, In e h -> ent_ok t l e).

Lemma tmo_one_FJ t h mk ev id pending l :
  FJ t h (id :: pending) l ->
  let '(t', h', _, ev') := tmo_one now (t, h, mk, ev) id in
  exists e1, ev' = ev ++ [e1] /\ FJ t' h' pending (bumpf l (oev_of e1)).
Proof.
  intros (Hnd & Hpend & Hent).
  destruct (Hpend id (or_introl eq_refl)) as (x & sx & k & Hl & Hfs & Hm & Hexp & Hntx).
  pose proof (tmo_one_sched (fun _ => s_t0 sx) (s_r sx) rm rc now t h mk ev id x k Hrc Hl Hm Hexp) as Hs.
  assert (Hnd' : NoDup (ids_h h ++ pending) /\ ~ In id (ids_h h) /\ ~ In id pending).
  { apply NoDup_remove in Hnd as [A B]. split; [exact A|]. split; intros Hin; apply B; apply in_or_app; auto. }
  destruct Hnd' as (Hnd1 & Hnih & Hnip).
  destruct (tmo_one now (t, h, mk, ev) id) as [[[t' h'] mk'] ev'].
  destruct Hs as [(Hend & Hev & Ht & Hhh & Hmk)|(Hlt & d & k' & m' & Hk' & Hnow & Hsum & Hev & Hhh & Hmk & Ht & Hm' & Hlat & Hlr)];
    subst t' h' ev' mk'.
  - eexists. split; [reflexivity|]. cbn [oev_of bumpf].
    assert (Hother : forall j, j <> id -> lookup j (remove_t id t) = lookup j t) by (intros j Hj; apply lookup_remove_neq; exact Hj).
    refine (conj Hnd1 (conj _ _)).
    + intros j Hj. destruct (Hpend j (or_intror Hj)) as (y & sy & ky & A & B). exists y, sy, ky.
      rewrite Hother by (intros ->; contradiction). auto.
    + intros e He. destruct (Hent e He) as (y & sy & ky & A & B). exists y, sy, ky.
      rewrite Hother; [auto|]. intros Heq. apply Hnih. rewrite <- Heq. apply in_map. exact He.
  - eexists. split; [reflexivity|]. cbn [oev_of bumpf].
    set (x' := {| inst := None; pkt := pkt x; tm := m' |}).
    assert (Hother : forall j, j <> id -> lookup j (update_t id x' t) = lookup j t) by (intros j Hj; apply lookup_update_neq; exact Hj).
    refine (conj _ (conj _ _)).
    + cbn [ids_h map h_id snd List.app]. constructor; [|exact Hnd1]. intros Hin. apply in_app_or in Hin as [Hin|Hin]; contradiction.
    + intros j Hj. destruct (Hpend j (or_intror Hj)) as (y & sy & ky & A & B & C). exists y, sy, ky.
      assert (Hne : j <> id) by (intros ->; contradiction).
      rewrite Hother by exact Hne. rewrite fs_bump_neq by (intros E; apply Hne; symmetry; exact E). auto.
    + intros e [<-|He].
      * exists x', {| s_id := s_id sx; s_t0 := s_t0 sx; s_r := s_r sx; s_ntx := s_ntx sx + 1 |}, k'. cbn [h_id snd fst s_r s_t0 s_ntx].
        rewrite lookup_update_eq by congruence. rewrite (fs_bump_eq id l sx Hfs). cbn [tm x'].
        refine (conj eq_refl (conj eq_refl (conj Hlat (conj Hlr (conj Hm' _))))). lia.
      * destruct (Hent e He) as (y & sy & ky & A & B & C). exists y, sy, ky.
        assert (Hne : h_id e <> id) by (intros Heq; apply Hnih; rewrite <- Heq; apply in_map; exact He).
        rewrite Hother by exact Hne. rewrite fs_bump_neq by (intros E; apply Hne; symmetry; exact E). auto.
Qed.

Lemma tmo_fold_FJ : forall pending t h mk ev l,
  FJ t h pending l ->
  let '(t', h', _, ev') := fold_left (tmo_one now) pending (t, h, mk, ev) in
  exists ev1, ev' = ev ++ ev1 /\ FJ t' h' [] (fold_left bumpf (map oev_of ev1) l).
Proof.
  induction pending as [|id pending IH]; intros t h mk ev l Hfj; cbn [fold_left].
  - exists []. rewrite app_nil_r. split; [reflexivity|exact Hfj].
  - pose proof (tmo_one_FJ t h mk ev id pending l Hfj) as H1.
    destruct (tmo_one now (t, h, mk, ev) id) as [[[t1 h1] mk1] ev1]. destruct H1 as (e1 & -> & Hfj1).
    specialize (IH t1 h1 mk1 (ev ++ [e1]) _ Hfj1).
    destruct (fold_left (tmo_one now) pending (t1, h1, mk1, ev ++ [e1])) as [[[t' h'] mk'] ev'].
    destruct IH as (ev2 & -> & Hfj'). exists (e1 :: ev2). rewrite <- app_assoc. split; [reflexivity|exact Hfj'].
Qed.
End Fold.

Lemma tmo_one_retx_pending now t h mk ev id :
  let '(_, _, _, ev') := tmo_one now (t, h, mk, ev) id in
  forall i p, In (Out i false p) ev' -> In (Out i false p) ev \/ i = id.
Proof.
  unfold tmo_one. destruct (lookup id t) as [x|]; [|auto].
  destruct (next_rto (tm x) now) as [[d|] m']; intros i p Hin; apply in_app_or in Hin as [Hin|[Hin|[]]]; auto.
  - inversion Hin; subst. right. reflexivity.
  - discriminate.
Qed.
Lemma tmo_fold_retx_pending now : forall pending t h mk ev,
  let '(_, _, _, ev') := fold_left (tmo_one now) pending (t, h, mk, ev) in
  forall i p, In (Out i false p) ev' -> In (Out i false p) ev \/ In i pending.
Proof.
  induction pending as [|id pending IH]; intros t h mk ev; cbn [fold_left]; [auto|].
  pose proof (tmo_one_retx_pending now t h mk ev id) as H1.
  destruct (tmo_one now (t, h, mk, ev) id) as [[[t1 h1] mk1] ev1].
  specialize (IH t1 h1 mk1 ev1). destruct (fold_left (tmo_one now) pending (t1, h1, mk1, ev1)) as [[[t' h'] mk'] ev'].
  intros i p Hin. destruct (IH i p Hin) as [Hin1|Hp]; [|right; right; exact Hp].
  destruct (H1 i p Hin1) as [Hin0| ->]; [left; exact Hin0|right; left; reflexivity].
Qed.

(* the model / monitor coupling for the schedule *)
Definition MInv (c:client) (s:mstate) : Prop :=
  1 <= eff_rc (cfg c) /\ forall e, In e (H c) -> ent_ok (eff_rm (cfg c)) (eff_rc (cfg c)) (T c) (ms_sent s) e.

Definition t0f (s:mstate) (id:txid) : N := match fs id (ms_sent s) with Some x => s_t0 x | None => 0 end.
Definition rf (s:mstate) (id:txid) : N := match fs id (ms_sent s) with Some x => s_r x | None => 0 end.

Lemma MInv_SInv c s : MInv c s -> SInv (t0f s) (rf s) c.
Proof.
  intros (Hrc & Hent). split; [exact Hrc|]. intros e He.
  destruct (Hent e He) as (x & sx & k & Hl & Hfs & Hla & Hlr & Hm & _). exists x, k.
  unfold t0f, rf. rewrite Hfs. auto.
Qed.

Lemma MInv_init cf m s : 1 <= eff_rc cf -> MInv (init cf m) s.
Proof. intros Hrc. split; [exact Hrc|]. intros e []. Qed.

Lemma ent_ok_same rm rc t l t' l' e :
  lookup (h_id e) t' = lookup (h_id e) t -> fs (h_id e) l' = fs (h_id e) l -> ent_ok rm rc t l e -> ent_ok rm rc t' l' e.
Proof. intros Ht Hl (x & sx & k & A & B & C). exists x, sx, k. rewrite Ht, Hl. auto. Qed.

Theorem step_MInv mc c s used o c' rep evs :
  R mc c s used -> MInv c s -> fresh_op used o -> step c o = (c', rep, evs) ->
  MInv c' (next_state s (mop_of o rep) (obs_of c c' o rep evs)).
Proof.
  intros HR (Hrc & Hent) Hf Hs. pose proof (fresh_for_of _ _ _ _ _ HR Hf) as Hff.
  pose proof (R_inv _ _ _ _ HR) as Hinv.
  assert (Hc' : cfg c' = cfg c) by (replace c' with (fst (fst (step c o))) by (rewrite Hs; reflexivity); apply cfg_step).
  unfold MInv. rewrite Hc'. split; [exact Hrc|]. rewrite next_state_sent. cbn [obs_of ob_events ob_ret].
  destruct o as [now id r method app room|id method app room|now d w|now].
  - rewrite (fold_bump_noretx evs _ (step_no_retx _ _ _ _ _ Hs I)). cbn [mop_of].
    destruct (step_send_cases c now id r method app room) as [(rep0 & He & Hn & _)|(a & d & m1 & _ & _ & Hnr & He)];
      rewrite He in Hs; inversion Hs; subst; clear Hs.
    + assert (Hs1 : sent1_of s (MSend now id r method app) (oret_of rep) = ms_sent s).
      { destruct rep; try reflexivity. exfalso. eapply Hn. reflexivity. }
      rewrite Hs1. exact Hent.
    + cbn [oret_of sent1_of]. unfold with_TH; cbn [T H].
      cbn [fresh_for] in Hff.
      destruct (new_mgr_fresh c r) as [Hlat Hcalc].
      destruct (next_rto_first r (eff_rm (cfg c)) (eff_rc (cfg c)) Hrc now (new_mgr c r) Hlat Hcalc) as (m' & Hn' & Hm).
      rewrite Hnr in Hn'. inversion Hn'; subst d m'. clear Hn'.
      assert (Hl1 : latest m1 = Some now /\ last_rto m1 = slot r (eff_rm (cfg c)) (eff_rc (cfg c)) 1).
      { unfold next_rto in Hnr. rewrite Hlat in Hnr. destruct (calc_next (mcalc (new_mgr c r))) as [[t cc]|]; inversion Hnr; subst.
        cbn [latest last_rto]. split; reflexivity. }
      destruct Hl1 as [Hl1 Hl2].
      intros e [<-|Hin].
      * eexists _, _, 1. unfold fs. cbn [h_id snd fst lookup tm find s_id]. rewrite N.eqb_refl.
        refine (conj eq_refl (conj eq_refl (conj Hl1 (conj Hl2 (conj Hm _))))). cbn [s_ntx]. lia.
      * assert (Hne : h_id e <> id).
        { intros Heq. apply Hff. destruct Hinv as (_ & _ & Heqv). apply Heqv. rewrite <- Heq. apply in_map. exact Hin. }
        apply (ent_ok_same _ _ (T c) (ms_sent s)); [| |apply Hent; exact Hin].
        -- cbn [lookup]. destruct (N.eqb_spec id (h_id e)) as [E|_]; [congruence|reflexivity].
        -- unfold fs. cbn [find s_id]. destruct (N.eqb_spec id (h_id e)) as [E|_]; [congruence|reflexivity].
  - rewrite (fold_bump_noretx evs _ (step_no_retx _ _ _ _ _ Hs I)). cbn [mop_of sent1_of].
    replace c' with (fst (fst (step c (Indication id method app room)))) by (rewrite Hs; reflexivity).
    rewrite indication_state. exact Hent.
  - rewrite (fold_bump_noretx evs _ (step_no_retx _ _ _ _ _ Hs I)). cbn [mop_of sent1_of].
    destruct (step_recv_cases c now d w) as [(rep0 & He & _)|[(mk & He & _)|[(_ & mech' & mk & He)|(_ & _ & mech' & mk & ev & He & _)]]];
      rewrite He in Hs; inversion Hs; subst; clear Hs; try exact Hent.
    unfold with_TH, with_mech; cbn [T H]. intros e He'. unfold remove_h in He'. apply filter_In in He' as [He' Hne].
    apply negb_true_iff, N.eqb_neq in Hne.
    apply (ent_ok_same _ _ (T c) (ms_sent s)); [apply lookup_remove_neq; exact Hne|reflexivity|apply Hent; exact He'].
  - cbn [mop_of sent1_of]. cbn [step] in Hs.
    destruct Hinv as (Ht & Hh & Heq).
    set (due := filter (fun e => h_exp e <=? now) (H c)) in *.
    set (keep := filter (fun e => negb (h_exp e <=? now)) (H c)) in *.
    assert (Hperm : Permutation (ids_h (H c)) (ids_h keep ++ map h_id due)).
    { unfold ids_h. rewrite <- map_app. apply Permutation_map. apply filter_split_perm. }
    assert (Hfj : FJ (eff_rm (cfg c)) (eff_rc (cfg c)) now (T c) keep (map h_id due) (ms_sent s)).
    { refine (conj _ (conj _ _)).
      - eapply Permutation_NoDup; [exact Hperm|exact Hh].
      - intros i Hin. apply in_map_iff in Hin as (e & <- & He). apply filter_In in He as [He Hd]. apply N.leb_le in Hd.
        destruct (Hent e He) as (x & sx & k & Hl & Hfs & Hla & Hlr & Hm & Hntx). exists x, sx, k.
        refine (conj Hl (conj Hfs (conj Hm (conj _ Hntx)))).
        destruct Hm as (_ & _ & l0 & Hl' & Hsum). rewrite Hla in Hl'. inversion Hl'; subst l0. unfold h_exp in Hd. rewrite <- Hlr in Hd.
        clear - Hd Hsum. lia.
      - intros e He. apply filter_In in He as [He _]. apply Hent. exact He. }
    pose proof (tmo_fold_FJ (eff_rm (cfg c)) (eff_rc (cfg c)) now Hrc (map h_id due) (T c) keep (markers c) [] (ms_sent s) Hfj) as Hf'.
    destruct (fold_left (tmo_one now) (map h_id due) (T c, keep, markers c, [])) as [[[t' h'] mk'] ev].
    destruct Hf' as (ev1 & Hev & (_ & _ & Hent')). cbn [List.app] in Hev. subst ev1.
    inversion Hs; subst; clear Hs. cbn [T H].
    rewrite map_app, fold_left_app.
    assert (Hn : forall l, fold_left bumpf (map oev_of (notif h' now)) l = l).
    { intros l. apply fold_bump_noretx. intros i p Hin. apply notif_ids in Hin as (m & _ & Hin). discriminate. }
    rewrite Hn. exact Hent'.
Qed.


(* ------------------------------------------------------------------ C06: the verdict *)
Lemma recv_no_timeout c now d w c' r evs :
  step c (Recv now d w) = (c', r, evs) -> forall id, ~ In (Failed id TimedOut) evs.
Proof.
  intros Hs id Hin. destruct d; [|cbn [step negb] in Hs; inversion Hs; subst; destruct Hin].
  rewrite step_recv_eq in Hs. cbv zeta in Hs.
  destruct (class_eqb (m_class (wmsg w)) CRequest); [inversion Hs; subst; destruct Hin|].
  destruct (is_response (wmsg w) && _); [inversion Hs; subst; destruct Hin|].
  destruct (use_fp (cfg c) && match find a_is_fp (m_attrs (wmsg w)) with None => true | Some _ => false end);
    [inversion Hs; subst; destruct Hin|].
  destruct (use_fp (cfg c) && _); [inversion Hs; subst; destruct Hin|].
  unfold recv_tail in Hs. destruct (mech_step _ _ _ _) as [[e mk] mech'].
  destruct e as [[| | |]|]; try (inversion Hs; subst; destruct Hin; fail);
    destruct (class_eqb (m_class (wmsg w)) CIndication); inversion Hs; subst; destruct Hin as [Hin|[]]; discriminate.
Qed.

Lemma step_no_timeout c o c' rep evs :
  step c o = (c', rep, evs) -> (match o with Tmo _ => False | _ => True end) -> forall id, ~ In (Failed id TimedOut) evs.
Proof.
  intros Hs Ho i Hin. destruct o as [now id r method app room|id method app room|now d w|now]; [| | |contradiction].
  - destruct (step_send_cases c now id r method app room) as [(rep0 & He & _)|(a & d & m1 & _ & _ & _ & He)];
      rewrite He in Hs; inversion Hs; subst; clear Hs.
    + destruct Hin.
    + destruct Hin as [Hin|Hin]; [discriminate|]. apply notif_ids in Hin as (m & _ & Hin). discriminate.
  - destruct (step_indication_cases c id method app room) as [(rep0 & He)|(a & He)]; rewrite He in Hs; inversion Hs; subst; clear Hs.
    + destruct Hin.
    + destruct Hin as [Hin|[]]. discriminate.
  - eapply recv_no_timeout; [exact Hs|exact Hin].
Qed.

Lemma tmo_retx_due c now c' rep evs :
  step c (Tmo now) = (c', rep, evs) ->
  forall i p, In (Out i false p) evs -> exists e, In e (H c) /\ h_id e = i /\ h_exp e <= now.
Proof.
  intros Hs i p Hin. cbn [step] in Hs.
  pose proof (tmo_fold_retx_pending now (map h_id (filter (fun e => h_exp e <=? now) (H c))) (T c)
                (filter (fun e => negb (h_exp e <=? now)) (H c)) (markers c) []) as Hp.
  destruct (fold_left (tmo_one now) _ _) as [[[t' h'] mk'] ev]. inversion Hs; subst; clear Hs.
  apply in_app_or in Hin as [Hin|Hin].
  - destruct (Hp i p Hin) as [[]|Hpend]. apply in_map_iff in Hpend as (e & He & Hine). apply filter_In in Hine as [Hine Hd].
    exists e. refine (conj Hine (conj He _)). apply N.leb_le. exact Hd.
  - apply notif_ids in Hin as (m & _ & Hin). discriminate.
Qed.

Lemma eff_of_mc mc cf : consistent mc cf -> rc_of mc = eff_rc cf /\ rm_of mc = eff_rm cf.
Proof. intros (Hrel & Hrm & Hrcc & _). unfold rc_of, rm_of, eff_rc, eff_rm. rewrite Hrel, Hrm, Hrcc. split; reflexivity. Qed.

Lemma step_C06_other mc c s o c' rep evs :
  step c o = (c', rep, evs) -> (match o with Tmo _ => False | _ => True end) ->
  mon_C06 mc s (mop_of o rep) (obs_of c c' o rep evs) = true.
Proof.
  intros Hs Ho.
  assert (Hother :
    forallb (fun e => match e with EOut _ false _ _ => false | EFail _ TimedOut => false | _ => true end) (map oev_of evs) = true).
  { apply forallb_forall. intros oe Hoe. apply in_map_iff in Hoe as (e & <- & Hine).
    destruct e as [id [|] p|id lf|id|id [| |]|m]; cbn [oev_of]; try reflexivity; exfalso.
    - eapply (step_no_retx _ _ _ _ _ Hs Ho). exact Hine.
    - eapply (step_no_timeout _ _ _ _ _ Hs Ho). exact Hine. }
  unfold mon_C06. destruct o as [now id r method app room|id method app room|now d w|now]; cbn [mop_of obs_of ob_events];
    [exact Hother|exact Hother|exact Hother|contradiction].
Qed.

Theorem step_C06 mc c s used o c' rep evs :
  R mc c s used -> MInv c s -> fresh_op used o -> step c o = (c', rep, evs) ->
  mon_C06 mc s (mop_of o rep) (obs_of c c' o rep evs) = true.
Proof.
  intros HR HM Hf Hs. pose proof (R_inv _ _ _ _ HR) as Hinv.
  destruct o as [now id r method app room|id method app room|now d w|now];
    try (apply step_C06_other; [exact Hs|exact I]).
  unfold mon_C06. cbn [mop_of obs_of ob_events].
  destruct (eff_of_mc mc (cfg c) (R_cfg _ _ _ _ HR)) as [-> ->].
  pose proof (tmo_deadline (t0f s) (rf s) c now Hinv (MInv_SInv c s HM)) as Hd. rewrite Hs in Hd.
  destruct Hd as (_ & _ & Hfail & Hconv & Hretx). destruct HM as (Hrc & Hent).
  set (rm := eff_rm (cfg c)) in *. set (rc := eff_rc (cfg c)) in *.
  assert (Hdl : forall i x, fs i (ms_sent s) = Some x -> deadline (t0f s) (rf s) c i = s_t0 x + slot (s_r x) rm rc rc).
  { intros i x Hx. unfold deadline, t0f, rf. rewrite Hx. reflexivity. }
  unfold find_sent. rewrite andb_true_iff. split.
  - apply forallb_forall. intros oe Hoe. apply in_map_iff in Hoe as (e & <- & Hine).
    destruct e as [id [|] p|id lf|id|id r|m]; cbn [oev_of]; try reflexivity.
    + destruct (tmo_retx_due c now c' rep evs Hs id p Hine) as (en & Hen & Hid & Hdue).
      destruct (Hent en Hen) as (x & sx & k & Hl & Hfs & Hla & Hlr & Hm & Hntx). rewrite Hid in *.
      change (find (fun x0 => s_id x0 =? id) (ms_sent s)) with (fs id (ms_sent s)). rewrite Hfs. cbn [andb].
      destruct (Hretx id p Hine) as [Hlt _]. rewrite (Hdl id sx Hfs) in Hlt.
      destruct Hm as (_ & Hk & l0 & Hl0 & Hsum). rewrite Hla in Hl0. inversion Hl0; subst l0.
      unfold h_exp in Hdue. rewrite <- Hlr in Hdue.
      assert (Hkrc : k < rc).
      { destruct (N.eq_dec k rc) as [E|E]; [|lia]. exfalso. rewrite E in Hsum. lia. }
      pose proof (slot_mono (s_r sx) rm rc (s_ntx sx) k Hrc Hntx ltac:(lia)) as Hmono.
      rewrite andb_true_iff. split; [apply N.ltb_lt; lia|apply N.leb_le; lia].
    + destruct (Hconv id r Hine) as (Hdd & Hrs & HinT).
      assert (Hsome : exists x, fs id (ms_sent s) = Some x).
      { apply fs_some. apply (R_live _ _ _ _ HR) in HinT. apply live_spec in HinT. apply HinT. }
      destruct Hsome as (x & Hx).
      change (find (fun x0 => s_id x0 =? id) (ms_sent s)) with (fs id (ms_sent s)). rewrite Hx.
      rewrite (Hdl id x Hx) in Hdd. rewrite Hrs. unfold rsn. destruct (mem id (markers c)); apply N.leb_le; exact Hdd.
  - apply forallb_forall. intros i Hi. apply (R_live _ _ _ _ HR) in Hi.
    change (find (fun x0 => s_id x0 =? i) (ms_sent s)) with (fs i (ms_sent s)).
    destruct (fs i (ms_sent s)) as [x|] eqn:Hx; [|reflexivity]. rewrite <- (Hdl i x Hx).
    destruct (N.leb_spec (deadline (t0f s) (rf s) c i) now) as [Hle|Hgt].
    + apply existsb_exists. destruct (Hfail i Hi Hle) as (Hin & _). exists (oev_of (Failed i (rsn i (markers c)))).
      split; [apply in_map; exact Hin|]. cbn [oev_of]. apply N.eqb_refl.
    + apply negb_true_iff. destruct (existsb _ (map oev_of evs)) eqn:Hex; [|reflexivity]. exfalso.
      apply existsb_exists in Hex as (oe & Hoe & Hj). apply in_map_iff in Hoe as (e & <- & Hine).
      destruct e as [id [|] p|id lf|id|id r|m]; cbn [oev_of] in Hj; try discriminate.
      apply N.eqb_eq in Hj. subst id. destruct (Hconv i r Hine) as (Hdd & _). lia.
Qed.


(* ------------------------------------------------------------------ C06, degenerate configuration: no transmission allowed
   (unreliable transport with Rc = 0). Every Send fails, nothing is ever outstanding. *)
Definition DInv (c:client) : Prop := eff_rc (cfg c) = 0 /\ T c = [] /\ H c = [].

Lemma eff_rc_zero cf : eff_rc cf = 0 -> reliable cf = false /\ cf_rc cf = 0.
Proof. unfold eff_rc. destruct (reliable cf); [discriminate|auto]. Qed.

Lemma step_DInv c o c' rep evs :
  DInv c -> step c o = (c', rep, evs) ->
  DInv c' /\ (match o with Tmo _ => evs = [] | _ => True end).
Proof.
  intros (Hz & HT & HH) Hs.
  assert (Hc' : cfg c' = cfg c) by (replace c' with (fst (fst (step c o))) by (rewrite Hs; reflexivity); apply cfg_step).
  unfold DInv. rewrite Hc'.
  destruct o as [now id r method app room|id method app room|now d w|now].
  - destruct (step_send_cases c now id r method app room) as [(rep0 & He & _)|(a & d & m1 & _ & _ & Hnr & He)];
      rewrite He in Hs; inversion Hs; subst; clear Hs; [auto|]. exfalso.
    destruct (eff_rc_zero _ Hz) as [Hrel Hrc0].
    unfold next_rto, new_mgr in Hnr. rewrite Hrel in Hnr. cbn [latest mcalc] in Hnr. unfold calc_next in Hnr. cbn [c_rc] in Hnr.
    rewrite Hrc0, N.eqb_refl in Hnr. discriminate.
  - replace c' with (fst (fst (step c (Indication id method app room)))) by (rewrite Hs; reflexivity).
    rewrite indication_state. auto.
  - destruct (step_recv_cases c now d w) as [(rep0 & He & _)|[(mk & He & _)|[(_ & mech' & mk & He)|(_ & (x & Hl) & _)]]];
      try (rewrite He in Hs; inversion Hs; subst; clear Hs; unfold with_mech; cbn [T H]; auto; fail).
    rewrite HT in Hl. discriminate.
  - cbn [step] in Hs. rewrite HH in Hs. cbn [filter map fold_left] in Hs. inversion Hs; subst; clear Hs. cbn [T H].
    unfold notif. cbn [min_entry List.app]. auto.
Qed.

Theorem step_C06_degenerate mc c s used o c' rep evs :
  R mc c s used -> DInv c -> step c o = (c', rep, evs) ->
  mon_C06 mc s (mop_of o rep) (obs_of c c' o rep evs) = true.
Proof.
  intros HR HD Hs. destruct (step_DInv c o c' rep evs HD Hs) as [_ Hev]. destruct HD as (_ & HT & _).
  destruct o as [now id r method app room|id method app room|now d w|now];
    try (apply step_C06_other; [exact Hs|exact I]).
  subst evs. unfold mon_C06. cbn [mop_of obs_of ob_events map forallb andb].
  assert (Hl : live s = []).
  { destruct (live s) as [|a l] eqn:Hlv; [reflexivity|]. exfalso.
    assert (Hin : In a (ids_t (T c))) by (apply (R_live _ _ _ _ HR); rewrite Hlv; left; reflexivity).
    rewrite HT in Hin. destruct Hin. }
  rewrite Hl. reflexivity.
Qed.


(* ------------------------------------------------------------------ the lockstep run *)
Lemma monitor_step_core mc cc s op ob : ma_core (fst (monitor_step mc cc s op ob)) = next_state (ma_core s) op ob.
Proof.
  unfold monitor_step. destruct (mon_C07 cc (ma_st s) (ms_marked (ma_core s)) op ob) as [st' v07].
  destruct (mon_C08 cc (ma_lt s) op ob) as [lt' v08]. destruct (mon_C15 mc cc (ma_core s) (ma_rtt s) op ob) as [rt' v15].
  reflexivity.
Qed.
Lemma monitor_step_verdicts mc cc s op ob k b cl :
  In (k, b, cl) (snd (monitor_step mc cc s op ob)) ->
  (k = 5 -> b = mon_C05 (ma_core s) (next_state (ma_core s) op ob) ob)
  /\ (k = 6 -> b = mon_C06 mc (ma_core s) op ob)
  /\ (k = 11 -> b = mon_C11 (next_state (ma_core s) op ob) op ob)
  /\ (k = 12 -> b = mon_C12 mc (ma_core s) op ob)
  /\ (k = 17 -> b = mon_C17 mc (ma_core s) op ob).
Proof.
  unfold monitor_step. destruct (mon_C07 cc (ma_st s) (ms_marked (ma_core s)) op ob) as [st' v07].
  destruct (mon_C08 cc (ma_lt s) op ob) as [lt' v08]. destruct (mon_C15 mc cc (ma_core s) (ma_rtt s) op ob) as [rt' v15].
  cbn [snd In]. intros Hin.
  repeat (destruct Hin as [Hin|Hin]; [inversion Hin; subst; repeat split; intros Hk; (reflexivity || discriminate Hk)|]).
  destruct Hin.
Qed.

(* the verdicts of the five core properties present in every verdict list *)
Lemma monitor_step_has mc cc s op ob k :
  In k [5; 6; 11; 12; 17] -> exists b cl, In (k, b, cl) (snd (monitor_step mc cc s op ob)).
Proof.
  unfold monitor_step. destruct (mon_C07 cc (ma_st s) (ms_marked (ma_core s)) op ob) as [st' v07].
  destruct (mon_C08 cc (ma_lt s) op ob) as [lt' v08]. destruct (mon_C15 mc cc (ma_core s) (ma_rtt s) op ob) as [rt' v15].
  cbn [snd]. intros Hk. cbn [In] in Hk.
  destruct Hk as [<-|[<-|[<-|[<-|[<-|[]]]]]]; eexists _, _; cbn [In]; auto 12.
Qed.

Definition core_prop (k:N) : Prop := k = 5 \/ k = 11 \/ k = 12 \/ k = 17.

Lemma run_mon_core mc cc : forall ops c s used,
  R mc c (ma_core s) used -> fresh_trace used ops ->
  forall vs k b cl, In vs (run_mon mc cc c s ops) -> In (k, b, cl) vs -> core_prop k -> b = true.
Proof.
  induction ops as [|o ops IH]; intros c s used HR Hfr vs k b cl Hvs Hin Hk; cbn [run_mon] in Hvs; [destruct Hvs|].
  destruct Hfr as [Hfo Hfr].
  destruct (step c o) as [[c' rep] evs] eqn:Hs.
  pose proof (monitor_step_core mc cc s (mop_of o rep) (obs_of c c' o rep evs)) as Hcore.
  pose proof (monitor_step_verdicts mc cc s (mop_of o rep) (obs_of c c' o rep evs) k b cl) as Hver.
  destruct (monitor_step mc cc s (mop_of o rep) (obs_of c c' o rep evs)) as [s' vs0]. cbn [fst snd] in *.
  destruct Hvs as [<-|Hvs].
  - destruct (Hver Hin) as (H5 & _ & H11 & H12 & H17). destruct Hk as [Hk|[Hk|[Hk|Hk]]].
    + rewrite (H5 Hk). apply (step_C05 mc c (ma_core s) used o c' rep evs HR Hfo Hs).
    + rewrite (H11 Hk). apply (step_C11 mc c (ma_core s) used o c' rep evs HR Hfo Hs).
    + rewrite (H12 Hk). apply (step_C12 mc c (ma_core s) used o c' rep evs HR Hs).
    + rewrite (H17 Hk). apply (step_C17 mc c (ma_core s) used o c' rep evs HR Hs).
  - apply (IH c' s' (used_step used o)) with (vs := vs) (k := k) (cl := cl); try assumption.
    rewrite Hcore. apply (step_R mc c (ma_core s) used o c' rep evs HR Hfo Hs).
Qed.

Lemma run_mon_sched mc cc : forall ops c s used,
  R mc c (ma_core s) used -> MInv c (ma_core s) -> fresh_trace used ops ->
  forall vs b cl, In vs (run_mon mc cc c s ops) -> In (6, b, cl) vs -> b = true.
Proof.
  induction ops as [|o ops IH]; intros c s used HR HM Hfr vs b cl Hvs Hin; cbn [run_mon] in Hvs; [destruct Hvs|].
  destruct Hfr as [Hfo Hfr].
  destruct (step c o) as [[c' rep] evs] eqn:Hs.
  pose proof (monitor_step_core mc cc s (mop_of o rep) (obs_of c c' o rep evs)) as Hcore.
  pose proof (monitor_step_verdicts mc cc s (mop_of o rep) (obs_of c c' o rep evs) 6 b cl) as Hver.
  destruct (monitor_step mc cc s (mop_of o rep) (obs_of c c' o rep evs)) as [s' vs0]. cbn [fst snd] in *.
  destruct Hvs as [<-|Hvs].
  - destruct (Hver Hin) as (_ & H6 & _). rewrite (H6 eq_refl). apply (step_C06 mc c (ma_core s) used o c' rep evs HR HM Hfo Hs).
  - apply (IH c' s' (used_step used o)) with (vs := vs) (cl := cl); try assumption.
    + rewrite Hcore. apply (step_R mc c (ma_core s) used o c' rep evs HR Hfo Hs).
    + rewrite Hcore. apply (step_MInv mc c (ma_core s) used o c' rep evs HR HM Hfo Hs).
Qed.

Lemma run_mon_degenerate mc cc : forall ops c s used,
  R mc c (ma_core s) used -> DInv c -> fresh_trace used ops ->
  forall vs b cl, In vs (run_mon mc cc c s ops) -> In (6, b, cl) vs -> b = true.
Proof.
  induction ops as [|o ops IH]; intros c s used HR HD Hfr vs b cl Hvs Hin; cbn [run_mon] in Hvs; [destruct Hvs|].
  destruct Hfr as [Hfo Hfr].
  destruct (step c o) as [[c' rep] evs] eqn:Hs.
  pose proof (monitor_step_core mc cc s (mop_of o rep) (obs_of c c' o rep evs)) as Hcore.
  pose proof (monitor_step_verdicts mc cc s (mop_of o rep) (obs_of c c' o rep evs) 6 b cl) as Hver.
  destruct (monitor_step mc cc s (mop_of o rep) (obs_of c c' o rep evs)) as [s' vs0]. cbn [fst snd] in *.
  destruct Hvs as [<-|Hvs].
  - destruct (Hver Hin) as (_ & H6 & _). rewrite (H6 eq_refl). apply (step_C06_degenerate mc c (ma_core s) used o c' rep evs HR HD Hs).
  - apply (IH c' s' (used_step used o)) with (vs := vs) (cl := cl); try assumption.
    + rewrite Hcore. apply (step_R mc c (ma_core s) used o c' rep evs HR Hfo Hs).
    + apply (step_DInv c o c' rep evs HD Hs).
Qed.

(* every step of the run is judged: one verdict list per operation, each with the five core verdicts *)
Lemma run_mon_length mc cc : forall ops c s, length (run_mon mc cc c s ops) = length ops.
Proof.
  induction ops as [|o ops IH]; intros c s; cbn [run_mon length]; [reflexivity|].
  destruct (step c o) as [[c' rep] evs]. destruct (monitor_step mc cc s (mop_of o rep) (obs_of c c' o rep evs)) as [s' vs0].
  cbn [length]. rewrite IH. reflexivity.
Qed.
Lemma run_mon_judged mc cc : forall ops c s vs k,
  In vs (run_mon mc cc c s ops) -> In k [5; 6; 11; 12; 17] -> exists b cl, In (k, b, cl) vs.
Proof.
  induction ops as [|o ops IH]; intros c s vs k Hvs Hk; cbn [run_mon] in Hvs; [destruct Hvs|].
  destruct (step c o) as [[c' rep] evs].
  pose proof (monitor_step_has mc cc s (mop_of o rep) (obs_of c c' o rep evs) k Hk) as Hhas.
  destruct (monitor_step mc cc s (mop_of o rep) (obs_of c c' o rep evs)) as [s' vs0]. cbn [snd] in Hhas.
  destruct Hvs as [<-|Hvs]; [exact Hhas|]. eapply IH; eassumption.
Qed.

(* ------------------------------------------------------------------ well-formed histories *)
(* what the harness guarantees: the id of a Send was never used by an earlier Send, the clock does not go back,
   the RTO in force is positive. wf_hist used last ops: `used` = ids of earlier Sends, `last` = instant of the latest call *)
Inductive wf_hist : list txid -> N -> list op -> Prop :=
| wf_nil used last : wf_hist used last []
| wf_send used last now id r method app room ops :
    ~ In id used -> last <= now -> 0 < r -> wf_hist (id :: used) now ops ->
    wf_hist used last (Send now id r method app room :: ops)
| wf_ind used last id method app room ops :
    wf_hist used last ops -> wf_hist used last (Indication id method app room :: ops)
| wf_recv used last now d m ops :
    last <= now -> wf_hist used now ops -> wf_hist used last (Recv now d m :: ops)
| wf_tmo used last now ops :
    last <= now -> wf_hist used now ops -> wf_hist used last (Tmo now :: ops).
Definition well_formed_history (ops:list op) : Prop := wf_hist [] 0 ops.

Lemma wf_fresh used last ops : wf_hist used last ops -> fresh_trace used ops.
Proof.
  induction 1; cbn [fresh_trace fresh_op used_step]; auto.
Qed.

(* ------------------------------------------------------------------ the theorems *)
Definition verdicts_true (k:N) (vss:list (list (N*bool*N))) : Prop :=
  forall vs b cl, In vs vss -> In (k, b, cl) vs -> b = true.

Theorem model_meets_core cf m mc cc ops k :
  consistent mc cf -> fresh_trace [] ops -> core_prop k ->
  verdicts_true k (run_mon mc cc (init cf m) (mall0 cc) ops).
Proof.
  intros Hc Hfr Hk vs b cl Hvs Hin.
  apply (run_mon_core mc cc ops (init cf m) (mall0 cc) [] (R_init mc cf m Hc) Hfr vs k b cl Hvs Hin Hk).
Qed.

Theorem model_meets_C12 cf m mc cc ops :
  consistent mc cf -> well_formed_history ops -> verdicts_true 12 (run_mon mc cc (init cf m) (mall0 cc) ops).
Proof. intros Hc Hwf. apply model_meets_core; [exact Hc|eapply wf_fresh; exact Hwf|unfold core_prop; auto]. Qed.

Theorem model_meets_C17 cf m mc cc ops :
  consistent mc cf -> well_formed_history ops -> verdicts_true 17 (run_mon mc cc (init cf m) (mall0 cc) ops).
Proof. intros Hc Hwf. apply model_meets_core; [exact Hc|eapply wf_fresh; exact Hwf|unfold core_prop; auto]. Qed.

Theorem model_meets_C05 cf m mc cc ops :
  consistent mc cf -> well_formed_history ops -> verdicts_true 5 (run_mon mc cc (init cf m) (mall0 cc) ops).
Proof. intros Hc Hwf. apply model_meets_core; [exact Hc|eapply wf_fresh; exact Hwf|unfold core_prop; auto]. Qed.

Theorem model_meets_C11 cf m mc cc ops :
  consistent mc cf -> well_formed_history ops -> verdicts_true 11 (run_mon mc cc (init cf m) (mall0 cc) ops).
Proof. intros Hc Hwf. apply model_meets_core; [exact Hc|eapply wf_fresh; exact Hwf|unfold core_prop; auto]. Qed.

(* C06. With at least one transmission allowed (Rc >= 1 on unreliable transport; always so on reliable transport) the
   schedule invariant MInv carries the proof; with Rc = 0 on unreliable transport every Send fails and nothing is ever
   outstanding (DInv). *)
Theorem model_meets_C06_fresh cf m mc cc ops :
  consistent mc cf -> fresh_trace [] ops ->
  verdicts_true 6 (run_mon mc cc (init cf m) (mall0 cc) ops).
Proof.
  intros Hc Hfr vs b cl Hvs Hin. destruct (N.eq_dec (eff_rc cf) 0) as [Hz|Hnz].
  - apply (run_mon_degenerate mc cc ops (init cf m) (mall0 cc) [] (R_init mc cf m Hc)) with (vs := vs) (cl := cl); try assumption.
    unfold DInv, init; cbn [cfg T H]. auto.
  - assert (Hrc : 1 <= eff_rc cf) by lia.
    apply (run_mon_sched mc cc ops (init cf m) (mall0 cc) [] (R_init mc cf m Hc) (MInv_init cf m mstate0 Hrc) Hfr vs b cl Hvs Hin).
Qed.
Theorem model_meets_C06 cf m mc cc ops :
  consistent mc cf -> well_formed_history ops ->
  verdicts_true 6 (run_mon mc cc (init cf m) (mall0 cc) ops).
Proof. intros Hc Hwf. apply model_meets_C06_fresh; [exact Hc|eapply wf_fresh; exact Hwf]. Qed.

(* all five at once *)
Corollary model_meets_monitors cf m mc cc ops :
  consistent mc cf -> well_formed_history ops ->
  forall k, In k [5; 6; 11; 12; 17] -> verdicts_true k (run_mon mc cc (init cf m) (mall0 cc) ops).
Proof.
  intros Hc Hwf k Hk. cbn [In] in Hk. destruct Hk as [<-|[<-|[<-|[<-|[<-|[]]]]]].
  - apply model_meets_C05; assumption.
  - apply model_meets_C06; assumption.
  - apply model_meets_C11; assumption.
  - apply model_meets_C12; assumption.
  - apply model_meets_C17; assumption.
Qed.

(* ------------------------------------------------------------------ a concrete non-trivial history *)
Definition ex_cf : config := {| reliable := false; cf_rm := 16; cf_rc := 7; limit := 2; use_fp := true |}.
Definition ex_mc : mcfg := {| mc_reliable := false; mc_rm := 16; mc_rc := 7; mc_limit := 2 |}.
Definition ex_cc : ccfg := {| cc_mech := 1; cc_fp := true; cc_reliable := false; cc_rto := 500; cc_gran := 1 |}.
Definition ex_resp (cl:mclass) (id:N) (l:list attr) : msg := {| m_class := cl; m_method := 1; m_id := id; m_attrs := l |}.
Definition ex_history : list op :=
  [ Send 0 1 500 1 [App 100 1] true; Send 10 2 500 1 [] true; Send 20 3 500 1 [] true; Send 25 4 500 1 [] false;
    Tmo 400; Tmo 510; Tmo 511;
    Recv 600 true (ex_resp CSuccess 1 [AMI (KST 7); AFP true]);
    Recv 610 true (ex_resp CSuccess 1 [AMI (KST 0); AFP true]);
    Recv 620 true (ex_resp CSuccess 1 [AMI (KST 0); AFP true]);
    Recv 620 true (ex_resp CIndication 2 [AMI (KST 0); AFP true]);
    Recv 620 false (ex_resp CIndication 2 [AMI (KST 0); AFP true]);
    Recv 620 true (ex_resp CError 2 [AMI (KST 3); AFP true]);
    Indication 2 1 [] true; Tmo 2000; Tmo 100000;
    Send 100001 5 500 1 [] true; Tmo 100001; Tmo 100001; Tmo 200000 ].

Example ex_history_wf : well_formed_history ex_history.
Proof.
  unfold well_formed_history, ex_history.
  repeat (first [ apply wf_nil
                | apply wf_send; [cbn [In]; intros Hin; repeat (destruct Hin as [Hin|Hin]; [discriminate Hin|]); exact Hin | lia | lia | ]
                | apply wf_ind
                | apply wf_recv; [lia|]
                | apply wf_tmo; [lia|] ]).
Qed.
Example ex_consistent : consistent ex_mc ex_cf.
Proof. repeat split. Qed.
(* what the run looks like: replies and events of the model on this history (retransmissions, a refusal at the limit, a
   marker on a failed authentication, a delivery, late and undecodable packets, time-outs, protection-violated) *)
Example ex_history_nontrivial :
  map (fun vs => map (fun v => (fst (fst v), snd (fst v))) (filter (fun v => memN (fst (fst v)) [5; 6; 11; 12; 17]) vs))
      (run_mon ex_mc ex_cc (init ex_cf (MST {| st_agreed := None |})) (mall0 ex_cc) ex_history)
  = repeat [(5, true); (6, true); (11, true); (12, true); (17, true)] 20.
Proof. vm_compute. reflexivity. Qed.
Example ex_history_replies :
  map (fun o => oret_of (snd (fst o)))
      ((fix go (c:client) (ops:list op) := match ops with [] => [] | o :: r => let x := step c o in x :: go (fst (fst x)) r end)
         (init ex_cf (MST {| st_agreed := None |})) ex_history)
  = [OOk; OOk; OMaxOut; OMaxOut; OOk; OOk; OOk; ODiscarded; OOk; ODiscarded; OOk; OInternal; ODiscarded; OOk; OOk; OOk; OOk; OOk; OOk; OOk].
Proof. vm_compute. reflexivity. Qed.

(* the kinds of events of that run: (1,id) first transmission, (2,id) retransmission, (3,id) notification, (5,id) time-out,
   (6,id) protection-violated at the deadline, (8,id) delivery *)
Definition ev_kind (e:oev) : N * N :=
  match e with
  | EOut i true _ _ => (1, i) | EOut i false _ _ => (2, i) | ETmo i _ => (3, i) | ERetry' i => (4, i)
  | EFail i TimedOut => (5, i) | EFail i ProtectionViolated => (6, i) | EFail i DoNotRetry => (7, i) | ERecv _ i => (8, i)
  end.
Example ex_history_events :
  map (fun o => map ev_kind (map oev_of (snd o)))
      ((fix go (c:client) (ops:list op) := match ops with [] => [] | o :: r => let x := step c o in x :: go (fst (fst x)) r end)
         (init ex_cf (MST {| st_agreed := None |})) ex_history)
  = [[(1, 1); (3, 1)]; [(1, 2); (3, 1)]; []; []; [(3, 1)]; [(2, 2); (2, 1); (3, 1)]; [(3, 1)]; []; [(8, 1)]; []; [(8, 2)]; []; [];
     [(1, 2)]; [(2, 2); (3, 2)]; [(6, 2)]; [(1, 5); (3, 5)]; [(3, 5)]; [(3, 5)]; [(5, 5)]].
Proof. vm_compute. reflexivity. Qed.

(* the freshness hypothesis is needed: the monitors identify a request by its id, so a history that reuses the id of a
   finished request is judged false (C05, C11) although the model behaves as usual *)
Definition reuse_history : list op :=
  [Send 0 1 500 1 [] true; Recv 5 true (ex_resp CSuccess 1 [AMI (KST 0); AFP true]); Send 10 1 500 1 [] true; Tmo 20].
Example reuse_history_not_wf : ~ well_formed_history reuse_history.
Proof.
  unfold well_formed_history, reuse_history. intros Hwf.
  inversion Hwf; subst.
  match goal with Hx : wf_hist [1] _ _ |- _ => inversion Hx; subst end.
  match goal with Hx : wf_hist [1] _ (Send _ _ _ _ _ _ :: _) |- _ => inversion Hx; subst end.
  match goal with Hx : ~ In 1 [1] |- _ => apply Hx; left; reflexivity end.
Qed.
Example reuse_history_judged_false :
  map (fun vs => map (fun v => fst (fst v)) (filter (fun v => negb (snd (fst v))) vs))
      (run_mon ex_mc ex_cc (init ex_cf (MST {| st_agreed := None |})) (mall0 ex_cc) reuse_history)
  = [[]; []; [5; 11]; [5; 11]].
Proof. vm_compute. reflexivity. Qed.

Print Assumptions model_meets_C12.
Print Assumptions model_meets_C17.
Print Assumptions model_meets_C05.
Print Assumptions model_meets_C11.
Print Assumptions model_meets_C06.
Print Assumptions model_meets_C06_fresh.
Print Assumptions model_meets_core.
Print Assumptions model_meets_monitors.
Print Assumptions run_mon_judged.
Print Assumptions ex_history_wf.
