(* Histories whose intervals come from the exact estimator model hand the configured RTO while nothing is measured.

   Proofs/AgentMeets5.v proves that the client model meets Monitors.mon_C06_initial along every well-formed history UNDER the
   hypothesis history_hands_configured: the interval r of `Send now id r ..` is an input of the abstract model, and the
   hypothesis says that r = cc_rto whenever the C15 monitor state before the call holds no estimate (and is not poisoned).
   ocaml/driver.ml does not choose r freely: on unreliable transport it computes r := est_rto_for_send e now from the exact
   estimator model (Agent/RttExact.v) that it threads next to the client model (e := est_step e c op rep evs after every
   step). This file discharges the hypothesis for exactly those histories (est_driven).

   Route. Three facts are carried along the lockstep run (run_state of AgentMeets3 / AgentMeets4):
     KJ   every table entry whose send instant is still recorded (inst x = Some t0: not retransmitted, Karn) has a monitor
          record with s_ntx = 1 and s_t0 = t0: so whenever est_step feeds a sample, mon_C15 feeds one too or poisons
          (step_K; the coupling R of AgentMeets has no such field, it only relates the id sets);
     JP   rc_conf (e_calc e) = cc_rto, and while the monitor holds no estimate and is not poisoned the estimator's current
          RTO is the configured one (a monitor sample makes the premise false for good until the next reset, and a reset
          happens on both sides under the same rule);
     last rm_last (ma_rtt s) = e_last e, so that "more than 600 s since the previous request" is the same test on both
          sides. This one FAILS in the degenerate configuration Rc = 0 on unreliable transport: there set_timeout refreshes
          the estimator (est_step, RInternal branch) although the request is refused and the monitor sees no accepted
          request. In that configuration nothing is ever outstanding (DInv of AgentMeets), the monitor state stays
          rtt_mon0 for ever, and the estimator never gets a sample; the invariant J is the disjunction of the two regimes. *)
From Coq Require Import List NArith Lia Bool.
Import ListNotations.
From Rustun Require Import Agent.F32 Agent.Rto Agent.Model Agent.Monitors Agent.RttExact Proofs.RttProofs
  Proofs.AgentInv Proofs.AgentTrace Proofs.AgentSched Proofs.AgentMech Proofs.AgentMeets Proofs.AgentMeets2
  Proofs.AgentMeets3 Proofs.AgentMeets4 Proofs.AgentMeets5.
Open Scope N_scope.

(* ------------------------------------------------------------------ the estimator-driven run *)
(* every request sent on unreliable transport carries the interval the estimator model computes at that point; the estimator
   is threaded by est_step exactly as in ocaml/driver.ml (the client BEFORE the step, the reply and the events of the step).
   On reliable transport nothing is required (the driver has no estimator there). The configured RTO and the granularity are
   part of the estimator state (rc_conf, rc_gran), so they are not separate parameters. *)
Fixpoint est_driven (c:client) (e:est) (ops:list op) : Prop :=
  match ops with
  | [] => True
  | o :: rest =>
      let '(c', rep, evs) := step c o in
      (match o with
       | Send now _ r _ _ _ => reliable (cfg c) = false -> r = est_rto_for_send e now
       | _ => True end)
      /\ est_driven c' (est_step e c o rep evs) rest
  end.

(* the estimator state after a history *)
Fixpoint run_est (c:client) (e:est) (ops:list op) : est :=
  match ops with
  | [] => e
  | o :: rest => let '(c', rep, evs) := step c o in run_est c' (est_step e c o rep evs) rest
  end.

(* fills in the intervals: the history the driver actually runs, given the calls without their intervals *)
Fixpoint drive (c:client) (e:est) (ops:list op) : list op :=
  match ops with
  | [] => []
  | o :: rest =>
      let o' := match o with
                | Send now id r method app room =>
                    Send now id (if reliable (cfg c) then r else est_rto_for_send e now) method app room
                | _ => o end in
      let '(c', rep, evs) := step c o' in
      o' :: drive c' (est_step e c o' rep evs) rest
  end.

Lemma drive_is_est_driven : forall ops c e, est_driven c e (drive c e ops).
Proof.
  induction ops as [|o ops IH]; intros c e; cbn [drive]; [exact I|].
  set (o' := match o with Send now id r method app room => _ | _ => o end).
  destruct (step c o') as [[c' rep] evs] eqn:Hs. cbn [est_driven]. rewrite Hs. split; [|apply IH].
  unfold o'. destruct o as [now id r method app room| | |]; try exact I.
  intros Hrel. rewrite Hrel. reflexivity.
Qed.

(* ------------------------------------------------------------------ small facts *)
Lemma find_txn_lookup id t : find_txn id t = lookup id t.
Proof. induction t as [|[k v] r IH]; cbn [find_txn lookup]; [reflexivity|]. rewrite IH. reflexivity. Qed.

Lemma final_of_oev e : final_id (oev_of e) = final_of e.
Proof.
  destruct e as [id [|] p|id l|id|id r|m]; cbn [oev_of final_id final_of]; try reflexivity.
Qed.

Lemma monitor_step_rtt mc cc s op ob :
  ma_rtt (fst (monitor_step mc cc s op ob)) = fst (mon_C15 mc cc (ma_core s) (ma_rtt s) op ob).
Proof.
  unfold monitor_step. destruct (mon_C07 cc (ma_st s) (ms_marked (ma_core s)) op ob) as [st' v07].
  destruct (mon_C08 cc (ma_lt s) op ob) as [lt' v08]. destruct (mon_C15 mc cc (ma_core s) (ma_rtt s) op ob) as [rt' v15].
  reflexivity.
Qed.

Lemma est_send_rto_conf e now :
  rc_rto (e_calc e) = rc_conf (e_calc e) -> rc_rto (e_calc (est_send e now)) = rc_conf (e_calc e).
Proof.
  intros Hr. unfold est_send. destruct (e_last e) as [l|]; [destruct (600000000000 <? now - l)|];
    cbn [e_calc rtt_reset rc_rto]; auto.
Qed.

(* ------------------------------------------------------------------ KJ: recorded send instant <-> one transmission *)
Definition KJ (t:list (txid*txn)) (l:list sent) : Prop :=
  forall id x t0, lookup id t = Some x -> inst x = Some t0 ->
    exists sx, fs id l = Some sx /\ s_ntx sx = 1 /\ s_t0 sx = t0.

Lemma KJ_nil l : KJ [] l.
Proof. intros id x t0 Hl. discriminate Hl. Qed.

Lemma tmo_one_KJ now t h mk ev id l :
  KJ t l ->
  let '(t', _, _, ev') := tmo_one now (t, h, mk, ev) id in
  exists ev1, ev' = ev ++ ev1 /\ KJ t' (fold_left bumpf (map oev_of ev1) l).
Proof.
  intros HK. unfold tmo_one. destruct (lookup id t) as [x|] eqn:Hl.
  2:{ exists []. rewrite app_nil_r. split; [reflexivity|exact HK]. }
  destruct (next_rto (tm x) now) as [[d|] m'].
  - exists [Out id false (pkt x)]. split; [reflexivity|]. cbn [map oev_of fold_left bumpf].
    intros j y t0 Hj Hi. destruct (N.eq_dec j id) as [->|Hne].
    + rewrite lookup_update_eq in Hj by congruence. inversion Hj; subst y. cbn [inst] in Hi. discriminate Hi.
    + rewrite lookup_update_neq in Hj by exact Hne. destruct (HK j y t0 Hj Hi) as (sx & A & B). exists sx.
      rewrite fs_bump_neq by (intros E; apply Hne; symmetry; exact E). auto.
  - exists [Failed id (if mem id mk then ProtectionViolated else TimedOut)]. split; [reflexivity|].
    cbn [map oev_of fold_left bumpf].
    intros j y t0 Hj Hi. destruct (N.eq_dec j id) as [->|Hne].
    + rewrite lookup_remove_eq in Hj. discriminate Hj.
    + rewrite lookup_remove_neq in Hj by exact Hne. exact (HK j y t0 Hj Hi).
Qed.

Lemma tmo_fold_KJ now : forall pending t h mk ev l,
  KJ t l ->
  let '(t', _, _, ev') := fold_left (tmo_one now) pending (t, h, mk, ev) in
  exists ev1, ev' = ev ++ ev1 /\ KJ t' (fold_left bumpf (map oev_of ev1) l).
Proof.
  induction pending as [|id pending IH]; intros t h mk ev l HK; cbn [fold_left].
  - exists []. rewrite app_nil_r. split; [reflexivity|exact HK].
  - pose proof (tmo_one_KJ now t h mk ev id l HK) as H1.
    destruct (tmo_one now (t, h, mk, ev) id) as [[[t1 h1] mk1] ev1]. destruct H1 as (e1 & -> & HK1).
    specialize (IH t1 h1 mk1 (ev ++ e1) _ HK1).
    destruct (fold_left (tmo_one now) pending (t1, h1, mk1, ev ++ e1)) as [[[t' h'] mk'] ev'].
    destruct IH as (e2 & -> & HK'). exists (e1 ++ e2). rewrite <- app_assoc, map_app, fold_left_app.
    split; [reflexivity|exact HK'].
Qed.

Theorem step_K c s o c' rep evs :
  KJ (T c) (ms_sent s) -> step c o = (c', rep, evs) ->
  KJ (T c') (ms_sent (next_state s (mop_of o rep) (obs_of c c' o rep evs))).
Proof.
  intros HK Hs. rewrite next_state_sent. cbn [obs_of ob_events ob_ret].
  destruct o as [now id r method app room|id method app room|now d w|now].
  - rewrite (fold_bump_noretx evs _ (step_no_retx _ _ _ _ _ Hs I)). cbn [mop_of].
    destruct (step_send_cases c now id r method app room) as [(rep0 & He & Hn & _)|(a & d & m1 & _ & _ & _ & He)];
      rewrite He in Hs; inversion Hs; subst; clear Hs.
    + assert (Hs1 : sent1_of s (MSend now id r method app) (oret_of rep) = ms_sent s).
      { destruct rep; try reflexivity. exfalso. eapply Hn. reflexivity. }
      rewrite Hs1. exact HK.
    + cbn [oret_of sent1_of]. unfold with_TH; cbn [T].
      intros j y t0 Hj Hi. cbn [lookup] in Hj. unfold fs. cbn [find s_id].
      destruct (N.eqb_spec id j) as [E|E].
      * inversion Hj; subst y. cbn [inst] in Hi. inversion Hi; subst. eexists. split; [reflexivity|]. split; reflexivity.
      * exact (HK j y t0 Hj Hi).
  - rewrite (fold_bump_noretx evs _ (step_no_retx _ _ _ _ _ Hs I)). cbn [mop_of sent1_of].
    replace c' with (fst (fst (step c (Indication id method app room)))) by (rewrite Hs; reflexivity).
    rewrite indication_state. exact HK.
  - rewrite (fold_bump_noretx evs _ (step_no_retx _ _ _ _ _ Hs I)). cbn [mop_of sent1_of].
    destruct (step_recv_cases c now d w) as [(rep0 & He & _)|[(mk & He & _)|[(_ & mech' & mk & He)|(_ & _ & mech' & mk & ev & He & _)]]];
      rewrite He in Hs; inversion Hs; subst; clear Hs; try exact HK.
    unfold with_TH, with_mech; cbn [T]. intros j y t0 Hj Hi.
    destruct (N.eq_dec j (m_id w)) as [->|Hne]; [rewrite lookup_remove_eq in Hj; discriminate Hj|].
    rewrite lookup_remove_neq in Hj by exact Hne. exact (HK j y t0 Hj Hi).
  - cbn [mop_of sent1_of]. cbn [step] in Hs.
    pose proof (tmo_fold_KJ now (map h_id (filter (fun e => h_exp e <=? now) (H c))) (T c)
                  (filter (fun e => negb (h_exp e <=? now)) (H c)) (markers c) [] (ms_sent s) HK) as Hf'.
    destruct (fold_left (tmo_one now) _ _) as [[[t' h'] mk'] ev].
    destruct Hf' as (ev1 & Hev & HK'). cbn [List.app] in Hev. subst ev1.
    inversion Hs; subst; clear Hs. cbn [T].
    rewrite map_app, fold_left_app.
    assert (Hn : forall l, fold_left bumpf (map oev_of (notif h' now)) l = l).
    { intros l. apply fold_bump_noretx. intros i p Hin. apply notif_ids in Hin as (m & _ & Hin). discriminate. }
    rewrite Hn. exact HK'.
Qed.

(* ------------------------------------------------------------------ the two folds of a received buffer *)
Definition monf (core:mstate) (now:N) (st:rtt_mon) (i:N) : rtt_mon :=
  match find_sent i core with
  | Some x => if s_ntx x =? 1
              then (match rm_est st with
                    | Some (0, _) => {| rm_est := rm_est st; rm_last := rm_last st; rm_poisoned := true |}
                    | _ => {| rm_est := rfc6298_update (rm_est st) (fx (now - s_t0 x)); rm_last := rm_last st;
                              rm_poisoned := rm_poisoned st |}
                    end)
              else st
  | None => st end.
Lemma mon_C15_recv mc cc core s now d m o : cc_reliable cc = false ->
  mon_C15 mc cc core s (MRecv now d m) o = (fold_left (monf core now) (Monitors.finals (ob_events o)) s, true).
Proof. intros Hrel. unfold mon_C15. rewrite Hrel. reflexivity. Qed.

Definition estf (t:list (txid*txn)) (now:N) (st:est) (e:event) : est :=
  match final_of e with
  | Some id =>
      match find_txn id t with
      | Some x => match inst x with
                  | Some t0 => {| e_calc := rtt_update (e_calc st) (now - t0); e_last := e_last st |}
                  | None => st end
      | None => st
      end
  | None => st
  end.
Lemma est_step_recv e c now d w rep evs : est_step e c (Recv now d w) rep evs = fold_left (estf (T c) now) evs e.
Proof. reflexivity. Qed.

Definition JP (cc:ccfg) (rm:rtt_mon) (e:est) : Prop :=
  rc_conf (e_calc e) = cc_rto cc /\
  (rm_poisoned rm = false -> rm_est rm = None -> rc_rto (e_calc e) = rc_conf (e_calc e)).

(* a sample of the monitor leaves it with an estimate or poisoned: the premise of JP is then false *)
Lemma monf_weak cc core now rm e i : JP cc rm e -> JP cc (monf core now rm i) e.
Proof.
  intros [A B]. split; [exact A|]. unfold monf. destruct (find_sent i core) as [x|]; [|exact B].
  destruct (s_ntx x =? 1); [|exact B].
  destruct (rm_est rm) as [[[|p] v]|]; cbn [rm_poisoned rm_est rfc6298_update]; intros Hp Hn; discriminate.
Qed.

(* THE key step: whenever est_step feeds a sample, mon_C15 feeds one too or poisons *)
Lemma JP_elem cc t core now rm e ev : KJ t (ms_sent core) -> JP cc rm e ->
  JP cc (match final_id (oev_of ev) with Some i => monf core now rm i | None => rm end) (estf t now e ev).
Proof.
  intros HK HJ. unfold estf. rewrite final_of_oev. destruct (final_of ev) as [i|]; [|exact HJ].
  rewrite find_txn_lookup. destruct (lookup i t) as [x|] eqn:Hl; [|apply monf_weak; exact HJ].
  destruct (inst x) as [t0|] eqn:Hi; [|apply monf_weak; exact HJ].
  destruct (HK i x t0 Hl Hi) as (sx & Hfs & Hn & _). destruct HJ as [A B].
  assert (Hfs' : find_sent i core = Some sx) by exact Hfs.
  split; cbn [e_calc]; [rewrite configured_is_kept_update; exact A|].
  unfold monf. rewrite Hfs', Hn, N.eqb_refl.
  destruct (rm_est rm) as [[[|p] v]|]; cbn [rm_poisoned rm_est rfc6298_update]; intros Hp Hn0; discriminate.
Qed.

Lemma recv_fold_JP cc t core now : KJ t (ms_sent core) -> forall evs rm e, JP cc rm e ->
  JP cc (fold_left (monf core now) (Monitors.finals (map oev_of evs)) rm) (fold_left (estf t now) evs e).
Proof.
  intros HK. induction evs as [|ev evs IH]; intros rm e HJ; cbn [map Monitors.finals fold_left]; [exact HJ|].
  pose proof (JP_elem cc t core now rm e ev HK HJ) as H1.
  destruct (final_id (oev_of ev)) as [i|]; cbn [fold_left]; apply IH; exact H1.
Qed.

Lemma monf_last core now rm i : rm_last (monf core now rm i) = rm_last rm.
Proof.
  unfold monf. destruct (find_sent i core) as [x|]; [|reflexivity]. destruct (s_ntx x =? 1); [|reflexivity].
  destruct (rm_est rm) as [[[|p] v]|]; reflexivity.
Qed.
Lemma fold_monf_last core now : forall l rm, rm_last (fold_left (monf core now) l rm) = rm_last rm.
Proof. induction l as [|i l IH]; intros rm; cbn [fold_left]; [reflexivity|]. rewrite IH. apply monf_last. Qed.
Lemma estf_last t now e ev : e_last (estf t now e ev) = e_last e.
Proof.
  unfold estf. destruct (final_of ev) as [i|]; [|reflexivity]. destruct (find_txn i t) as [x|]; [|reflexivity].
  destruct (inst x); reflexivity.
Qed.
Lemma fold_estf_last t now : forall evs e, e_last (fold_left (estf t now) evs e) = e_last e.
Proof. induction evs as [|ev evs IH]; intros e; cbn [fold_left]; [reflexivity|]. rewrite IH. apply estf_last. Qed.

(* ------------------------------------------------------------------ the coupling invariant and its step *)
Definition J (cc:ccfg) (c:client) (rm:rtt_mon) (e:est) : Prop :=
  JP cc rm e /\ ((1 <= eff_rc (cfg c) /\ rm_last rm = e_last e) \/ (DInv c /\ rm = rtt_mon0)).

Theorem step_J mc cc c core rm e o c' rep evs :
  KJ (T c) (ms_sent core) -> cc_reliable cc = false -> J cc c rm e -> step c o = (c', rep, evs) ->
  J cc c' (fst (mon_C15 mc cc core rm (mop_of o rep) (obs_of c c' o rep evs))) (est_step e c o rep evs).
Proof.
  intros HK Hrel [HP Hd] Hs.
  assert (Hc' : cfg c' = cfg c) by (replace c' with (fst (fst (step c o))) by (rewrite Hs; reflexivity); apply cfg_step).
  destruct o as [now id r method app room|id method app room|now d w|now].
  - (* Send *)
    destruct (step_send_cases c now id r method app room) as [(rep0 & He & Hn & _)|(a & d & m1 & _ & _ & Hnr & He)];
      rewrite He in Hs; injection Hs as <- <- <-.
    + (* refused: the monitor does not move *)
      assert (Hm : mon_C15 mc cc core rm (MSend now id r method app) (obs_of c c (Send now id r method app room) rep0 []) = (rm, true)).
      { unfold mon_C15. rewrite Hrel. cbn [obs_of ob_ret]. destruct rep0; cbn [oret_of]; try reflexivity.
        exfalso. eapply Hn. reflexivity. }
      cbn [mop_of]. rewrite Hm. cbn [fst est_step].
      destruct rep0 as [x| | | | |]; try (split; assumption); [exfalso; eapply Hn; reflexivity|].
      destruct (negb (limit (cfg c) <=? N.of_nat (length (T c))) && room
                && match prepare c true app with inl (Some _) => true | _ => false end) eqn:Hcond; [|split; assumption].
      destruct Hd as [[Hrc Hl]|[HD ->]].
      * (* with Rc >= 1 a request that got as far as set_timeout is accepted *)
        exfalso. apply andb_true_iff in Hcond as [Hc1 Hc3]. apply andb_true_iff in Hc1 as [Hc1 Hc2].
        apply negb_true_iff in Hc1. subst room.
        destruct (prepare c true app) as [[a|]|er] eqn:Hp; try discriminate Hc3.
        cbn [step] in He. rewrite Hc1, Hp in He. cbn [negb] in He.
        destruct (new_mgr_fresh c r) as [Hlat Hcalc].
        destruct (next_rto_first r (eff_rm (cfg c)) (eff_rc (cfg c)) Hrc now (new_mgr c r) Hlat Hcalc) as (m' & Hn' & _).
        rewrite Hn' in He. discriminate He.
      * (* Rc = 0: the estimator is refreshed, but it has never had a sample *)
        destruct HP as [A B]. split; [|right; split; [exact HD|reflexivity]].
        split; [rewrite configured_is_kept_send; exact A|]. intros Hp Hn0.
        rewrite configured_is_kept_send. apply est_send_rto_conf. exact (B Hp Hn0).
    + (* accepted *)
      cbn [mop_of est_step]. unfold mon_C15. rewrite Hrel. cbn [obs_of ob_ret oret_of fst].
      destruct Hd as [[Hrc Hl]|[HD _]].
      2:{ exfalso. destruct (step_DInv c _ _ _ _ HD He) as [(_ & HT & _) _]. unfold with_TH in HT. cbn [T] in HT. discriminate HT. }
      destruct HP as [A B]. split.
      * split; [rewrite configured_is_kept_send; exact A|]. cbn [rm_poisoned rm_est]. unfold est_send. rewrite <- Hl.
        destruct (rm_last rm) as [l|]; [destruct (600000000000 <? now - l)|]; cbn [e_calc rtt_reset rc_rto rc_conf];
          intros Hp Hn0; [reflexivity|exact (B Hp Hn0)|exact (B Hp Hn0)].
      * left. split; [exact Hrc|reflexivity].
  - (* Indication *)
    assert (Hcc : c' = c)
      by (replace c' with (fst (fst (step c (Indication id method app room)))) by (rewrite Hs; reflexivity); apply indication_state).
    subst c'. cbn [mop_of est_step]. unfold mon_C15. rewrite Hrel. cbn [fst]. split; assumption.
  - (* Recv *)
    cbn [mop_of]. rewrite (mon_C15_recv mc cc core rm now d w _ Hrel). cbn [fst obs_of ob_events]. rewrite est_step_recv.
    split; [apply recv_fold_JP; assumption|].
    destruct Hd as [[Hrc Hl]|[HD ->]].
    + left. rewrite Hc'. split; [exact Hrc|]. rewrite fold_monf_last, fold_estf_last. exact Hl.
    + right. split; [exact (proj1 (step_DInv c _ _ _ _ HD Hs))|].
      destruct HD as (_ & HT & _).
      destruct (step_recv_cases c now d w) as [(rep0 & He & _)|[(mk & He & _)|[(Hci & mech' & mk & He)|(_ & (x & Hlk) & _)]]];
        try (rewrite He in Hs; inversion Hs; subst; reflexivity).
      * rewrite He in Hs; inversion Hs; subst. cbn [map oev_of Monitors.finals final_id wmsg m_class]. rewrite Hci. reflexivity.
      * rewrite HT in Hlk. discriminate Hlk.
  - (* Tmo *)
    cbn [mop_of est_step]. unfold mon_C15. rewrite Hrel. cbn [fst]. split; [exact HP|].
    destruct Hd as [[Hrc Hl]|[HD ->]].
    + left. rewrite Hc'. split; assumption.
    + right. split; [exact (proj1 (step_DInv c _ _ _ _ HD Hs))|reflexivity].
Qed.

(* what the invariant gives at a request *)
Lemma J_hands cc c rm e now id r method app room :
  J cc c rm e -> r = est_rto_for_send e now -> hands_configured cc rm (Send now id r method app room).
Proof.
  intros [[A B] Hd] ->. cbn [hands_configured]. unfold est_before, est_rto_for_send, est_send.
  destruct Hd as [[_ Hl]|[_ ->]].
  - rewrite <- Hl. destruct (rm_last rm) as [l|]; [destruct (600000000000 <? now - l)|]; cbn [e_calc rtt_reset rc_rto];
      intros Hb Hp; [exact A|rewrite (B Hp Hb); exact A|rewrite (B Hp Hb); exact A].
  - assert (Hr : rc_rto (e_calc e) = rc_conf (e_calc e)) by (apply B; reflexivity).
    intros _ _. destruct (e_last e) as [l|]; [destruct (600000000000 <? now - l)|]; cbn [e_calc rtt_reset rc_rto];
      [exact A|rewrite Hr; exact A|rewrite Hr; exact A].
Qed.

Lemma J_init cc cf m : J cc (init cf m) (ma_rtt (mall0 cc)) (est0 (cc_rto cc) (cc_gran cc)).
Proof.
  split; [split; [reflexivity|intros _ _; reflexivity]|].
  destruct (N.eq_dec (eff_rc cf) 0) as [Hz|Hnz].
  - right. split; [|reflexivity]. unfold DInv. cbn [init cfg T H]. auto.
  - left. cbn [init cfg]. split; [lia|reflexivity].
Qed.

(* ------------------------------------------------------------------ the lockstep run *)
Lemma run_hands mc cc : forall ops c s e used,
  R mc c (ma_core s) used -> CInv cc c s -> KJ (T c) (ms_sent (ma_core s)) -> cc_reliable cc = false ->
  J cc c (ma_rtt s) e -> fresh_trace used ops -> est_driven c e ops ->
  history_hands_configured mc cc c s ops.
Proof.
  induction ops as [|o ops IH]; intros c s e used HR HC HK Hrel HJ Hfr Hed;
    cbn [history_hands_configured est_driven fresh_trace] in *; [exact I|].
  destruct Hfr as [Hfo Hfr].
  destruct (step c o) as [[c' rep] evs] eqn:Hs.
  destruct Hed as [Hh Hed].
  pose proof (monitor_step_core mc cc s (mop_of o rep) (obs_of c c' o rep evs)) as Hcore.
  pose proof (monitor_step_rtt mc cc s (mop_of o rep) (obs_of c c' o rep evs)) as Hrtt.
  pose proof (step_CInv mc cc c s used o c' rep evs HR HC Hs) as HC'.
  destruct (monitor_step mc cc s (mop_of o rep) (obs_of c c' o rep evs)) as [s' vs0]. cbn [fst snd] in *.
  split.
  - destruct o as [now id r method app room| | |]; try exact I.
    apply (J_hands cc c (ma_rtt s) e); [exact HJ|]. apply Hh. rewrite <- (CI_rel _ _ _ HC). exact Hrel.
  - apply (IH c' s' (est_step e c o rep evs) (used_step used o)).
    + rewrite Hcore. exact (step_R mc c (ma_core s) used o c' rep evs HR Hfo Hs).
    + exact HC'.
    + rewrite Hcore. exact (step_K c (ma_core s) o c' rep evs HK Hs).
    + exact Hrel.
    + rewrite Hrtt. exact (step_J mc cc c (ma_core s) (ma_rtt s) e o c' rep evs HK Hrel HJ Hs).
    + exact Hfr.
    + exact Hed.
Qed.

(* the invariants reach every prefix (the companion of AgentMeets4.run_state_inv) *)
Lemma run_state_J mc cc : forall a b c s e used,
  R mc c (ma_core s) used -> CInv cc c s -> KJ (T c) (ms_sent (ma_core s)) -> cc_reliable cc = false ->
  J cc c (ma_rtt s) e -> fresh_trace used (a ++ b) -> est_driven c e (a ++ b) ->
  J cc (fst (run_state mc cc c s a)) (ma_rtt (snd (run_state mc cc c s a))) (run_est c e a)
  /\ est_driven (fst (run_state mc cc c s a)) (run_est c e a) b.
Proof.
  induction a as [|o a IH]; intros b c s e used HR HC HK Hrel HJ Hfr Hed;
    cbn [List.app run_state run_est est_driven fresh_trace fst snd] in *; [split; assumption|].
  destruct Hfr as [Hfo Hfr].
  destruct (step c o) as [[c' rep] evs] eqn:Hs.
  destruct Hed as [_ Hed].
  pose proof (monitor_step_core mc cc s (mop_of o rep) (obs_of c c' o rep evs)) as Hcore.
  pose proof (monitor_step_rtt mc cc s (mop_of o rep) (obs_of c c' o rep evs)) as Hrtt.
  pose proof (step_CInv mc cc c s used o c' rep evs HR HC Hs) as HC'.
  apply (IH b c' _ (est_step e c o rep evs) (used_step used o)).
  - rewrite Hcore. exact (step_R mc c (ma_core s) used o c' rep evs HR Hfo Hs).
  - exact HC'.
  - rewrite Hcore. exact (step_K c (ma_core s) o c' rep evs HK Hs).
  - exact Hrel.
  - rewrite Hrtt. exact (step_J mc cc c (ma_core s) (ma_rtt s) e o c' rep evs HK Hrel HJ Hs).
  - exact Hfr.
  - exact Hed.
Qed.

(* ------------------------------------------------------------------ the theorems *)
Theorem est_driven_hands_configured : forall (cf:config) (m:mech) (mc:mcfg) (cc:ccfg) (ops:list op),
  consistent mc cf -> consistent_cc cc cf m -> well_formed_history ops -> cc_reliable cc = false ->
  est_driven (init cf m) (est0 (cc_rto cc) (cc_gran cc)) ops ->
  history_hands_configured mc cc (init cf m) (mall0 cc) ops.
Proof.
  intros cf m mc cc ops Hc Hcc Hwf Hrel Hed.
  exact (run_hands mc cc ops (init cf m) (mall0 cc) (est0 (cc_rto cc) (cc_gran cc)) []
           (R_init mc cf m Hc) (CInv_init cc cf m Hcc) (KJ_nil _) Hrel (J_init cc cf m) (wf_fresh _ _ _ Hwf) Hed).
Qed.

(* no further hypothesis: every recorded verdict of mon_C06_initial along an estimator-driven history is true *)
Theorem model_meets_C06_initial_est_driven : forall (cf:config) (m:mech) (mc:mcfg) (cc:ccfg) (ops:list op),
  consistent mc cf -> consistent_cc cc cf m -> well_formed_history ops ->
  est_driven (init cf m) (est0 (cc_rto cc) (cc_gran cc)) ops ->
  initial_true (run_mon_initial mc cc (init cf m) (mall0 cc) ops).
Proof.
  intros cf m mc cc ops Hc Hcc Hwf Hed.
  apply (model_meets_C06_initial_run cf m mc cc ops Hc Hcc Hwf).
  intros Hrel. exact (est_driven_hands_configured cf m mc cc ops Hc Hcc Hwf Hrel Hed).
Qed.

(* the per-step form, on the states run_state reaches (the form of AgentMeets5.model_meets_C06_initial) *)
Theorem model_meets_C06_initial_est_driven_step : forall (cf:config) (m:mech) (mc:mcfg) (cc:ccfg) (ops:list op),
  consistent mc cf -> consistent_cc cc cf m -> well_formed_history ops ->
  est_driven (init cf m) (est0 (cc_rto cc) (cc_gran cc)) ops ->
  forall a o b, ops = a ++ o :: b ->
    let c := fst (run_state mc cc (init cf m) (mall0 cc) a) in
    let s := snd (run_state mc cc (init cf m) (mall0 cc) a) in
    let '(c', rep, evs) := step c o in
    mon_C06_initial mc cc (ma_rtt s) (mop_of o rep) (obs_of c c' o rep evs) = true.
Proof.
  intros cf m mc cc ops Hc Hcc Hwf Hed a o b Heq.
  apply (model_meets_C06_initial cf m mc cc ops Hc Hcc Hwf a o b Heq).
  intros Hrel. subst ops.
  destruct (run_state_J mc cc a (o :: b) (init cf m) (mall0 cc) (est0 (cc_rto cc) (cc_gran cc)) []
              (R_init mc cf m Hc) (CInv_init cc cf m Hcc) (KJ_nil _) Hrel (J_init cc cf m) (wf_fresh _ _ _ Hwf) Hed) as [HJ Hed'].
  destruct (run_state_inv mc cc a (o :: b) (init cf m) (mall0 cc) [] (R_init mc cf m Hc) (CInv_init cc cf m Hcc)
              (wf_fresh _ _ _ Hwf)) as (used' & _ & HC & _).
  cbn [est_driven] in Hed'.
  destruct (step (fst (run_state mc cc (init cf m) (mall0 cc) a)) o) as [[c' rep] evs].
  destruct Hed' as [Hh _].
  destruct o as [now id r method app room| | |]; try exact I.
  apply (J_hands cc _ _ _ now id r method app room HJ). apply Hh. rewrite <- (CI_rel _ _ _ HC). exact Hrel.
Qed.

(* ------------------------------------------------------------------ non-vacuity *)
(* the short-term client of AgentMeets5 on unreliable transport (configured RTO 500 ns, granularity 1 ns): a request, its
   response after 30 ms (a sample), a second request 10 ms later, a third one 700 s after that. The intervals are filled
   in by the estimator model (drive): 500 (configured), 90,000,000 (learned: 30 ms + 4 * 15 ms), 500 again (stale). *)
Definition ed_calls : list op :=
  [ Send 0 1 0 1 [] true;
    Recv 30000000 true (ex_resp CSuccess 1 [AMI (KST 0); AFP true]);
    Send 40000000 2 0 1 [] true;
    Send 700040000000 3 0 1 [] true ].
Definition ed_history : list op :=
  [ Send 0 1 500 1 [] true;
    Recv 30000000 true (ex_resp CSuccess 1 [AMI (KST 0); AFP true]);
    Send 40000000 2 90000000 1 [] true;
    Send 700040000000 3 500 1 [] true ].
Example ed_history_is_driven :
  drive (init (st_cf false) st_m0) (est0 (cc_rto (st_cc false)) (cc_gran (st_cc false))) ed_calls = ed_history.
Proof. vm_compute. reflexivity. Qed.
Example ed_history_est_driven :
  est_driven (init (st_cf false) st_m0) (est0 (cc_rto (st_cc false)) (cc_gran (st_cc false))) ed_history.
Proof. rewrite <- ed_history_is_driven. apply drive_is_est_driven. Qed.
Example ed_history_wf : well_formed_history ed_history.
Proof.
  unfold well_formed_history, ed_history.
  repeat (first [ apply wf_nil
                | apply wf_send; [cbn [In]; intros Hin; repeat (destruct Hin as [Hin|Hin]; [discriminate Hin|]); exact Hin | lia | lia | ]
                | apply wf_ind
                | apply wf_recv; [lia|]
                | apply wf_tmo; [lia|] ]).
Qed.
(* the first and the third request are sent while the monitor holds no estimate (fresh / stale): the clause demands the
   configured RTO there and gets it; the second is sent with the learned interval, which the clause does not constrain *)
Example ed_history_initial :
  map (fun x => (iv_fresh x, iv_initial x))
      (run_mon_initial (st_mc false) (st_cc false) (init (st_cf false) st_m0) (mall0 (st_cc false)) ed_history)
  = [(true, true); (false, true); (false, true); (true, true)].
Proof. vm_compute. reflexivity. Qed.
Example ed_history_meets : initial_true (run_mon_initial (st_mc false) (st_cc false) (init (st_cf false) st_m0) (mall0 (st_cc false)) ed_history).
Proof.
  exact (model_meets_C06_initial_est_driven (st_cf false) st_m0 (st_mc false) (st_cc false) ed_history
           (proj1 (st_consistent false)) (proj2 (st_consistent false)) ed_history_wf ed_history_est_driven).
Qed.
(* the estimator did take the sample (SRTT = 30 ms), and the monitor too *)
Example ed_history_sampled :
  (rc_srtt (e_calc (run_est (init (st_cf false) st_m0) (est0 500 1) [Send 0 1 500 1 [] true; Recv 30000000 true (ex_resp CSuccess 1 [AMI (KST 0); AFP true])])),
   rm_est (ma_rtt (snd (run_state (st_mc false) (st_cc false) (init (st_cf false) st_m0) (mall0 (st_cc false))
                          [Send 0 1 500 1 [] true; Recv 30000000 true (ex_resp CSuccess 1 [AMI (KST 0); AFP true])]))))
  = (30000000, Some (fx 30000000, fx 15000000)).
Proof. vm_compute. reflexivity. Qed.
(* est_driven is a real restriction: the same calls with 700 handed to the fresh client are not estimator-driven (and are
   rejected by the clause: AgentMeets5.initial_needs_hypothesis) *)
Example not_est_driven :
  ~ est_driven (init (st_cf false) st_m0) (est0 (cc_rto (st_cc false)) (cc_gran (st_cc false))) [Send 0 1 700 1 [] true].
Proof. cbn [est_driven]. destruct (step _ _) as [[c' rep] evs]. intros [Hh _]. specialize (Hh eq_refl). vm_compute in Hh. discriminate Hh. Qed.
(* the degenerate configuration Rc = 0: every request is refused with an internal error AFTER set_timeout refreshed the
   estimator, so the estimator's last-request instant runs ahead of the monitor's (which never sees an accepted request);
   the intervals handed are the configured RTO all the same *)
Definition rc0_cf : config := {| reliable := false; cf_rm := 16; cf_rc := 0; limit := 4; use_fp := true |}.
Example rc0_last_differs :
  let ops := drive (init rc0_cf st_m0) (est0 500 1) [Send 0 1 0 1 [] true; Send 700000000000 2 0 1 [] true] in
  (ops, e_last (run_est (init rc0_cf st_m0) (est0 500 1) ops))
  = ([Send 0 1 500 1 [] true; Send 700000000000 2 500 1 [] true], Some 700000000000).
Proof. vm_compute. reflexivity. Qed.

Print Assumptions est_driven_hands_configured.
Print Assumptions model_meets_C06_initial_est_driven.
Print Assumptions model_meets_C06_initial_est_driven_step.
