(* The client model satisfies the monitor mon_C08_retry (C08, the IF direction: "after the server's 401 challenge the
   application is told to retry ... a 438 reply switches to the new nonce") on every step of every well-formed history.

   Agent/Monitors.v has the clause `plain_challenge` / `mon_C08_retry`, which ocaml/driver.ml runs on every observed call of
   the IMPLEMENTATION with the monitor states BEFORE the call (`mon_C08_retry cc st.ma_core st.ma_lt mo o`): a plain
   challenge (a decodable error response to a request the schedule monitor holds as outstanding, with 401 + REALM + NONCE, or
   438 + NONCE once the long-term monitor has seen an accepted challenge, no integrity attribute, ...) must produce the
   retry notification for that request. Proofs/AgentRetry.v proves the single-step fact about the MODEL
   (plain_challenge_is_retried), with the two flags read off the model's own state (`lt_pr` is Some, the id is in the
   transaction table). Here the monitor, in exactly the form the driver runs it, is run in lockstep with the model through
   the observation `obs_of` of Proofs/AgentMeets.v (the machinery run_state / run_mon_lt of Proofs/AgentMeets3.v) and proved
   to answer `true` at every step, for every configuration and credential mechanism.

   Route. The coupling invariants carried along the run, R (AgentMeets) and CInv / LInv (AgentMeets2), give
     (1) memN id (live (ma_core s)) = true  ->  lookup id (T c) is Some       (R_live, AgentInv.lookup_in)
     (2) lm_challenged (ma_lt s) = true      ->  lt_pr of the mechanism is Some (LInv: lt_pr = None forces challenged = false)
     (3) cc_fp cc = use_fp (cfg c); cc_mech cc = 4 exactly for MLT              (CI_fp, CI_mech)
   plain_challenge is monotone in its `challenged` and `outstanding` flags (plain_challenge_mono), so the monitor's premise
   implies the premise of plain_challenge_is_retried, whose conclusion `evs = [Retry (m_id w)]` is rendered by obs_of as
   `[ERetry' (m_id w)]`. None of this needs wf_apps. *)
From Coq Require Import List NArith Lia Bool.
Import ListNotations.
From Rustun Require Import Agent.Rto Agent.Model Agent.Monitors Proofs.AgentInv Proofs.AgentTrace Proofs.AgentSched
  Proofs.AgentMech Proofs.AgentMeets Proofs.AgentMeets2 Proofs.AgentMeets3 Proofs.AgentRetry.
Open Scope N_scope.

(* ------------------------------------------------------------------ plain_challenge is monotone in its two state flags *)
Lemma plain_challenge_mono fp ch ch' out out' dec m :
  (ch = true -> ch' = true) -> (out = true -> out' = true) ->
  plain_challenge fp ch out dec m = true -> plain_challenge fp ch' out' dec m = true.
Proof.
  intros Hch Hout. unfold plain_challenge. cbv zeta.
  set (P := rfc_filter (m_attrs m)).
  intros H.
  apply andb_true_iff in H as [H Hcode]. apply andb_true_iff in H as [H Halg].
  apply andb_true_iff in H as [H Hfp]. apply andb_true_iff in H as [H Hint].
  apply andb_true_iff in H as [H Hcls]. apply andb_true_iff in H as [Hdec Ho].
  rewrite Hdec, (Hout Ho), Hcls, Hint, Hfp, Halg. cbn [andb].
  destruct (get_code P) as [code|]; [|discriminate Hcode].
  destruct (N.eqb_spec code 401) as [->|H401]; [exact Hcode|].
  destruct (N.eqb_spec code 438) as [->|H438]; [exact (Hch Hcode)|].
  exfalso. destruct code as [|q]; [discriminate|].
  repeat (destruct q as [q|q|]; try discriminate); congruence.
Qed.

Lemma plain_challenge_dec fp ch out dec m : plain_challenge fp ch out dec m = true -> dec = true.
Proof.
  unfold plain_challenge. cbv zeta. intros H.
  repeat (apply andb_true_iff in H as [H _]). exact H.
Qed.

(* ------------------------------------------------------------------ the three facts the invariants give *)
(* (1) what the schedule monitor holds as outstanding is in the model's transaction table *)
Lemma live_lookup mc c s used id : R mc c s used -> memN id (live s) = true ->
  (match lookup id (T c) with Some _ => true | None => false end) = true.
Proof.
  intros HR Hm. apply memN_in in Hm. apply (R_live _ _ _ _ HR) in Hm. apply lookup_in in Hm.
  destruct (lookup id (T c)); [reflexivity|exfalso; apply Hm; reflexivity].
Qed.
(* (2) once the long-term monitor has recorded an accepted challenge, the mechanism holds parameters *)
Lemma challenged_params lt sv : LInv lt sv -> lm_challenged sv = true ->
  (match lt_pr lt with Some _ => true | None => false end) = true.
Proof.
  intros HL Hch. destruct (linv_challenged lt sv HL Hch) as (p & -> & _). reflexivity.
Qed.

(* ------------------------------------------------------------------ one step *)
Lemma not_lt_retry cc core sv op ob : cc_mech cc <> 4 -> mon_C08_retry cc core sv op ob = true.
Proof. intros Hk. unfold mon_C08_retry. apply N.eqb_neq in Hk. rewrite Hk. reflexivity. Qed.

Theorem step_C08_retry_lt mc cc c core sv used o c' rep evs lt :
  mech_ c = MLT lt -> cc_fp cc = use_fp (cfg c) -> LInv lt sv -> R mc c core used -> step c o = (c', rep, evs) ->
  mon_C08_retry cc core sv (mop_of o rep) (obs_of c c' o rep evs) = true.
Proof.
  intros Hm Hfp HL HR Hs. unfold mon_C08_retry.
  destruct (negb (cc_mech cc =? 4)); [reflexivity|].
  destruct o as [now id r method app room|id method app room|now d w|now]; cbn [mop_of]; try reflexivity.
  destruct (plain_challenge (cc_fp cc) (lm_challenged sv) (memN (m_id w) (live core)) d w) eqn:Hpc; [|reflexivity].
  pose proof (plain_challenge_dec _ _ _ _ _ Hpc) as Hd. subst d.
  rewrite Hfp in Hpc.
  pose proof (plain_challenge_mono (use_fp (cfg c)) (lm_challenged sv)
                (match lt_pr lt with Some _ => true | None => false end)
                (memN (m_id w) (live core))
                (match lookup (m_id w) (T c) with Some _ => true | None => false end) true w
                (challenged_params lt sv HL) (live_lookup mc c core used (m_id w) HR) Hpc) as Hpm.
  pose proof (plain_challenge_is_retried c lt now w Hm Hpm) as Hret. rewrite Hs in Hret.
  destruct Hret as (_ & -> & _).
  cbn [obs_of ob_events map oev_of existsb]. rewrite N.eqb_refl. reflexivity.
Qed.

Theorem step_C08_retry mc cc c s used o c' rep evs :
  R mc c (ma_core s) used -> CInv cc c s -> step c o = (c', rep, evs) ->
  mon_C08_retry cc (ma_core s) (ma_lt s) (mop_of o rep) (obs_of c c' o rep evs) = true.
Proof.
  intros HR HC Hs. pose proof (CI_mech _ _ _ HC) as Hm. destruct (mech_ c) as [|st|lt] eqn:Hmc.
  - apply not_lt_retry. rewrite Hm. discriminate.
  - destruct Hm as (Hk & _). apply not_lt_retry. destruct Hk as [->|[->| ->]]; discriminate.
  - destruct Hm as (_ & HL).
    exact (step_C08_retry_lt mc cc c (ma_core s) (ma_lt s) used o c' rep evs lt Hmc (CI_fp _ _ _ HC) HL HR Hs).
Qed.

(* ------------------------------------------------------------------ the lockstep run *)
(* the run of AgentMeets3.run_mon_lt, recording the answer of mon_C08_retry on the states before each step *)
Record rtv := { rv_before : mall;        (* the monitor state before the step (the driver's `st`) *)
                rv_premise : bool;       (* the step is a Recv whose message is a plain challenge for the monitor *)
                rv_retry : bool }.       (* mon_C08_retry on (ma_core rv_before) (ma_lt rv_before) *)

Definition premise_of (cc:ccfg) (s:mall) (op:mop) : bool :=
  (cc_mech cc =? 4) &&
  match op with
  | MRecv _ dec m => plain_challenge (cc_fp cc) (lm_challenged (ma_lt s)) (memN (m_id m) (live (ma_core s))) dec m
  | _ => false
  end.

Fixpoint run_mon_retry (cf:mcfg) (cc:ccfg) (c:client) (s:mall) (ops:list op) : list rtv :=
  match ops with
  | [] => []
  | o :: rest =>
      let '(c', rep, evs) := step c o in
      let '(s', vs) := monitor_step cf cc s (mop_of o rep) (obs_of c c' o rep evs) in
      {| rv_before := s; rv_premise := premise_of cc s (mop_of o rep);
         rv_retry := mon_C08_retry cc (ma_core s) (ma_lt s) (mop_of o rep) (obs_of c c' o rep evs) |}
      :: run_mon_retry cf cc c' s' rest
  end.

(* it visits the same monitor states as run_mon_lt (hence, by AgentMeets3.run_mon_lt_verdicts / run_mon_lt_before, as run_mon) *)
Lemma run_mon_retry_before cf cc : forall ops c s,
  map rv_before (run_mon_retry cf cc c s ops) = map lv_before (run_mon_lt cf cc c s ops).
Proof.
  induction ops as [|o ops IH]; intros c s; cbn [run_mon_retry run_mon_lt map]; [reflexivity|].
  destruct (step c o) as [[c' rep] evs].
  destruct (monitor_step cf cc s (mop_of o rep) (obs_of c c' o rep evs)) as [s' vs].
  cbn [map rv_before lv_before]. rewrite IH. reflexivity.
Qed.
Lemma run_mon_retry_length cf cc ops c s : length (run_mon_retry cf cc c s ops) = length ops.
Proof.
  rewrite <- (run_mon_lt_length cf cc ops c s), <- (map_length rv_before), run_mon_retry_before. apply map_length.
Qed.
Lemma run_mon_retry_app cf cc : forall a b c s,
  run_mon_retry cf cc c s (a ++ b)
  = run_mon_retry cf cc c s a ++ run_mon_retry cf cc (fst (run_state cf cc c s a)) (snd (run_state cf cc c s a)) b.
Proof.
  induction a as [|o a IH]; intros b c s; cbn [app run_mon_retry run_state fst snd]; [reflexivity|].
  destruct (step c o) as [[c' rep] evs].
  destruct (monitor_step cf cc s (mop_of o rep) (obs_of c c' o rep evs)) as [s' vs]. cbn [fst].
  rewrite IH. reflexivity.
Qed.

(* the invariants reach every prefix *)
Lemma run_state_inv mc cc : forall a b c s used,
  R mc c (ma_core s) used -> CInv cc c s -> fresh_trace used (a ++ b) ->
  exists used', R mc (fst (run_state mc cc c s a)) (ma_core (snd (run_state mc cc c s a))) used'
                /\ CInv cc (fst (run_state mc cc c s a)) (snd (run_state mc cc c s a))
                /\ fresh_trace used' b.
Proof.
  induction a as [|o a IH]; intros b c s used HR HC Hfr; cbn [app run_state fst snd] in *.
  - exists used. auto.
  - destruct Hfr as [Hfo Hfr].
    destruct (step c o) as [[c' rep] evs] eqn:Hs.
    pose proof (monitor_step_core mc cc s (mop_of o rep) (obs_of c c' o rep evs)) as Hcore.
    pose proof (step_CInv mc cc c s used o c' rep evs HR HC Hs) as HC'.
    apply (IH b c' _ (used_step used o)); [|exact HC'|exact Hfr].
    rewrite Hcore. exact (step_R mc c (ma_core s) used o c' rep evs HR Hfo Hs).
Qed.

Lemma run_mon_retry_ok mc cc : forall ops c s used,
  R mc c (ma_core s) used -> CInv cc c s -> fresh_trace used ops ->
  forall x, In x (run_mon_retry mc cc c s ops) -> rv_retry x = true.
Proof.
  induction ops as [|o ops IH]; intros c s used HR HC Hfr x Hin; cbn [run_mon_retry] in Hin; [destruct Hin|].
  destruct Hfr as [Hfo Hfr].
  destruct (step c o) as [[c' rep] evs] eqn:Hs.
  pose proof (monitor_step_core mc cc s (mop_of o rep) (obs_of c c' o rep evs)) as Hcore.
  pose proof (step_CInv mc cc c s used o c' rep evs HR HC Hs) as HC'.
  destruct (monitor_step mc cc s (mop_of o rep) (obs_of c c' o rep evs)) as [s' vs0]. cbn [fst snd] in *.
  destruct Hin as [<-|Hin].
  - cbn [rv_retry]. exact (step_C08_retry mc cc c s used o c' rep evs HR HC Hs).
  - assert (HR' : R mc c' (ma_core s') (used_step used o)) by (rewrite Hcore; apply (step_R mc c (ma_core s) used o c' rep evs HR Hfo Hs)).
    exact (IH c' s' (used_step used o) HR' HC' Hfr x Hin).
Qed.

(* ------------------------------------------------------------------ the theorems *)
(* for every decomposition of a well-formed history: mon_C08_retry, applied to the schedule and long-term monitor states that
   monitor_step has threaded through the prefix, accepts the next step of the model *)
Theorem model_meets_C08_retry : forall (cf:config) (m:mech) (mc:mcfg) (cc:ccfg) (ops:list op),
  consistent mc cf -> consistent_cc cc cf m -> well_formed_history ops ->
  forall a o b, ops = a ++ o :: b ->
    let c := fst (run_state mc cc (init cf m) (mall0 cc) a) in
    let s := snd (run_state mc cc (init cf m) (mall0 cc) a) in
    let '(c', rep, evs) := step c o in
    mon_C08_retry cc (ma_core s) (ma_lt s) (mop_of o rep) (obs_of c c' o rep evs) = true.
Proof.
  intros cf m mc cc ops Hc Hcc Hwf a o b ->. cbv zeta.
  destruct (run_state_inv mc cc a (o :: b) (init cf m) (mall0 cc) [] (R_init mc cf m Hc) (CInv_init cc cf m Hcc)
              (wf_fresh _ _ _ Hwf)) as (used' & HR & HC & _).
  destruct (step (fst (run_state mc cc (init cf m) (mall0 cc) a)) o) as [[c' rep] evs] eqn:Hs.
  exact (step_C08_retry mc cc _ _ used' o c' rep evs HR HC Hs).
Qed.

(* the same on the recorded run *)
Definition retry_true (l:list rtv) : Prop := forall x, In x l -> rv_retry x = true.
Theorem model_meets_C08_retry_run cf m mc cc ops :
  consistent mc cf -> consistent_cc cc cf m -> well_formed_history ops ->
  retry_true (run_mon_retry mc cc (init cf m) (mall0 cc) ops).
Proof.
  intros Hc Hcc Hwf x Hin.
  exact (run_mon_retry_ok mc cc ops (init cf m) (mall0 cc) [] (R_init mc cf m Hc) (CInv_init cc cf m Hcc) (wf_fresh _ _ _ Hwf) x Hin).
Qed.

(* what the monitor's `true` means where its premise holds: the model's step answers exactly the retry notification *)
Corollary model_retries_when_monitor_demands : forall (cf:config) (m:mech) (mc:mcfg) (cc:ccfg) (a:list op) (now:N) (d:bool) (w:msg) (b:list op),
  consistent mc cf -> consistent_cc cc cf m -> well_formed_history (a ++ Recv now d w :: b) ->
  let c := fst (run_state mc cc (init cf m) (mall0 cc) a) in
  let s := snd (run_state mc cc (init cf m) (mall0 cc) a) in
  cc_mech cc = 4 ->
  plain_challenge (cc_fp cc) (lm_challenged (ma_lt s)) (memN (m_id w) (live (ma_core s))) d w = true ->
  snd (step c (Recv now d w)) = [Retry (m_id w)] /\ snd (fst (step c (Recv now d w))) = ROk None.
Proof.
  intros cf m mc cc a now d w b Hc Hcc Hwf. cbv zeta. intros Hk Hpc.
  destruct (run_state_inv mc cc a (Recv now d w :: b) (init cf m) (mall0 cc) [] (R_init mc cf m Hc) (CInv_init cc cf m Hcc)
              (wf_fresh _ _ _ Hwf)) as (used' & HR & HC & _).
  set (c := fst (run_state mc cc (init cf m) (mall0 cc) a)) in *.
  set (s := snd (run_state mc cc (init cf m) (mall0 cc) a)) in *.
  pose proof (CI_mech _ _ _ HC) as Hm. destruct (mech_ c) as [|st|lt] eqn:Hmc.
  - rewrite Hk in Hm. discriminate.
  - destruct Hm as ([Hm|[Hm|Hm]] & _); rewrite Hk in Hm; discriminate.
  - destruct Hm as (_ & HL).
    pose proof (plain_challenge_dec _ _ _ _ _ Hpc) as Hd. subst d.
    rewrite (CI_fp _ _ _ HC) in Hpc.
    pose proof (plain_challenge_mono _ _ _ _ _ true w
                  (challenged_params lt (ma_lt s) HL) (live_lookup mc c (ma_core s) used' (m_id w) HR) Hpc) as Hpm.
    pose proof (plain_challenge_is_retried c lt now w Hmc Hpm) as Hret.
    destruct (step c (Recv now true w)) as [[c' rep] evs]. cbn [fst snd].
    destruct Hret as (-> & -> & _). split; reflexivity.
Qed.

(* ------------------------------------------------------------------ non-vacuity *)
(* a long-term client: a request, the 401 challenge for it (REALM, NONCE whose cookie announces PASSWORD-ALGORITHMS, the
   algorithms, valid FINGERPRINT), the retried request, a 438 with a fresh nonce for that one. The monitor's premise holds
   at both replies, and the monitor's answer (the model retried) is `true` everywhere *)
Definition retry_history : list op :=
  [ Send 0 1 500 1 [] true;
    Recv 10 true (ex_resp CError 1 [ErrorCode 401; Realm 7; Nonce 8 2; PwdAlgs [MD5; SHA256]; AFP true]);
    Send 20 2 500 1 [] true;
    Recv 30 true (ex_resp CError 2 [ErrorCode 438; Nonce 9 1; AFP true]);
    Send 40 3 500 1 [] true ].
Example retry_history_wf : well_formed_history retry_history.
Proof.
  unfold well_formed_history, retry_history.
  repeat (first [ apply wf_nil
                | apply wf_send; [cbn [In]; intros Hin; repeat (destruct Hin as [Hin|Hin]; [discriminate Hin|]); exact Hin | lia | lia | ]
                | apply wf_ind
                | apply wf_recv; [lia|]
                | apply wf_tmo; [lia|] ]).
Qed.
Example retry_history_wf_apps : wf_apps retry_history.
Proof. apply wf_appsb_spec. vm_compute. reflexivity. Qed.
Example retry_history_run :
  map (fun x => (rv_premise x, rv_retry x)) (run_mon_retry lt_mc lt_cc (init lt_cf lt_m0) (mall0 lt_cc) retry_history)
  = [(false, true); (true, true); (false, true); (true, true); (false, true)].
Proof. vm_compute. reflexivity. Qed.
(* the premise of the monitor at the challenge step, spelled out on the states run_state reaches after the first request *)
Example retry_history_premise :
  let s := snd (run_state lt_mc lt_cc (init lt_cf lt_m0) (mall0 lt_cc) [Send 0 1 500 1 [] true]) in
  let w := ex_resp CError 1 [ErrorCode 401; Realm 7; Nonce 8 2; PwdAlgs [MD5; SHA256]; AFP true] in
  plain_challenge (cc_fp lt_cc) (lm_challenged (ma_lt s)) (memN (m_id w) (live (ma_core s))) true w = true.
Proof. vm_compute. reflexivity. Qed.
(* the monitor can fail: the same challenge step observed WITHOUT the retry notification (what an implementation that
   drops the challenge would show) is rejected, and so is one that notifies the retry of another request *)
Example retry_monitor_rejects :
  let s := snd (run_state lt_mc lt_cc (init lt_cf lt_m0) (mall0 lt_cc) [Send 0 1 500 1 [] true]) in
  let w := ex_resp CError 1 [ErrorCode 401; Realm 7; Nonce 8 2; PwdAlgs [MD5; SHA256]; AFP true] in
  map (fun evs => mon_C08_retry lt_cc (ma_core s) (ma_lt s) (MRecv 10 true w)
                    {| ob_ret := OOk; ob_events := evs; ob_T := []; ob_H := []; ob_K := []; ob_same := false |})
      [ []; [ERetry' 2]; [ERecv CError 1]; [ERetry' 1] ]
  = [false; false; false; true].
Proof. vm_compute. reflexivity. Qed.
(* along AgentMeets2.lt_history (which has a 401 and a 438 as well) the premise holds at steps 1 and 3 *)
Example lt_history_retry :
  map (fun x => (rv_premise x, rv_retry x)) (run_mon_retry lt_mc lt_cc (init lt_cf lt_m0) (mall0 lt_cc) lt_history)
  = [(false, true); (true, true); (false, true); (true, true); (false, true);
     (false, true); (false, true); (false, true); (false, true); (false, true)].
Proof. vm_compute. reflexivity. Qed.

Print Assumptions model_meets_C08_retry.
Print Assumptions model_meets_C08_retry_run.
Print Assumptions model_retries_when_monitor_demands.
Print Assumptions plain_challenge_mono.
