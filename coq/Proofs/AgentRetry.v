(* C08, the IF direction, on the MODEL side: the long-term client model answers every PLAIN challenge (Monitors.plain_challenge:
   a decodable error response to an outstanding request whose protected attributes carry, first of their kind, ERROR-CODE
   401 with REALM and NONCE - or 438 with NONCE once the client holds parameters -, no integrity attribute, PASSWORD-ALGORITHMS
   exactly when the nonce cookie announces them and then with a supported algorithm, and the valid FINGERPRINT a
   fingerprint-checking client insists on) with exactly the retry notification for that request, finishes the transaction
   and stores the challenge's nonce.

   Route. (1) `rfc_filter` is idempotent (AgentMeets2.rfc_filter_idem): `step` replaces the attributes by the protected
   list P and `lt_error` filters again. (2) The error scan `harvest_all harvest0 P` never stops on such a list
   (harvest_all_total: only a first PASSWORD-ALGORITHMS without MD5 / SHA-256 stops it) and what it collects are the
   monitors' getters: code / nonce (AgentMech.harvest_all_cn), realm / algorithms (AgentMech.harvest_all_first), the
   password-algorithms bit of the first nonce's cookie (harvest_all_bit, here), no integrity attribute
   (AgentMech.harvest_all_integ). (3) `lt_error` / `lt_recv` / `step` unfolded with these facts. *)
From Coq Require Import List NArith Lia Bool Arith.
Import ListNotations.
From Rustun Require Import Agent.Rto Agent.Model Agent.Monitors Codec.Filter Proofs.AgentInv Proofs.AgentTrace
  Proofs.AgentSched Proofs.AgentMech Proofs.AgentMeets Proofs.AgentMeets2.
Open Scope N_scope.

(* ================================================================== 1: the scan does not stop *)
(* the chosen algorithm is only ever set together with the algorithm list *)
Definition alg_inv (h:harvest) : Prop := h_algs h = None -> h_alg h = None.
(* the first PASSWORD-ALGORITHMS of the list (if any) offers MD5 or SHA-256 *)
Definition algs_ok (l:list attr) : Prop :=
  match get_algs l with Some x => choose_alg x None <> None | None => True end.

Lemma alg_inv0 : alg_inv harvest0.
Proof. intros _. reflexivity. Qed.

Lemma harvest1_alg_inv h a h' : alg_inv h -> harvest1 h a = Some h' -> alg_inv h'.
Proof.
  unfold alg_inv, harvest1. intros Hinv. destruct a; intros HE;
    repeat match type of HE with context [match ?x with _ => _ end] => destruct x eqn:? end;
    try discriminate; injection HE as HE; subst h'; cbn [h_algs h_alg]; try exact Hinv; intros HF; congruence.
Qed.

Lemma harvest1_total h a : alg_inv h -> (h_algs h = None -> algs_ok (a :: nil)) -> exists h', harvest1 h a = Some h'.
Proof.
  intros Hinv Hok. destruct a as [ty tag|u|u r|r|n c|l|x|c|k|k|g]; cbn [harvest1];
    try (eexists; reflexivity).
  - destruct (h_nonce h); eexists; reflexivity.
  - destruct (h_algs h) as [x|] eqn:Ha; [eexists; reflexivity|].
    rewrite (Hinv Ha). specialize (Hok eq_refl). unfold algs_ok in Hok. rewrite get_algs_cons in Hok.
    destruct (choose_alg l None) as [b|]; [eexists; reflexivity|exfalso; apply Hok; reflexivity].
Qed.

Lemma algs_ok_one a r : algs_ok (a :: r) -> algs_ok (a :: nil).
Proof. unfold algs_ok. rewrite !get_algs_cons. destruct a; try (intros _; exact I). intros H; exact H. Qed.

Lemma harvest_all_total : forall l h, alg_inv h -> (h_algs h = None -> algs_ok l) -> exists h', harvest_all h l = Some h'.
Proof.
  induction l as [|a r IH]; intros h Hinv Hok; cbn [harvest_all]; [eexists; reflexivity|].
  destruct (harvest1_total h a Hinv) as [h1 H1]; [intros Hn; apply (algs_ok_one a r), Hok, Hn|].
  rewrite H1. apply IH; [eapply harvest1_alg_inv; eassumption|].
  intros Hn1. apply harvest1_first in H1 as (_ & Ha1 & _). rewrite Hn1 in Ha1.
  destruct (h_algs h) as [x|] eqn:Hha; [discriminate|]. specialize (Hok eq_refl).
  unfold algs_ok in *. rewrite get_algs_cons in Hok. destruct a; try exact Hok. discriminate.
Qed.

(* ================================================================== 2: the password-algorithms bit *)
Definition cookie_bit_algs (c:N) : bool := (c =? 2) || (c =? 4).

Lemma harvest1_bit h a h' : harvest1 h a = Some h' ->
  h_bit_algs h' = match h_nonce h, a with
                  | None, Nonce n c => if nonce_decodable c then cookie_bit_algs c else h_bit_algs h
                  | _, _ => h_bit_algs h
                  end.
Proof.
  unfold harvest1, nonce_decodable, cookie_bit_algs. destruct a; intros HE;
    repeat match type of HE with context [match ?x with _ => _ end] => destruct x eqn:? end;
    try discriminate; injection HE as HE; subst h'; cbn [h_bit_algs h_nonce];
    repeat match goal with H : ?x = _ |- context [?x] => rewrite H end;
    try reflexivity;
    repeat match goal with |- context [match ?x with _ => _ end] => destruct x end; reflexivity.
Qed.

Lemma harvest_all_bit : forall l h h', harvest_all h l = Some h' ->
  h_bit_algs h' = match h_nonce h with
                  | Some _ => h_bit_algs h
                  | None => match get_nonce l with
                            | Some n => if nonce_decodable (snd n) then cookie_bit_algs (snd n) else h_bit_algs h
                            | None => h_bit_algs h
                            end
                  end.
Proof.
  induction l as [|a r IH]; intros h h'; cbn [harvest_all].
  - intros HE; inversion HE; subst. destruct (h_nonce h'); reflexivity.
  - destruct (harvest1 h a) as [h1|] eqn:H1; [|discriminate]. intros HE.
    pose proof (harvest1_cn _ _ _ H1) as [_ Hn1]. apply harvest1_bit in H1 as Hb1.
    apply IH in HE as Hb. rewrite Hb, Hb1, Hn1, get_nonce_cons.
    destruct (h_nonce h); [reflexivity|destruct a; reflexivity].
Qed.

Lemma undecodable_no_algs c : nonce_decodable c = false -> cookie_bit_algs c = false.
Proof.
  unfold nonce_decodable, cookie_bit_algs. intros Hd. apply andb_false_iff in Hd.
  apply orb_false_iff. split; apply N.eqb_neq; intros ->; destruct Hd as [Hd|Hd]; discriminate.
Qed.

(* ================================================================== 3: the scan of a list without integrity attributes *)
Lemma no_integ_none f l o : (forall a, In a l -> f a = false) -> from_list f l None o -> o = None.
Proof.
  intros Hno [->|(a & -> & Hin & Ha)]; [reflexivity|]. rewrite (Hno a Hin) in Ha. discriminate.
Qed.

Lemma existsb_is_integ_false l : existsb is_integ l = false ->
  (forall a, In a l -> a_is_mi a = false) /\ (forall a, In a l -> a_is_sha a = false).
Proof.
  intros He. split; intros a Hin.
  - destruct (a_is_mi a) eqn:Ha; [|reflexivity]. rewrite <- He. symmetry. apply existsb_exists. exists a.
    split; [exact Hin|]. unfold is_integ. rewrite Ha. reflexivity.
  - destruct (a_is_sha a) eqn:Ha; [|reflexivity]. rewrite <- He. symmetry. apply existsb_exists. exists a.
    split; [exact Hin|]. unfold is_integ. rewrite Ha. apply orb_true_r.
Qed.

(* the harvest of a plain list: everything the error scan collects, in terms of the monitors' getters *)
Theorem harvest_plain P :
  existsb is_integ P = false -> algs_ok P ->
  exists h, harvest_all harvest0 P = Some h
    /\ h_code h = get_code P /\ h_realm h = get_realm P /\ h_nonce h = get_nonce P /\ h_algs h = get_algs P
    /\ h_mi h = None /\ h_sha h = None
    /\ h_bit_algs h = match get_nonce P with Some n => cookie_bit_algs (snd n) | None => false end.
Proof.
  intros Hint Hok. destruct (harvest_all_total P harvest0 alg_inv0 (fun _ => Hok)) as [h Hh]. exists h.
  pose proof (harvest_all_cn _ _ _ Hh) as [Hc Hn]. pose proof (harvest_all_first _ _ _ Hh) as (Hr & Ha & _).
  pose proof (harvest_all_bit _ _ _ Hh) as Hb. pose proof (harvest_all_integ _ _ _ Hh) as [Hm Hs].
  cbn [harvest0 h_code h_nonce h_realm h_algs h_bit_algs h_mi h_sha] in *.
  apply existsb_is_integ_false in Hint as [Hnm Hns].
  repeat split; try assumption.
  - exact (no_integ_none a_is_mi P _ Hnm Hm).
  - exact (no_integ_none a_is_sha P _ Hns Hs).
  - rewrite Hb. destruct (get_nonce P) as [n|]; [|reflexivity].
    destruct (nonce_decodable (snd n)) eqn:Hd; [reflexivity|]. symmetry. apply undecodable_no_algs, Hd.
Qed.

(* ================================================================== 4: lt_error / lt_recv on a plain challenge *)
Definition plain_attrs (P:list attr) (challenged:bool) : bool :=
  negb (existsb is_integ P)
  && (match get_nonce P with
      | Some n => let bit := (snd n =? 2) || (snd n =? 4) in
                  match get_algs P with
                  | None => negb bit
                  | Some l => match choose_alg l None with Some _ => true | None => false end
                  end
      | None => false end)
  && (match get_code P with
      | Some 401 => match get_realm P with Some _ => true | None => false end
      | Some 438 => challenged
      | _ => false end).

Lemma lt_error_plain rel mk s m :
  plain_attrs (rfc_filter (m_attrs m)) (match lt_pr s with Some _ => true | None => false end) = true ->
  exists st p, lt_error rel mk s m = (Some ERetry, mk, {| lt_st := st; lt_pr := Some p |})
               /\ Some (p_nonce p) = get_nonce (rfc_filter (m_attrs m)).
Proof.
  unfold plain_attrs. set (P := rfc_filter (m_attrs m)). intros Hp.
  apply andb_true_iff in Hp as [Hp Hcode]. apply andb_true_iff in Hp as [Hint Halg].
  apply negb_true_iff in Hint.
  destruct (get_nonce P) as [n|] eqn:Hgn; [|discriminate]. cbv zeta in Halg. fold (cookie_bit_algs (snd n)) in Halg.
  assert (Hok : algs_ok P).
  { unfold algs_ok. destruct (get_algs P) as [l|]; [|exact I]. destruct (choose_alg l None); [discriminate|discriminate Halg]. }
  destruct (harvest_plain P Hint Hok) as (h & Hh & Hc & Hr & Hn & Ha & Hm & Hs & Hb).
  unfold lt_error. fold P. rewrite Hh, Hb, Ha, Hc, Hm, Hs, Hn, Hgn.
  assert (Hbit : cookie_bit_algs (snd n) && match get_algs P with None => true | Some _ => false end = false).
  { destruct (get_algs P); [apply andb_false_r|]. apply negb_true_iff in Halg. rewrite Halg. reflexivity. }
  rewrite Hbit. cbn [has orb].
  destruct (get_code P) as [code|]; [|discriminate].
  destruct (N.eqb_spec code 401) as [->|Hne1].
  - destruct (get_realm P) as [r|] eqn:Hgr; [|discriminate].
    unfold make_params. rewrite Hr, Hn, Hgn.
    eexists; eexists. split; [reflexivity|]. cbn [p_nonce]. reflexivity.
  - destruct (N.eqb_spec code 438) as [->|Hne2].
    + destruct (lt_pr s) as [p|]; [|discriminate].
      eexists; eexists. split; [reflexivity|]. cbn [set_nonce p_nonce]. reflexivity.
    + exfalso. destruct code as [|q]; [discriminate|].
      repeat (destruct q as [q|q|]; try discriminate); congruence.
Qed.

Lemma lt_recv_plain rel mk s m :
  m_class m = CError ->
  plain_attrs (rfc_filter (m_attrs m)) (match lt_pr s with Some _ => true | None => false end) = true ->
  exists st p, lt_recv rel mk s m = (Some ERetry, mk, {| lt_st := st; lt_pr := Some p |})
               /\ Some (p_nonce p) = get_nonce (rfc_filter (m_attrs m)).
Proof.
  intros Hc Hp. destruct (lt_error_plain rel mk s m Hp) as (st & p & He & Hn).
  exists st, p. split; [|exact Hn]. unfold lt_recv. rewrite Hc, He. reflexivity.
Qed.

(* ================================================================== 5: the client *)
Theorem plain_challenge_is_retried : forall (c:client) (s:lt_mech) (now:N) (w:msg),
  mech_ c = MLT s ->
  plain_challenge (use_fp (cfg c)) (match lt_pr s with Some _ => true | None => false end)
                  (match lookup (m_id w) (T c) with Some _ => true | None => false end) true w = true ->
  let '(c', rep, evs) := step c (Recv now true w) in
  rep = ROk None /\ evs = [Retry (m_id w)] /\
  lookup (m_id w) (T c') = None /\
  exists s', mech_ c' = MLT s' /\
     match lt_pr s' with
     | Some p => Some (p_nonce p) = get_nonce (rfc_filter (m_attrs w))
     | None => False end.
Proof.
  intros c s now w Hmech Hpc.
  unfold plain_challenge in Hpc. cbv zeta in Hpc. set (P := rfc_filter (m_attrs w)) in *.
  apply andb_true_iff in Hpc as [Hpc Hcode]. apply andb_true_iff in Hpc as [Hpc Halg].
  apply andb_true_iff in Hpc as [Hpc Hfp]. apply andb_true_iff in Hpc as [Hpc Hint].
  apply andb_true_iff in Hpc as [Hpc Hcls]. apply andb_true_iff in Hpc as [_ Hout].
  destruct (m_class w) eqn:Hc; try discriminate. clear Hcls.
  destruct (lookup (m_id w) (T c)) as [x|] eqn:Hl; [|discriminate]. clear Hout.
  assert (Hfp1 : use_fp (cfg c) && (match find a_is_fp P with None => true | Some _ => false end) = false).
  { destruct (use_fp (cfg c)); [|reflexivity]. destruct (find a_is_fp P); [reflexivity|discriminate]. }
  assert (Hfp2 : use_fp (cfg c) && (match find a_is_fp P with Some (AFP true) => false | _ => true end) = false).
  { destruct (use_fp (cfg c)); [|reflexivity]. destruct (find a_is_fp P) as [[| | | | | | | | | |[|]]|]; try discriminate. reflexivity. }
  set (m := {| m_class := m_class w; m_method := m_method w; m_id := m_id w; m_attrs := P |}).
  assert (HP : rfc_filter (m_attrs m) = P) by (unfold m, P; cbn [m_attrs]; apply rfc_filter_idem).
  assert (Hpa : plain_attrs (rfc_filter (m_attrs m)) (match lt_pr s with Some _ => true | None => false end) = true).
  { rewrite HP. unfold plain_attrs. rewrite Hint, Halg, Hcode. reflexivity. }
  assert (Hcm : m_class m = CError) by (unfold m; cbn [m_class]; exact Hc).
  destruct (lt_recv_plain (reliable (cfg c)) (markers c) s m Hcm Hpa) as (st & p & Hrecv & Hn). rewrite HP in Hn.
  unfold step. cbn [negb]. cbv zeta. fold P. fold m.
  rewrite Hcm. cbn [class_eqb]. unfold is_response. rewrite Hcm. change (m_id m) with (m_id w). rewrite Hl. cbn [andb].
  change (m_attrs m) with P. rewrite Hfp1, Hfp2, Hmech, Hrecv.
  cbn [with_mech with_TH T mech_ cfg markers H].
  split; [reflexivity|]. split; [reflexivity|]. split; [apply lookup_remove_eq|].
  eexists. split; [reflexivity|]. cbn [lt_pr]. exact Hn.
Qed.

(* ================================================================== 6: the hypotheses are satisfiable *)
(* a fingerprint-checking long-term client that has never been challenged, with request 7 outstanding, and the 401 challenge
   REALM 1, NONCE (5, cookie announcing PASSWORD-ALGORITHMS), PASSWORD-ALGORITHMS [MD5; SHA-256], valid FINGERPRINT *)
Definition ex_cfg : config := {| reliable := false; cf_rm := 16; cf_rc := 7; limit := 10; use_fp := true |}.
Definition ex_req : msg := {| m_class := CRequest; m_method := 1; m_id := 7; m_attrs := [AFP true] |}.
Definition ex_client : client :=
  {| cfg := ex_cfg; mech_ := MLT {| lt_st := First; lt_pr := None |}; markers := [];
     T := [(7, {| inst := Some 0; pkt := ex_req; tm := new_mgr (init ex_cfg MNone) 500 |})]; H := [(0, 500, 7)] |}.
Definition ex_401 : msg :=
  {| m_class := CError; m_method := 1; m_id := 7;
     m_attrs := [ErrorCode 401; Realm 1; Nonce 5 2; PwdAlgs [MD5; SHA256]; AFP true] |}.

Example plain_challenge_satisfiable :
  plain_challenge (use_fp (cfg ex_client)) false
                  (match lookup (m_id ex_401) (T ex_client) with Some _ => true | None => false end) true ex_401 = true.
Proof. vm_compute. reflexivity. Qed.

Example plain_challenge_example :
  step ex_client (Recv 100 true ex_401)
  = ({| cfg := ex_cfg;
        mech_ := MLT {| lt_st := Retry401;
                        lt_pr := Some {| p_realm := 1; p_nonce := (5, 2); p_algs := Some [MD5; SHA256]; p_alg := Some SHA256;
                                         p_key := KLT 1 0 SHA256; p_anon := false; p_integ := ISHA |} |};
        markers := []; T := []; H := [] |}, ROk None, [Retry 7]).
Proof. vm_compute. reflexivity. Qed.

(* a stale-nonce reply to a client that holds parameters *)
Definition ex_client2 : client :=
  {| cfg := ex_cfg;
     mech_ := MLT {| lt_st := Subsequent;
                     lt_pr := Some {| p_realm := 1; p_nonce := (5, 2); p_algs := Some [MD5; SHA256]; p_alg := Some SHA256;
                                      p_key := KLT 1 0 SHA256; p_anon := false; p_integ := ISHA |} |};
     markers := [];
     T := [(7, {| inst := Some 0; pkt := ex_req; tm := new_mgr (init ex_cfg MNone) 500 |})]; H := [(0, 500, 7)] |}.
Definition ex_438 : msg :=
  {| m_class := CError; m_method := 1; m_id := 7; m_attrs := [ErrorCode 438; Nonce 6 0; AFP true] |}.
Example plain_438_satisfiable :
  plain_challenge (use_fp (cfg ex_client2)) true
                  (match lookup (m_id ex_438) (T ex_client2) with Some _ => true | None => false end) true ex_438 = true.
Proof. vm_compute. reflexivity. Qed.

Print Assumptions plain_challenge_is_retried.
