(* Proofs about the value-type API model (Codec/ValueApi.v), property C19:
   (a) no modelled function reaches a panic site, for every argument of its argument type;
   (b) the functional facts that make the model more than "total": MessageType from / as_u16 on all 16,384 pairs and the
       two ignored bits, ErrorCode accepts exactly 300..699 and class * 100 + number = code, bounded ICMP integers, array
       conversions accept exactly the documented length, UnknownAttributes::add idempotent / order-preserving / duplicate
       free, nonce cookies carry the flags they were built with;
   (c) agreement with the codec models (AttrValue / Message / Tlv): the values these constructors build are the ones the
       typed encoders write and the typed decoders return. *)
From Coq Require Import List NArith ZArith Lia Bool Arith ZifyBool ZifyN.
Import ListNotations.
From Rustun Require Import Base.Tlv Crypto.Sha256 Crypto.Sha1Md5 Codec.AttrValue Codec.MsgType Codec.Message Codec.Keys Codec.ValueApi.
From Rustun Require Import Proofs.AttrValueProofs Proofs.CryptoLen.
Open Scope N_scope.
Ltac Zify.zify_post_hook ::= Z.div_mod_to_equations.

(* ------------------------------------------------------------------------------------------ generic *)
Lemma va_bind_np {A B} (r:vres A) (f:A -> vres B) :
  r <> VPanic -> (forall a, r = VOk a -> f a <> VPanic) -> av_bind r f <> VPanic.
Proof. exact (av_bind_np r f). Qed.

Lemma va_array_from_slice_exact n b : va_array_from_slice n b = VOk b <-> len b = n.
Proof. unfold va_array_from_slice. destruct (N.eqb_spec (len b) n); split; intros; try reflexivity; try assumption; try discriminate; contradiction. Qed.
Lemma va_array_from_slice_other n b : len b <> n -> va_array_from_slice n b = VErr.
Proof. unfold va_array_from_slice. destruct (N.eqb_spec (len b) n); [contradiction|reflexivity]. Qed.
Lemma va_array_from_slice_np n b : va_array_from_slice n b <> VPanic.
Proof. unfold va_array_from_slice. destruct (_ =? _); discriminate. Qed.

(* ------------------------------------------------------------------------------------------ message type *)
Lemma land_idem v m : N.land (N.land v m) m = N.land v m.
Proof. rewrite <- N.land_assoc, N.land_diag. reflexivity. Qed.
Lemma va_msgtype_from_mask v : va_msgtype_from v = va_msgtype_from (N.land v 0x3FFF).
Proof. unfold va_msgtype_from. rewrite land_idem. reflexivity. Qed.
Lemma of_u16_mask v : of_u16 v = of_u16 (N.land v 0x3FFF).
Proof. unfold of_u16. rewrite land_idem. reflexivity. Qed.

Definition mt_check (w:N) : bool :=
  match va_msgtype_from w with
  | VOk (m, c) => (m <? 4096) && (c <? 4) && (va_msgtype_as_u16 m c =? w)
                  && (let '(m', c') := of_u16 w in (m' =? m) && (c' =? c))
  | _ => false
  end.
Lemma mt_check_all : forall_bits 14 mt_check = true.
Proof. vm_compute. reflexivity. Qed.
Lemma land_3fff_lt v : N.land v 0x3FFF < 2 ^ N.of_nat 14.
Proof. change 0x3FFF with (N.ones 14). rewrite N.land_ones. apply N.mod_lt. discriminate. Qed.

Theorem va_msgtype_from_spec v :
  exists m c, va_msgtype_from v = VOk (m, c) /\ m < 4096 /\ c < 4 /\
              va_msgtype_as_u16 m c = N.land v 0x3FFF /\ of_u16 v = (m, c).
Proof.
  pose proof (forall_bits_spec 14 mt_check mt_check_all _ (land_3fff_lt v)) as H.
  unfold mt_check in H. rewrite <- va_msgtype_from_mask, <- of_u16_mask in H.
  destruct (va_msgtype_from v) as [[m c]| | |]; try discriminate.
  destruct (of_u16 v) as [m' c'].
  apply andb_prop in H as [H H4]. apply andb_prop in H as [H H3]. apply andb_prop in H as [H1 H2].
  apply andb_prop in H4 as [H4 H5].
  apply N.ltb_lt in H1, H2. apply N.eqb_eq in H3, H4, H5. subst.
  exists m, c. repeat split; auto.
Qed.
Theorem va_msgtype_from_np v : va_msgtype_from v <> VPanic.
Proof. destruct (va_msgtype_from_spec v) as (m & c & -> & _). discriminate. Qed.
Theorem va_msgtype_roundtrip m c : m < 4096 -> c < 4 -> va_msgtype_from (va_msgtype_as_u16 m c) = VOk (m, c).
Proof.
  intros Hm Hc. destruct (va_msgtype_from_spec (va_msgtype_as_u16 m c)) as (m' & c' & E & _ & _ & _ & E2).
  unfold va_msgtype_as_u16 in *. destruct (C02_msg_type m c Hm Hc) as [_ R]. rewrite R in E2. injection E2 as <- <-. exact E.
Qed.
Theorem va_msgtype_as_u16_from v m c : va_msgtype_from v = VOk (m, c) -> va_msgtype_as_u16 m c = N.land v 0x3FFF.
Proof. destruct (va_msgtype_from_spec v) as (m' & c' & -> & _ & _ & E & _). intros H. injection H as <- <-. exact E. Qed.
Theorem va_msgtype_from_bytes_np b : len b = 2 -> va_msgtype_from_bytes b <> VPanic.
Proof.
  intros H. unfold va_msgtype_from_bytes. destruct (av_rd16_ok b) as (n & ->); [lia|]. cbn [av_bind]. apply va_msgtype_from_np.
Qed.

Definition vres_eqb_n (a b:vres N) : bool :=
  match a, b with VOk x, VOk y => x =? y | VErr, VErr => true | VPanic, VPanic => true | VUnmodelled, VUnmodelled => true | _, _ => false end.
Lemma vres_eqb_n_eq a b : vres_eqb_n a b = true -> a = b.
Proof. destruct a, b; cbn; try discriminate; try reflexivity. intros H. apply N.eqb_eq in H. subst. reflexivity. Qed.
Lemma two16 : 2 ^ N.of_nat 16 = 65536. Proof. reflexivity. Qed.
Lemma two8 : 2 ^ N.of_nat 8 = 256. Proof. reflexivity. Qed.

Definition method_check (v:N) : bool := vres_eqb_n (va_method_try_from v) (if v <? 4096 then VOk v else VErr).
Lemma method_check_all : forall_bits 16 method_check = true. Proof. vm_compute. reflexivity. Qed.
Theorem va_method_try_from_spec v : v < 65536 -> va_method_try_from v = if v <? 4096 then VOk v else VErr.
Proof. intros H. apply vres_eqb_n_eq. apply (forall_bits_spec 16 method_check method_check_all). rewrite two16. exact H. Qed.
Theorem va_method_try_from_np v : va_method_try_from v <> VPanic.
Proof. unfold va_method_try_from. destruct (_ =? _); discriminate. Qed.
Theorem va_method_is_valid_spec m : va_method_is_valid m = true <-> m <= 255.
Proof. unfold va_method_is_valid. rewrite N.leb_le. reflexivity. Qed.

Theorem va_class_try_from_spec v : va_class_try_from v = if v <=? 3 then VOk v else VErr.
Proof. reflexivity. Qed.
Theorem va_class_try_from_np v : va_class_try_from v <> VPanic.
Proof. unfold va_class_try_from. destruct (_ <=? _); discriminate. Qed.
Theorem va_family_try_from_spec v : (va_family_try_from v = VOk v /\ (v = 1 \/ v = 2)) \/ (va_family_try_from v = VErr /\ v <> 1 /\ v <> 2).
Proof. unfold va_family_try_from. destruct (N.eqb_spec v 1); [left; auto|]. destruct (N.eqb_spec v 2); [left; auto|right; auto]. Qed.
Theorem va_family_try_from_np v : va_family_try_from v <> VPanic.
Proof. unfold va_family_try_from. destruct (_ || _); discriminate. Qed.
(* ------------------------------------------------------------------------------------------ ErrorCode *)
Theorem va_error_code_new_spec code reason :
  va_error_code_new code reason = if (300 <=? code) && (code <? 700) then VOk (code, reason) else VErr.
Proof. reflexivity. Qed.
Theorem va_error_code_new_accepts code reason : va_error_code_new code reason = VOk (code, reason) <-> 300 <= code < 700.
Proof.
  unfold va_error_code_new. destruct (N.leb_spec 300 code) as [L1|L1]; destruct (N.ltb_spec code 700) as [L2|L2]; cbn [andb]; split; intros X;
    try reflexivity; try discriminate; lia.
Qed.
Theorem va_error_code_new_rejects code reason : code < 300 \/ 700 <= code -> va_error_code_new code reason = VErr.
Proof.
  intros X. unfold va_error_code_new. destruct (N.leb_spec 300 code) as [L1|L1]; destruct (N.ltb_spec code 700) as [L2|L2]; cbn [andb]; try reflexivity; lia.
Qed.
(* the accessors on any value the constructor (or the decoder) can build *)
Theorem va_ec_accessors code : 300 <= code < 700 ->
  va_ec_number code = VOk (code mod 100) /\ va_ec_class code = VOk (code / 100) /\ (code / 100) * 100 + code mod 100 = code /\
  3 <= code / 100 <= 6 /\ code mod 100 <= 99.
Proof.
  intros H. unfold va_ec_class, va_ec_number, va_u8_unwrap, va_sub.
  assert (N1 : (255 <? code mod 100) = false) by (apply N.ltb_ge; lia). rewrite N1. cbn [av_bind].
  assert (N2 : (code <? code mod 100) = false) by (apply N.ltb_ge; lia). rewrite N2. cbn [av_bind].
  assert (N3 : (255 <? (code - code mod 100) / 100) = false) by (apply N.ltb_ge; lia). rewrite N3.
  repeat split; try lia. f_equal. lia.
Qed.
Theorem va_error_code_view_np code reason : va_error_code_view code reason <> VPanic.
Proof.
  unfold va_error_code_view. apply va_bind_np.
  - unfold va_error_code_new. destruct (_ && _); discriminate.
  - intros [c r] E. cbn [fst snd]. unfold va_error_code_new in E. destruct ((300 <=? code) && (code <? 700)) eqn:G; [|discriminate].
    injection E as <- <-. apply andb_prop in G as [G1 G2]. apply N.leb_le in G1. apply N.ltb_lt in G2.
    destruct (va_ec_accessors code (conj G1 G2)) as (-> & -> & _). cbn [av_bind]. discriminate.
Qed.
(* outside the range the accessor WOULD panic (why the constructor's range check carries C19): 25,600 <= code *)
Example va_ec_class_unguarded : va_ec_class 25600 = VPanic. Proof. reflexivity. Qed.
(* agreement with the codec model: ERROR-CODE is encoded from exactly these accessor values, and the decoder only builds
   values the constructor accepts *)
Theorem va_error_code_encodes code reason room c n : 300 <= code < 700 -> len reason <= 509 -> 4 + len reason <= room ->
  va_ec_class code = VOk c -> va_ec_number code = VOk n -> av_enc_error_code code reason room = VOk ([0; 0; c; n] ++ reason).
Proof.
  intros H Hl Hr Ec En. destruct (va_ec_accessors code H) as (E1 & E2 & _). rewrite E1 in En. rewrite E2 in Ec.
  injection En as <-. injection Ec as <-. rewrite enc_error_code_ok by lia. replace ((code - code mod 100) / 100) with (code / 100) by lia. reflexivity.
Qed.
Theorem va_error_code_decoded raw code reason : av_dec_error_code raw = VOk (code, reason) -> va_error_code_new code reason = VOk (code, reason).
Proof. intros H. apply dec_error_code_inv in H. unfold va_error_code_new. rewrite H. reflexivity. Qed.

(* ------------------------------------------------------------------------------------------ bounded integers *)
Theorem va_icmp_type_new_spec v : va_icmp_type_new v = if v <=? 127 then VOk v else VErr. Proof. reflexivity. Qed.
Theorem va_icmp_code_new_spec v : va_icmp_code_new v = if v <=? 511 then VOk v else VErr. Proof. reflexivity. Qed.
Theorem va_icmp_new_np t c : va_icmp_type_new t <> VPanic /\ va_icmp_code_new c <> VPanic.
Proof. unfold va_icmp_type_new, va_icmp_code_new. split; destruct (_ <=? _); discriminate. Qed.
(* the values the ICMP codec accepts are the ones the bounded constructors build *)
Theorem va_icmp_wf t c d : av_wf 0x8004 (AvIcmp t c d) = true -> va_icmp_type_new t = VOk t /\ va_icmp_code_new c = VOk c.
Proof.
  intros H. change (av_wf 0x8004 (AvIcmp t c d)) with ((t <=? 127) && (c <=? 511) && bytes_ok d && (len d =? 4)) in H.
  apply andb_prop in H as [H _]. apply andb_prop in H as [H _]. apply andb_prop in H as [H1 H2].
  unfold va_icmp_type_new, va_icmp_code_new. rewrite H1, H2. auto.
Qed.

Theorem va_algid_roundtrip v : va_algid_to (va_algid_from v) = v.
Proof.
  unfold va_algid_from. destruct (N.eqb_spec v 0) as [->|N0']; [reflexivity|].
  destruct (N.eqb_spec v 1) as [->|N1]; [reflexivity|]. destruct (N.eqb_spec v 2) as [->|N2]; reflexivity.
Qed.
Theorem va_algid_tags v : fst (va_algid_from v) = (if v =? 0 then 0 else if v =? 1 then 1 else if v =? 2 then 2 else 3).
Proof. unfold va_algid_from. destruct (v =? 0); [reflexivity|]. destruct (v =? 1); [reflexivity|]. destruct (v =? 2); reflexivity. Qed.

Theorem va_attrtype_spec v : va_attrtype v = (v, v <? 32768, 32768 <=? v).
Proof. unfold va_attrtype. f_equal. destruct (N.ltb_spec v 32768); destruct (N.leb_spec 32768 v); try reflexivity; lia. Qed.

Theorem va_change_request_roundtrip b : b = 0 \/ b = 2 \/ b = 4 \/ b = 6 -> va_change_request_flags (va_change_request_new (Some b)) = b.
Proof. intros [E|[E|[E|E]]]; subst b; reflexivity. Qed.
Theorem va_change_request_none : va_change_request_flags (va_change_request_new None) = 0. Proof. reflexivity. Qed.

(* common::padding: no underflow, and it is the `pad` of the codec models *)
Lemma land3_mod4 n : N.land n 3 = n mod 4.
Proof. change 3 with (N.ones 2). rewrite N.land_ones. reflexivity. Qed.
Theorem va_padding_spec n : va_padding n = VOk (pad n).
Proof.
  unfold va_padding, va_sub. rewrite !land3_mod4.
  assert (E : (4 <? n mod 4) = false) by (apply N.ltb_ge; lia). rewrite E. cbn [av_bind]. rewrite land3_mod4. reflexivity.
Qed.
Theorem va_padding_np n : va_padding n <> VPanic.
Proof. rewrite va_padding_spec. discriminate. Qed.

(* ------------------------------------------------------------------------------------------ fixed-size values *)
Theorem va_fixed_from_exact n b : (len b = n -> va_fixed_from n b = VOk b) /\ (len b <> n -> va_fixed_from n b = VErr).
Proof. unfold va_fixed_from. split; [apply va_array_from_slice_exact|apply va_array_from_slice_other]. Qed.
Theorem va_fixed_from_np n b : va_fixed_from n b <> VPanic.
Proof. apply va_array_from_slice_np. Qed.

Theorem va_fingerprint_from_ok b : len b = 4 -> va_fingerprint_from b = VOk (N.lxor (av_rd_n 0 b) 0x5354554e).
Proof.
  intros H. unfold va_fingerprint_from, av_dec_u32. destruct (N.ltb_spec (len b) 4); [lia|].
  rewrite av_to_ok by lia. cbn [av_bind]. rewrite av_rd32_ok by (rewrite len_take; lia).
  cbn [va_unwrap av_bind]. rewrite !(take_len_eq 4 b H). reflexivity.
Qed.
Theorem va_fingerprint_from_np b : len b = 4 -> va_fingerprint_from b <> VPanic.
Proof. intros H. rewrite va_fingerprint_from_ok by exact H. discriminate. Qed.
(* the `expect` is a real panic site: only the array type of the argument keeps it unreachable *)
Theorem va_fingerprint_from_short b : len b < 4 -> va_fingerprint_from b = VPanic.
Proof. intros H. unfold va_fingerprint_from, av_dec_u32. destruct (N.ltb_spec (len b) 4); [reflexivity|lia]. Qed.
(* the value stored is the one the FINGERPRINT decoder of the codec model produces *)
Theorem va_fingerprint_codec hdr b c : va_fingerprint_from b = VOk c -> av_dec_kind AvkFp hdr b = VOk (AvFp c).
Proof.
  unfold va_fingerprint_from. cbn [av_dec_kind]. destruct (av_dec_u32 b); cbn [va_unwrap av_bind]; try discriminate.
  intros E. injection E as <-. reflexivity.
Qed.
Theorem va_fixed_codec_mi hdr b : len b = 20 -> va_fixed_from 20 b = VOk b /\ av_dec_kind AvkMI hdr b = VOk (AvMI b).
Proof. intros H. split; [apply va_fixed_from_exact; exact H|apply dec_mi_exact; exact H]. Qed.
Theorem va_fixed_codec_sha hdr b : len b = 32 -> va_fixed_from 32 b = VOk b /\ av_dec_kind AvkSha hdr b = VOk (AvSha b).
Proof. intros H. split; [apply va_fixed_from_exact; exact H|apply dec_sha_exact; exact H]. Qed.

Theorem va_cookie_eq_np b : len b = 4 -> va_cookie_eq b <> VPanic.
Proof. intros H. unfold va_cookie_eq. rewrite av_rd32_ok by lia. discriminate. Qed.
Theorem va_cookie_eq_magic : va_cookie_eq av_cookie = VOk true. Proof. reflexivity. Qed.

Lemma len_hex_upper b : len (va_hex_upper b) = 2 * len b.
Proof. induction b as [|x b IH]; [reflexivity|]. cbn [va_hex_upper flat_map app]. fold (va_hex_upper b). rewrite !len_cons, IH. lia. Qed.
Theorem va_txid_display_len b : len b = 12 -> len (va_txid_display b) = 43.
Proof. intros H. unfold va_txid_display. rewrite !len_app, len_hex_upper, H. reflexivity. Qed.

(* ------------------------------------------------------------------------------------------ MessageHeader *)
Theorem va_header_try_from_np b : va_header_try_from b <> VPanic.
Proof.
  unfold va_header_try_from. destruct (N.ltb_spec (len b) 20); [discriminate|].
  rewrite av_to_ok by lia. cbn [av_bind].
  destruct (av_rd16_ok (take 2 b)) as (t & ->); [rewrite len_take; lia|]. cbn [av_bind].
  destruct (255 <? _); [discriminate|]. destruct (negb _); [discriminate|].
  rewrite av_slice_ok by lia. cbn [av_bind].
  destruct (av_rd16_ok (take (4 - 2) (drop 2 b))) as (l & ->); [rewrite len_slice; lia|]. cbn [av_bind].
  rewrite av_slice_ok by lia. cbn [av_bind].
  destruct (negb _); [discriminate|]. destruct (negb _); [discriminate|].
  rewrite av_slice_ok by lia. cbn [av_bind]. destruct (negb _); discriminate.
Qed.
(* the same header test as the one the XOR address codecs run (AttrValue.av_dec_header) *)
Theorem va_header_agrees b :
  (forall t l x, va_header_try_from b = VOk (t, l, x) -> av_dec_header b = VOk x) /\
  (forall x, av_dec_header b = VOk x -> exists t l, va_header_try_from b = VOk (t, l, x)).
Proof.
  unfold va_header_try_from, av_dec_header. destruct (N.ltb_spec (len b) 20) as [L20|L20].
  { split; [intros t l x E|intros x E]; discriminate. }
  rewrite av_to_ok by lia. cbn [av_bind].
  destruct (av_rd16_ok (take 2 b)) as (t & ->); [rewrite len_take; lia|]. cbn [av_bind].
  assert (B : (255 <? t / 16384) = true -> negb (t / 16384 =? 0) = true).
  { intros X. apply N.ltb_lt in X. destruct (N.eqb_spec (t / 16384) 0); [lia|reflexivity]. }
  destruct (255 <? t / 16384) eqn:E255.
  { rewrite (B eq_refl). split; [intros ? ? ? E|intros x E]; discriminate. }
  destruct (negb (t / 16384 =? 0)).
  { split; [intros ? ? ? E|intros x E]; discriminate. }
  rewrite !av_slice_ok by lia. cbn [av_bind].
  destruct (av_rd16_ok (take (4 - 2) (drop 2 b))) as (l & ->); [rewrite len_slice; lia|]. cbn [av_bind].
  rewrite (len_slice b 4 8) by lia. rewrite (len_slice b 8 20) by lia.
  change (8 - 4 =? 4) with true. change (20 - 8 =? 12) with true. cbn [negb].
  destruct (negb (av_bytes_eqb _ av_cookie)).
  { split; [intros ? ? ? E|intros x E]; discriminate. }
  split.
  - intros t' l' x E. injection E as _ _ <-. reflexivity.
  - intros x E. injection E as <-. do 2 eexists. reflexivity.
Qed.
(* ------------------------------------------------------------------------------------------ string constructors *)
Theorem va_nonce_new_np s : va_nonce_new s <> VPanic.
Proof.
  unfold va_nonce_new, ctor_quoted. destruct (av_utf8 s) as [cps|] eqn:E; [|discriminate].
  pose proof (av_formatted_np s cps E) as H. destruct (av_formatted s cps); try discriminate; [|congruence].
  destruct (509 <? len a); discriminate.
Qed.
Theorem va_nonce_new_len s q : va_nonce_new s = VOk q -> len q <= 509.
Proof.
  unfold va_nonce_new, ctor_quoted. destruct (av_utf8 s) as [cps|]; [|discriminate].
  destruct (av_formatted s cps); try discriminate. destruct (N.ltb_spec 509 (len a)); [discriminate|].
  intros E. injection E as <-. assumption.
Qed.
Theorem va_realm_new_np s : va_realm_new s <> VPanic.
Proof.
  unfold va_realm_new, ctor_realm. pose proof (av_precis_np s) as H. destruct (av_precis s); try discriminate; [|congruence].
  apply va_nonce_new_np.
Qed.
Theorem va_text_new_spec max s : va_text_new max s = if len s <=? max then VOk s else VErr.
Proof. unfold va_text_new. destruct (N.ltb_spec max (len s)); destruct (N.leb_spec (len s) max); try reflexivity; lia. Qed.
Theorem va_text_new_np max s : va_text_new max s <> VPanic.
Proof. unfold va_text_new. destruct (_ <? _); discriminate. Qed.
Theorem va_username_new_np s : va_username_new s <> VPanic.
Proof.
  unfold va_username_new. apply va_bind_np; [apply av_precis_np|]. intros n _. destruct (_ <? _); discriminate.
Qed.
(* what the constructor accepts is what the USERNAME codec round-trips (AttrValue.av_wf) *)
Theorem va_username_new_wf s : av_ascii_print s = true -> 0 < len s -> len s < 509 -> va_username_new s = VOk s /\ av_wf 6 (AvUser s) = true.
Proof.
  intros Ha H0 Hl. split.
  - unfold va_username_new, av_precis. destruct s as [|x s]; [rewrite len_nil in H0; lia|].
    assert (E1 : existsb av_is_ctl (x :: s) = false).
    { apply (existsb_false_of_forallb (fun b => (0x20 <=? b) && (b <=? 0x7E))); [|exact Ha].
      intros b Hb. apply andb_prop in Hb as [B1 B2]. apply N.leb_le in B1, B2. unfold av_is_ctl.
      destruct (N.ltb_spec b 0x20); [lia|]. destruct (N.eqb_spec b 0x7F); [lia|reflexivity]. }
    assert (E2 : existsb (fun b => 0x80 <=? b) (x :: s) = false).
    { apply (existsb_false_of_forallb (fun b => (0x20 <=? b) && (b <=? 0x7E))); [|exact Ha].
      intros b Hb. apply andb_prop in Hb as [B1 B2]. apply N.leb_le in B1, B2. destruct (N.leb_spec 0x80 b); [lia|reflexivity]. }
    rewrite E1, E2. cbn [av_bind]. destruct (N.ltb_spec (len (x :: s)) 509); [reflexivity|lia].
  - change (av_wf 6 (AvUser s)) with (av_ascii_print s && (0 <? len s) && (len s <? 509)). rewrite Ha.
    destruct (N.ltb_spec 0 (len s)); [|lia]. destruct (N.ltb_spec (len s) 509); [reflexivity|lia].
Qed.
Lemma len_sha256 m : len (sha256 m) = 32.
Proof. unfold len. rewrite sha256_length. reflexivity. Qed.
Theorem va_userhash_new_np n r : va_userhash_new n r <> VPanic.
Proof.
  unfold va_userhash_new. apply va_bind_np; [apply av_precis_np|]. intros n' _.
  apply va_bind_np; [apply av_precis_np|]. intros r' _. destruct (negb _); [discriminate|apply va_array_from_slice_np].
Qed.
(* the two internal length tests never fail: an error can only come from the OpaqueString profile; the hash has 32 bytes *)
Theorem va_userhash_new_spec n r :
  va_userhash_new n r = vlet n' := av_precis n in vlet r' := av_precis r in VOk (sha256 (n' ++ [58] ++ r')).
Proof.
  unfold va_userhash_new. destruct (av_precis n) as [n'| | |]; cbn [av_bind]; try reflexivity.
  destruct (av_precis r) as [r'| | |]; cbn [av_bind]; try reflexivity.
  rewrite len_sha256. cbn [N.eqb negb]. change (32 =? 32) with true. cbn [negb].
  apply va_array_from_slice_exact. apply len_sha256.
Qed.

(* MD5 produces 16 bytes (CryptoLen has SHA-1 / SHA-256 only) *)
Lemma md5_round_len blk st i : length (md5_round blk st i) = length st.
Proof.
  unfold md5_round. destruct st as [|a [|b [|c [|d [|e r]]]]]; try reflexivity.
  destruct (Nat.ltb i 16); [reflexivity|]. destruct (Nat.ltb i 32); [reflexivity|]. destruct (Nat.ltb i 48); reflexivity.
Qed.
Lemma fold_md5_round_len blk l : forall st, length (fold_left (md5_round blk) l st) = length st.
Proof. induction l as [|x l IH]; intros st; cbn [fold_left]; [reflexivity|]. rewrite IH. apply md5_round_len. Qed.
Lemma md5_compress_len h blk : length (md5_compress h blk) = length h.
Proof. unfold md5_compress. rewrite map_length, combine_length, fold_md5_round_len. lia. Qed.
Lemma fold_md5_compress_len l : forall h, length (fold_left md5_compress l h) = length h.
Proof. induction l as [|x l IH]; intros h; cbn [fold_left]; [reflexivity|]. rewrite IH. apply md5_compress_len. Qed.
Lemma md5_length m : length (md5 m) = 16%nat.
Proof.
  unfold md5. rewrite (flat_map_const_length _ 4) by (intros; unfold le_bytes; rewrite map_length, seq_length; reflexivity).
  rewrite fold_md5_compress_len. reflexivity.
Qed.

Lemma precis_sp_np s : precis_sp s <> VPanic.
Proof. unfold precis_sp. destruct (av_utf8 s); [|discriminate]. destruct (forallb _ _); [apply av_precis_np|discriminate]. Qed.
Theorem va_key_short_term_np p : va_key_short_term p <> VPanic.
Proof. apply precis_sp_np. Qed.
Theorem va_key_long_term_np u r p a : va_key_long_term u r p a <> VPanic.
Proof.
  unfold va_key_long_term, lt_key. pose proof (precis_sp_np r) as Hr. destruct (precis_sp r); try discriminate; [|congruence].
  pose proof (precis_sp_np p) as Hp. destruct (precis_sp p); try discriminate; [|congruence].
  destruct (a =? 1); [discriminate|]. destruct (a =? 2); discriminate.
Qed.
(* a key exists only for MD5 (16 bytes) and SHA-256 (32 bytes) *)
Theorem va_key_long_term_alg u r p a k : va_key_long_term u r p a = VOk k -> (a = 1 /\ len k = 16) \/ (a = 2 /\ len k = 32).
Proof.
  unfold va_key_long_term, lt_key. destruct (precis_sp r); try discriminate. destruct (precis_sp p); try discriminate.
  destruct (N.eqb_spec a 1) as [->|N1].
  - intros E. injection E as <-. left. split; [reflexivity|]. unfold len. rewrite md5_length. reflexivity.
  - destruct (N.eqb_spec a 2) as [->|N2]; [|discriminate]. intros E. injection E as <-. right. split; [reflexivity|apply len_sha256].
Qed.

(* ------------------------------------------------------------------------------------------ nonce cookies *)
Lemma va_b64_dec3_len l d : va_b64_dec3 l = Some d -> exists a b c, d = [a; b; c].
Proof.
  unfold va_b64_dec3. destruct l as [|c0 [|c1 [|c2 [|c3 [|? ?]]]]]; try discriminate.
  destruct (va_b64_val c0), (va_b64_val c1), (va_b64_val c2), (va_b64_val c3); try discriminate.
  intros E. injection E as <-. eauto.
Qed.
Lemma va_features_of_np l d : va_b64_dec3 l = Some d -> va_features_of d <> VPanic.
Proof. intros H. destruct (va_b64_dec3_len l d H) as (a & b & c & ->). discriminate. Qed.
Theorem va_security_features_np s : va_security_features s <> VPanic.
Proof.
  unfold va_security_features. destruct (negb _); [discriminate|]. destruct (va_str_get s 9 13) as [f|]; [|discriminate].
  destruct (va_b64_dec3 f) as [d|] eqn:E; [|discriminate]. apply (va_features_of_np f d E).
Qed.
(* the pinned commit sliced the string: it panics exactly where `get` answers None, and agrees everywhere else *)
Theorem va_security_features_d4_spec s :
  (va_is_nonce_cookie s = true /\ va_str_get s 9 13 = None /\ va_security_features_d4 s = VPanic /\ va_security_features s = VErr)
  \/ va_security_features_d4 s = va_security_features s.
Proof.
  unfold va_security_features_d4, va_security_features, va_str_index. destruct (va_is_nonce_cookie s); cbn [negb]; [|right; reflexivity].
  destruct (va_str_get s 9 13); cbn [av_bind]; [right; reflexivity|left; auto].
Qed.
(* D4: "obMatJos2abc" followed by U+00C0 U+0080 (a grammatical nonce) -- byte 13 is the second byte of U+00C0 *)
Example C19_nonce_slice_refuted_witness :
  let s := va_cookie_header ++ [97; 98; 99; 0xC3; 0x80; 0xC2; 0x80] in
  va_nonce_new s = VOk s /\ va_security_features_d4 s = VPanic /\ va_security_features s = VErr.
Proof. vm_compute. repeat split. Qed.

(* base64 of the model: decoding inverts encoding on every 24-bit value's first character (finite check of the alphabet) *)
Lemma va_b64_val_char_all : forallb (fun i => match va_b64_val (va_b64_char i) with Some j => j =? i | None => false end)
                                    (map N.of_nat (seq 0 64)) = true.
Proof. vm_compute. reflexivity. Qed.
Theorem va_b64_val_char i : i < 64 -> va_b64_val (va_b64_char i) = Some i.
Proof.
  intros H. pose proof va_b64_val_char_all as A. rewrite forallb_forall in A.
  specialize (A i). destruct (va_b64_val (va_b64_char i)) as [j|].
  - rewrite (proj1 (N.eqb_eq j i)); [reflexivity|]. apply A. apply in_map_iff. exists (N.to_nat i). split; [lia|]. apply in_seq. lia.
  - assert (false = true) as X; [|discriminate X]. apply A. apply in_map_iff. exists (N.to_nat i). split; [lia|]. apply in_seq. lia.
Qed.

(* ------------------------------------------------------------------------------------------ lists *)
Lemma existsb_eqb_true x (l:list N) : In x l -> existsb (N.eqb x) l = true.
Proof. intros H. apply existsb_exists. exists x. split; [exact H|apply N.eqb_refl]. Qed.
Lemma existsb_eqb_in x (l:list N) : existsb (N.eqb x) l = true -> In x l.
Proof. intros H. apply existsb_exists in H as (y & Hy & E). apply N.eqb_eq in E. subst. exact Hy. Qed.

Theorem va_ua_add_spec l x : (In x l /\ va_ua_add l x = l) \/ (~ In x l /\ va_ua_add l x = l ++ [x]).
Proof.
  unfold va_ua_add, av_ua_add. destruct (existsb (N.eqb x) l) eqn:E.
  - left. split; [apply existsb_eqb_in; exact E|reflexivity].
  - right. split; [|reflexivity]. intros H. apply existsb_eqb_true in H. congruence.
Qed.
Theorem va_ua_add_idempotent l x : va_ua_add (va_ua_add l x) x = va_ua_add l x.
Proof.
  destruct (va_ua_add_spec l x) as [[H ->]|[H ->]].
  - destruct (va_ua_add_spec l x) as [[_ E]|[N _]]; [exact E|contradiction].
  - destruct (va_ua_add_spec (l ++ [x]) x) as [[_ E]|[N _]]; [exact E|]. exfalso. apply N. apply in_or_app. right. left. reflexivity.
Qed.
(* order-preserving: the old elements stay where they are, a new one goes to the end *)
Theorem va_ua_add_prefix l x : exists t, va_ua_add l x = l ++ t /\ (t = [] \/ t = [x]).
Proof. destruct (va_ua_add_spec l x) as [[_ ->]|[_ ->]]; [exists []; rewrite app_nil_r; auto|exists [x]; auto]. Qed.
Theorem va_ua_add_in l x y : In y (va_ua_add l x) <-> In y l \/ y = x.
Proof.
  destruct (va_ua_add_spec l x) as [[H ->]|[H ->]].
  - split; [auto|]. intros [I| ->]; assumption.
  - rewrite in_app_iff. cbn [In]. split; [intros [I|[E|[]]]; auto|intros [I|E]; auto].
Qed.
Lemma NoDup_snoc (l:list N) x : NoDup l -> ~ In x l -> NoDup (l ++ [x]).
Proof.
  induction l as [|y l IH]; intros Hn Hx; cbn [app]; [constructor; [intros []|constructor]|].
  inversion Hn as [|? ? Hy Hn']; subst. constructor.
  - intros I. apply in_app_or in I as [I|[E|[]]]; [contradiction|]. apply Hx. left. symmetry. exact E.
  - apply IH; [exact Hn'|]. intros I. apply Hx. right. exact I.
Qed.
Theorem va_ua_add_nodup l x : NoDup l -> NoDup (va_ua_add l x).
Proof. intros H. destruct (va_ua_add_spec l x) as [[_ ->]|[Nx ->]]; [exact H|apply NoDup_snoc; assumption]. Qed.

(* From<&[u16]> = repeated add: no duplicates, the same members, first occurrences in their order *)
Lemma va_ua_fold_spec : forall v acc, NoDup acc ->
  NoDup (fold_left va_ua_add v acc) /\ (forall y, In y (fold_left va_ua_add v acc) <-> In y acc \/ In y v)
  /\ exists t, fold_left va_ua_add v acc = acc ++ t.
Proof.
  induction v as [|x v IH]; intros acc Hn; cbn [fold_left].
  - split; [exact Hn|]. split; [intros y; cbn [In]; tauto|exists []; rewrite app_nil_r; reflexivity].
  - destruct (IH (va_ua_add acc x) (va_ua_add_nodup acc x Hn)) as (I1 & I2 & (t & I3)). split; [exact I1|]. split.
    + intros y. rewrite I2, va_ua_add_in. cbn [In]. split; [intros [[A|A]|A]; auto|intros [A|[A|A]]; auto].
    + destruct (va_ua_add_prefix acc x) as (t' & E & _). rewrite I3, E, <- app_assoc. eexists. reflexivity.
Qed.
Theorem va_ua_from_nodup v : NoDup (va_ua_from v).
Proof. apply (va_ua_fold_spec v []). constructor. Qed.
Theorem va_ua_from_in v y : In y (va_ua_from v) <-> In y v.
Proof. destruct (va_ua_fold_spec v [] (NoDup_nil _)) as (_ & H & _). rewrite (H y). cbn [In]. tauto. Qed.
Lemma va_ua_fold_nodup : forall v acc, NoDup v -> (forall x, In x v -> ~ In x acc) -> fold_left va_ua_add v acc = acc ++ v.
Proof.
  induction v as [|x v IH]; intros acc Hn Hd; cbn [fold_left]; [rewrite app_nil_r; reflexivity|].
  inversion Hn as [|? ? Hx Hn']; subst.
  destruct (va_ua_add_spec acc x) as [[I _]|[_ ->]]; [exfalso; apply (Hd x); [left; reflexivity|exact I]|].
  rewrite IH; [rewrite <- app_assoc; reflexivity|exact Hn'|].
  intros y Hy I. apply in_app_or in I as [I|[<-|[]]]; [apply (Hd y); [right; exact Hy|exact I]|]. apply Hx. exact Hy.
Qed.
(* a list without duplicates is kept as it is; hence from is idempotent *)
Theorem va_ua_from_id v : NoDup v -> va_ua_from v = v.
Proof. intros H. unfold va_ua_from. rewrite va_ua_fold_nodup; [reflexivity|exact H|intros x _ []]. Qed.
Theorem va_ua_from_idempotent v : va_ua_from (va_ua_from v) = va_ua_from v.
Proof. apply va_ua_from_id. apply va_ua_from_nodup. Qed.
(* agreement with the codec model: decoding the encoding of ANY list of types gives the list From<&[u16]> builds *)
Lemma va_dec_uattrs_fold : forall l acc, Forall (fun x => x < 65536) l ->
  av_dec_uattrs (flat_map av_be16 l) acc = VOk (fold_left va_ua_add l acc).
Proof.
  induction l as [|x l IH]; intros acc Hf; [reflexivity|].
  inversion Hf as [|? ? Hx Hf']; subst.
  cbn [flat_map av_be16 av_be_n app av_dec_uattrs fold_left]. rewrite rd16_be16' by exact Hx. apply IH. exact Hf'.
Qed.
Theorem va_ua_from_codec hdr l : Forall (fun x => x < 65536) l ->
  av_dec_kind AvkUAttrs hdr (flat_map av_be16 l) = VOk (AvUAttrs (va_ua_from l)).
Proof.
  intros Hf. cbn [av_dec_kind]. rewrite len_flat_be16.
  replace (N.land (2 * len l) 1) with 0.
  - guards. rewrite va_dec_uattrs_fold by exact Hf. reflexivity.
  - change 1 with (N.ones 1). rewrite N.land_ones. change (2 ^ 1) with 2. lia.
Qed.
(* and the value it builds is one the codec round-trips *)
Theorem va_ua_from_wf l : Forall (fun x => x < 65536) l -> av_wf 0x000A (AvUAttrs (va_ua_from l)) = true.
Proof.
  intros Hf. change (av_wf 0x000A (AvUAttrs (va_ua_from l))) with (forallb (fun x => x <? 65536) (va_ua_from l) && av_nodup (va_ua_from l)).
  apply andb_true_intro. split.
  - apply forallb_forall. intros x Hx. apply (proj1 (va_ua_from_in l x)) in Hx. rewrite Forall_forall in Hf. apply N.ltb_lt. apply Hf. exact Hx.
  - pose proof (va_ua_from_nodup l) as Hn. induction Hn as [|x r Hx Hn IH]; [reflexivity|]. cbn [av_nodup].
    rewrite existsb_eqb_false by exact Hx. exact IH.
Qed.

(* PasswordAlgorithms: add appends, nothing is dropped or reordered *)
Lemma va_pa_fold : forall v acc, fold_left va_pa_add v acc = acc ++ v.
Proof. induction v as [|x v IH]; intros acc; cbn [fold_left]; [rewrite app_nil_r; reflexivity|]. rewrite IH. unfold va_pa_add. rewrite <- app_assoc. reflexivity. Qed.
Theorem va_pa_from_id v : va_pa_from v = v.
Proof. unfold va_pa_from. apply va_pa_fold. Qed.

(* ------------------------------------------------------------------------------------------ the numeric sweeps *)
Theorem va_num_case_np fn v : va_num_case fn v <> VPanic.
Proof.
  unfold va_num_case.
  destruct (fn =? 0). { apply va_bind_np; [apply va_msgtype_from_np|discriminate]. }
  destruct (fn =? 1).
  { apply va_bind_np; [apply va_method_try_from_np|]. intros m _. apply va_bind_np; [apply va_class_try_from_np|]. intros c _.
    apply va_bind_np; [apply va_msgtype_from_np|discriminate]. }
  destruct (fn =? 2). { apply va_bind_np; [apply va_method_try_from_np|discriminate]. }
  destruct (fn =? 3). { apply va_bind_np; [apply va_class_try_from_np|discriminate]. }
  destruct (fn =? 4). { apply va_bind_np; [apply va_family_try_from_np|discriminate]. }
  destruct (fn =? 5). { discriminate. }
  destruct (fn =? 6). { apply va_bind_np; [apply va_error_code_view_np|]. intros [[[a b] c] d] _. discriminate. }
  destruct (fn =? 7). { apply va_bind_np; [apply va_icmp_new_np; exact 0|discriminate]. }
  destruct (fn =? 8). { apply va_bind_np; [apply va_icmp_new_np; exact 0|discriminate]. }
  destruct (fn =? 9). { destruct (va_attrtype v) as [[a r] o]. discriminate. }
  destruct (fn =? 10). { discriminate. }
  destruct (fn =? 11). { apply va_bind_np; [apply va_padding_np|discriminate]. }
  destruct (fn =? 14). { discriminate. }
  destruct (fn =? 15). { discriminate. }
  destruct (fn =? 16). { discriminate. }
  destruct (fn =? 17). { discriminate. }
  destruct (fn =? 18); discriminate.
Qed.
(* ------------------------------------------------------------------------------------------ nonce cookie round trip *)
Theorem va_new_nonce_cookie_np value algs anon : va_new_nonce_cookie value algs anon <> VPanic.
Proof.
  unfold va_new_nonce_cookie. destruct algs, anon;
    (set (r := av_to (av_be32 _) 3); vm_compute in r; subst r; cbn [av_bind]; apply va_nonce_new_np).
Qed.

Lemma utf8_ascii_app : forall P v, Forall (fun c => c < 0x80) P ->
  av_utf8 (P ++ v) = match av_utf8 v with Some cs => Some (P ++ cs) | None => None end.
Proof.
  induction P as [|b P IH]; intros v F; cbn [app]; [destruct (av_utf8 v); reflexivity|].
  inversion F as [|? ? Hb F']; subst. rewrite av_utf8_cons_eq.
  destruct (N.ltb_spec b 0x80); [|lia]. rewrite IH by exact F'. destruct (av_utf8 v); reflexivity.
Qed.
Lemma utf8_len_le : forall n v cs, (length v <= n)%nat -> av_utf8 v = Some cs -> len cs <= len v.
Proof.
  induction n as [|n IH]; intros v cs Hn Hu.
  - destruct v; [|cbn in Hn; lia]. cbn in Hu. injection Hu as <-. lia.
  - destruct v as [|b0 r]; [cbn in Hu; injection Hu as <-; lia|].
    destruct (av_utf8_cons_inv _ _ _ Hu) as (c & cs' & h & t & -> & Ht & Eh & Hh & _).
    assert (Lt : len (b0 :: r) = len h + len t) by (rewrite Eh; apply len_app).
    assert (Hl : (length t <= n)%nat).
    { assert (length (b0 :: r) = (length h + length t)%nat) by (rewrite Eh; apply app_length).
      unfold len in Hh. cbn [length] in *. lia. }
    specialize (IH t cs' Hl Ht). rewrite len_cons. lia.
Qed.
Lemma skip_start_bound : forall a idx b p c b', av_skip_start idx (a ++ b) = Some p -> b = c :: b' -> av_removable c = false ->
  p <= idx + len a.
Proof.
  induction a as [|x a IH]; intros idx b p c b' H Eb Hc.
  - cbn [app] in H. subst b. cbn [av_skip_start] in H. rewrite Hc in H. injection H as <-. rewrite len_nil. lia.
  - cbn [app av_skip_start] in H. rewrite len_cons. destruct (av_removable x).
    + specialize (IH _ _ _ _ _ H Eb Hc). lia.
    + injection H as <-. lia.
Qed.
Lemma skip_trail_rev_bound : forall a idx b p c b', av_skip_trail_rev idx (a ++ b) = Some p -> b = c :: b' -> av_removable c = false ->
  p <= idx + len a.
Proof.
  induction a as [|x a IH]; intros idx b p c b' H Eb Hc.
  - cbn [app] in H. subst b. cbn [av_skip_trail_rev] in H. rewrite Hc in H. cbn [negb orb] in H. injection H as <-. rewrite len_nil. lia.
  - cbn [app av_skip_trail_rev] in H. rewrite len_cons. destruct (negb (av_removable x) || av_bs_odd (a ++ b)).
    + injection H as <-. lia.
    + specialize (IH _ _ _ _ _ H Eb Hc). lia.
Qed.
Lemma take_app_ge (P v:bytes) k : len P <= k -> take k (P ++ v) = P ++ take (k - len P) v.
Proof.
  intros H. unfold take, len in *. rewrite firstn_app. rewrite firstn_all2 by lia. f_equal. f_equal. lia.
Qed.
Lemma lead_ok_take v j : lead_ok v = true -> lead_ok (take j v) = true.
Proof. unfold take. destruct v as [|x v]; [rewrite firstn_nil; auto|]. destruct (N.to_nat j); [reflexivity|]. cbn [firstn lead_ok]. auto. Qed.

(* a constructor input that starts with 13 ASCII characters, the first and the last of which are not trimmed, keeps them *)
Lemma ctor_quoted_prefix P p0 P' pl Pr v q :
  P = p0 :: P' -> av_removable p0 = false -> rev P = pl :: Pr -> av_removable pl = false -> Forall (fun c => c < 0x80) P ->
  ctor_quoted (P ++ v) = VOk q -> exists w, q = P ++ w /\ lead_ok w = true.
Proof.
  intros EP Hp0 Erev Hpl FP. unfold ctor_quoted. rewrite utf8_ascii_app by exact FP.
  destruct (av_utf8 v) as [cs|] eqn:Ev; [|discriminate].
  assert (Hu : av_utf8 (P ++ v) = Some (P ++ cs)) by (rewrite utf8_ascii_app by exact FP; rewrite Ev; reflexivity).
  assert (Lv : lead_ok v = true) by (apply utf8_lead_ok; congruence).
  unfold av_formatted. destruct (_ && _); [discriminate|].
  assert (Es : av_skip_start 0 (P ++ cs) = Some 0) by (rewrite EP; cbn [app av_skip_start]; rewrite Hp0; reflexivity).
  rewrite Es. unfold av_str_from. change (av_is_boundary (P ++ v) 0) with true. cbn [av_bind]. rewrite drop_0.
  rewrite (av_chars_some _ _ Hu).
  destruct (av_skip_trail (P ++ cs)) as [p|] eqn:Et.
  - destruct (skip_trail_bytes _ _ _ Hu Et) as (T1 & T2).
    destruct (N.ltb_spec (len (P ++ v)) p); [lia|]. unfold av_str_to. rewrite T2.
    assert (Hp : p <= len v).
    { rewrite skip_trail_rev_eq, rev_app_distr in Et.
      pose proof (skip_trail_rev_bound _ _ _ _ _ _ Et Erev Hpl) as B. rewrite len_rev in B.
      pose proof (utf8_len_le _ _ _ (le_n _) Ev). lia. }
    destruct (509 <? _); [discriminate|]. intros E. injection E as <-.
    rewrite len_app in *. rewrite take_app_ge by lia. eexists. split; [reflexivity|]. apply lead_ok_take. exact Lv.
  - destruct (509 <? _); [discriminate|]. intros E. injection E as <-. exists v. auto.
Qed.

Definition cookie_prefix (algs anon:bool) : bytes :=
  va_cookie_header ++ va_b64_encode (take 3 (av_be32 ((if algs then 2147483648 else 0) + (if anon then 1073741824 else 0)))).
Lemma va_new_nonce_cookie_eq value algs anon : va_new_nonce_cookie value algs anon = ctor_quoted (cookie_prefix algs anon ++ value).
Proof.
  unfold va_new_nonce_cookie, cookie_prefix, va_nonce_new. rewrite av_to_ok by (destruct algs, anon; vm_compute; discriminate).
  cbn [av_bind]. rewrite <- app_assoc. reflexivity.
Qed.

(* Nonce::new_nonce_cookie(value, flags), whenever it succeeds, builds a nonce cookie whose security features are `flags` *)
Theorem va_nonce_cookie_roundtrip value algs anon q :
  va_new_nonce_cookie value algs anon = VOk q -> va_is_nonce_cookie q = true /\ va_security_features q = VOk (algs, anon).
Proof.
  rewrite va_new_nonce_cookie_eq. intros H.
  assert (E : exists w, q = cookie_prefix algs anon ++ w /\ lead_ok w = true).
  { destruct algs, anon;
      (eapply ctor_quoted_prefix; [vm_compute; reflexivity|reflexivity|vm_compute; reflexivity|reflexivity| |exact H];
       vm_compute; repeat constructor). }
  destruct E as (w & -> & Lw).
  assert (L13 : len (cookie_prefix algs anon) = 13) by (destruct algs, anon; reflexivity).
  assert (C : va_is_nonce_cookie (cookie_prefix algs anon ++ w) = true).
  { unfold va_is_nonce_cookie. apply andb_true_intro. split.
    - destruct algs, anon; vm_compute; reflexivity.
    - apply N.leb_le. rewrite len_app, L13. lia. }
  split; [exact C|]. unfold va_security_features. rewrite C. cbn [negb].
  assert (B13 : av_is_boundary (cookie_prefix algs anon ++ w) 13 = true).
  { apply boundary_char; [rewrite len_app; lia|]. rewrite <- L13, drop_len_app. exact Lw. }
  unfold va_str_get. rewrite B13, len_app, L13.
  destruct (N.leb_spec 13 (13 + len w)); [|lia]. cbn [andb N.leb].
  assert (B9 : av_is_boundary (cookie_prefix algs anon ++ w) 9 = true).
  { apply boundary_char; [rewrite len_app; lia|]. destruct algs, anon; reflexivity. }
  rewrite B9. change (9 <=? 13) with true. cbn [andb].
  destruct algs, anon; reflexivity.
Qed.
