(* Proofs about the value-type API model (Codec/ValueApi.v): placeholder, filled in below *)
From Coq Require Import List NArith Bool.
From Rustun Require Import Base.Tlv Codec.AttrValue Codec.ValueApi.
