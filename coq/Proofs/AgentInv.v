(* Client-core theorems on the full agent model (Agent/Model.v): the table / timer-list invariant, the capacity
   results (C12), the rejection results (C17) and the notification results (C11).
   Port of the prototype Agent/Client.v to the real `step`. *)
From Coq Require Import List NArith Lia Bool Arith Permutation.
Import ListNotations.
From Rustun Require Import Agent.Rto Agent.Model.
Open Scope N_scope.

(* ------------------------------------------------------------------ the invariant *)
Definition ids_t (t:list (txid*txn)) : list txid := map fst t.
Definition ids_h (h:list hent) : list txid := map h_id h.
Definition Inv (c:client) : Prop :=
  NoDup (ids_t (T c)) /\ NoDup (ids_h (H c)) /\ (forall id, In id (ids_h (H c)) <-> In id (ids_t (T c))).

Definition fresh_for (c:client) (o:op) : Prop :=
  match o with Send _ id _ _ _ _ => ~ In id (ids_t (T c)) | _ => True end.

Lemma inv_init cf m : Inv (init cf m).
Proof. unfold Inv, init; cbn [T H ids_t ids_h map]. repeat split; try constructor; intros HF; exact HF. Qed.

(* ------------------------------------------------------------------ list helpers *)
Lemma lookup_in id t : lookup id t <> None <-> In id (ids_t t).
Proof.
  induction t as [|[k v] r IH]; cbn [lookup ids_t map fst In]; [tauto|].
  destruct (N.eqb_spec k id) as [E|E]; subst; [split; [auto|discriminate]|].
  rewrite IH. split; [auto|intros [HE|HI]; [contradiction|auto]].
Qed.
Lemma lookup_some_in id t x : lookup id t = Some x -> In id (ids_t t).
Proof. intros Hl. apply lookup_in. congruence. Qed.
Lemma lookup_none_notin id t : lookup id t = None <-> ~ In id (ids_t t).
Proof.
  split.
  - intros Hl Hin. apply lookup_in in Hin. contradiction.
  - intros Hni. destruct (lookup id t) eqn:Hl; [|reflexivity]. exfalso. apply Hni. eapply lookup_some_in; exact Hl.
Qed.

Lemma ids_remove_t id t : forall x, In x (ids_t (remove_t id t)) <-> In x (ids_t t) /\ x <> id.
Proof.
  intros x. unfold ids_t, remove_t. rewrite in_map_iff. split.
  - intros ((k,v) & <- & Hin). apply filter_In in Hin as [Hin Hb]. cbn [fst] in *.
    split; [apply in_map_iff; exists (k,v); auto|]. apply negb_true_iff, N.eqb_neq in Hb. exact Hb.
  - intros [Hin Hne]. apply in_map_iff in Hin as ((k,v) & <- & Hin). exists (k,v). split; [reflexivity|].
    apply filter_In. split; [exact Hin|]. cbn [fst] in *. apply negb_true_iff, N.eqb_neq. exact Hne.
Qed.
Lemma ids_remove_h id h : forall x, In x (ids_h (remove_h id h)) <-> In x (ids_h h) /\ x <> id.
Proof.
  intros x. unfold ids_h, remove_h. rewrite in_map_iff. split.
  - intros (e & <- & Hin). apply filter_In in Hin as [Hin Hb].
    split; [apply in_map_iff; exists e; auto|]. apply negb_true_iff, N.eqb_neq in Hb. exact Hb.
  - intros [Hin Hne]. apply in_map_iff in Hin as (e & <- & Hin). exists e. split; [reflexivity|].
    apply filter_In. split; [exact Hin|]. apply negb_true_iff, N.eqb_neq. exact Hne.
Qed.
Lemma NoDup_map_filter {A B} (f:A->B) p (l:list A) : NoDup (map f l) -> NoDup (map f (filter p l)).
Proof.
  induction l as [|a l IH]; cbn [map filter]; [auto|]. intros Hnd. inversion Hnd as [|? ? Hni Hnd']; subst.
  destruct (p a); cbn [map]; [constructor|]; auto.
  intros Hin. apply Hni. apply in_map_iff in Hin as (x & Hx & Hin). apply filter_In in Hin as [Hin _].
  apply in_map_iff. exists x; auto.
Qed.
Lemma ids_update_t id v t : ids_t (update_t id v t) = ids_t t.
Proof.
  unfold ids_t. induction t as [|[k x] r IH]; cbn [update_t map fst]; [reflexivity|].
  destruct (k =? id); cbn [map fst]; [reflexivity|]. f_equal. exact IH.
Qed.
Lemma length_update_t id v t : length (update_t id v t) = length t.
Proof.
  induction t as [|[k x] r IH]; cbn [update_t length]; [reflexivity|].
  destruct (k =? id); cbn [length]; [reflexivity|]. f_equal. exact IH.
Qed.
Lemma length_remove_t_le id t : (length (remove_t id t) <= length t)%nat.
Proof.
  unfold remove_t. induction t as [|[k v] r IH]; cbn [filter length fst]; [lia|].
  destruct (k =? id); cbn [negb length]; lia.
Qed.
Lemma remove_t_notin id t : ~ In id (ids_t t) -> remove_t id t = t.
Proof.
  unfold remove_t, ids_t. induction t as [|[k v] r IH]; cbn [filter map fst In]; [reflexivity|].
  intros Hni. destruct (N.eqb_spec k id) as [E|E]; cbn [negb].
  - exfalso. apply Hni. left. exact E.
  - f_equal. apply IH. intros Hin. apply Hni. right. exact Hin.
Qed.
Lemma length_remove_t_in id t : NoDup (ids_t t) -> In id (ids_t t) -> (length (remove_t id t) + 1 = length t)%nat.
Proof.
  unfold ids_t. induction t as [|[k v] r IH]; cbn [map fst In]; [intros _ []|].
  intros Hnd Hin. inversion Hnd as [|? ? Hni Hnd']; subst.
  unfold remove_t. cbn [filter fst]. fold (remove_t id r).
  destruct (N.eqb_spec k id) as [E|E]; cbn [negb length].
  - subst k. rewrite remove_t_notin by exact Hni. unfold txid in *. lia.
  - destruct Hin as [Hk|Hin]; [contradiction|]. specialize (IH Hnd' Hin). unfold txid in *. lia.
Qed.

Lemma filter_split_perm {A} (p:A->bool) (l:list A) :
  Permutation l (filter (fun x => negb (p x)) l ++ filter p l).
Proof.
  induction l as [|a l IH]; cbn [filter app]; [constructor|]. destruct (p a); cbn [negb app].
  - apply Permutation_cons_app. exact IH.
  - constructor. exact IH.
Qed.

Lemma class_eqb_eq a b : class_eqb a b = true <-> a = b.
Proof. destruct a, b; cbn; split; intros HE; try reflexivity; try discriminate. Qed.
Lemma class_eqb_refl a : class_eqb a a = true.
Proof. apply class_eqb_eq. reflexivity. Qed.

(* ------------------------------------------------------------------ the credential mechanisms, as far as the core needs them *)
(* what a mechanism verdict may do to the marker list when it rejects *)
Definition mk_rej (rel:bool) (mk:list txid) (m:msg) (mk':list txid) : Prop :=
  mk' = mk \/ (rel = false /\ mk' = ins (m_id m) mk).

Lemma discard_message_spec rel mk m e mk' :
  discard_message rel mk m = (e, mk') ->
  (e = EDiscarded -> mk_rej rel mk m mk') /\ (m_class m = CIndication -> e = EDiscarded).
Proof.
  unfold discard_message, mk_rej. destruct (class_eqb (m_class m) CIndication) eqn:Hc.
  - intros HE; inversion HE; subst. split; auto.
  - assert (Hn : m_class m <> CIndication) by (intros HE; apply class_eqb_eq in HE; congruence).
    destruct rel; intros HE; inversion HE; subst; split; auto; try discriminate; intros HC; contradiction.
Qed.

Lemma compute_mi_spec rel mk key i m e mk' :
  compute_mi rel mk key i m = (e, mk') ->
  (e = Some EDiscarded -> mk_rej rel mk m mk') /\ (m_class m = CIndication -> e = None \/ e = Some EDiscarded).
Proof.
  unfold compute_mi. destruct i as [a|].
  - destruct (keyd_eqb (mac_key a) key).
    + intros HE; inversion HE; subst. split; [discriminate|auto].
    + destruct (discard_message rel mk m) as [e0 mk0] eqn:Hd. apply discard_message_spec in Hd as [Hd1 Hd2].
      intros HE; inversion HE; subst. split.
      * intros HS; inversion HS; subst. auto.
      * intros HC. right. rewrite (Hd2 HC). reflexivity.
  - destruct (discard_message rel mk m) as [e0 mk0] eqn:Hd. apply discard_message_spec in Hd as [Hd1 Hd2].
    intros HE; inversion HE; subst. split.
    + intros HS; inversion HS; subst. auto.
    + intros HC. right. rewrite (Hd2 HC). reflexivity.
Qed.

Lemma mk_rej_refl rel mk m : mk_rej rel mk m mk.
Proof. left. reflexivity. Qed.

Lemma st_recv_spec rel mk s m e mk' s' :
  st_recv rel mk s m = (e, mk', s') ->
  (e = Some EDiscarded -> s' = s /\ mk_rej rel mk m mk') /\ (m_class m = CIndication -> e = None \/ e = Some EDiscarded).
Proof.
  unfold st_recv. destruct (class_eqb (m_class m) CRequest).
  { intros HE; inversion HE; subst. split; [intros _; split; [reflexivity|apply mk_rej_refl]|auto]. }
  destruct (st_scan _ _ None None) as [[mi sha]|].
  2:{ intros HE; inversion HE; subst. split; [intros _; split; [reflexivity|apply mk_rej_refl]|auto]. }
  destruct (st_agreed s) as [v|].
  - destruct (compute_mi rel mk (KST 0) (match v with IMI => mi | ISHA => sha end) m) as [e0 mk0] eqn:Hc.
    apply compute_mi_spec in Hc as [Hc1 Hc2]. intros HE; inversion HE; subst. split; [|exact Hc2].
    intros HS. split; [reflexivity|apply Hc1; exact HS].
  - destruct (compute_mi rel mk (KST 0) (match mi with Some _ => mi | None => sha end) m) as [e0 mk0] eqn:Hc.
    apply compute_mi_spec in Hc as [Hc1 Hc2]. destruct e0 as [e1|].
    + intros HE; inversion HE; subst. split; [|exact Hc2]. intros HS. split; [reflexivity|apply Hc1; exact HS].
    + destruct (negb (class_eqb (m_class m) CIndication)); [destruct (match mi with Some _ => mi | None => sha end)|];
        intros HE; inversion HE; subst; (split; [discriminate|auto]).
Qed.

Lemma authenticate_spec rel mk key i m mi sha e mk' :
  authenticate rel mk key i m mi sha = (e, mk') ->
  (e = Some EDiscarded -> mk_rej rel mk m mk') /\ (m_class m = CIndication -> e = None \/ e = Some EDiscarded).
Proof. unfold authenticate. apply compute_mi_spec. Qed.

Lemma lt_error_spec rel mk s m e mk' s' :
  lt_error rel mk s m = (e, mk', s') -> e = Some EDiscarded -> s' = s /\ mk_rej rel mk m mk'.
Proof.
  unfold lt_error.
  destruct (harvest_all harvest0 (rfc_filter (m_attrs m))) as [h|]; [|intros HE; inversion HE; subst; discriminate].
  destruct (h_bit_algs h && _); [intros HE; inversion HE; subst; discriminate|].
  destruct (h_code h) as [code|]; [|intros HE; inversion HE; subst; intros _; split; [reflexivity|apply mk_rej_refl]].
  destruct (code =? 401).
  { destruct (make_params h) as [p|]; [|intros HE; inversion HE; subst; intros _; split; [reflexivity|apply mk_rej_refl]].
    destruct (has (h_mi h) || has (h_sha h)); [|intros HE; inversion HE; subst; discriminate].
    destruct (authenticate rel mk (p_key p) (p_integ p) m (h_mi h) (h_sha h)) as [[e0|] mk0] eqn:Ha;
      intros HE; inversion HE; subst; [|discriminate].
    intros HS. split; [reflexivity|]. apply authenticate_spec in Ha as [Ha _]. apply Ha. exact HS. }
  destruct (code =? 438).
  { destruct (h_nonce h) as [n|]; [|intros HE; inversion HE; subst; intros _; split; [reflexivity|apply mk_rej_refl]].
    destruct (lt_pr s) as [p|]; [|intros HE; inversion HE; subst; intros _; split; [reflexivity|apply mk_rej_refl]].
    destruct (has (h_mi h) || has (h_sha h)); [|intros HE; inversion HE; subst; discriminate].
    destruct (authenticate rel mk (p_key p) (p_integ p) m (h_mi h) (h_sha h)) as [[e0|] mk0] eqn:Ha;
      intros HE; inversion HE; subst; [|discriminate].
    intros HS. split; [reflexivity|]. apply authenticate_spec in Ha as [Ha _]. apply Ha. exact HS. }
  destruct (lt_pr s) as [p|]; [|intros HE; inversion HE; subst; intros _; split; [reflexivity|apply mk_rej_refl]].
  destruct (authenticate rel mk (p_key p) (p_integ p) m (h_mi h) (h_sha h)) as [e0 mk0] eqn:Ha.
  intros HE; inversion HE; subst. intros HS. split; [reflexivity|]. apply authenticate_spec in Ha as [Ha _]. apply Ha. exact HS.
Qed.

Lemma lt_success_spec rel mk s m e mk' s' :
  lt_success rel mk s m = (e, mk', s') -> e = Some EDiscarded -> s' = s /\ mk_rej rel mk m mk'.
Proof.
  unfold lt_success.
  destruct (lt_pr s) as [p|]; [|intros HE; inversion HE; subst; intros _; split; [reflexivity|apply mk_rej_refl]].
  destruct (succ_scan _ _ None None) as [[mi sha]|]; [|intros HE; inversion HE; subst; intros _; split; [reflexivity|apply mk_rej_refl]].
  destruct (authenticate rel mk (p_key p) (p_integ p) m mi sha) as [e0 mk0] eqn:Ha.
  intros HE; inversion HE; subst. intros HS. split; [reflexivity|]. apply authenticate_spec in Ha as [Ha _]. apply Ha. exact HS.
Qed.

Lemma lt_recv_spec rel mk s m e mk' s' :
  lt_recv rel mk s m = (e, mk', s') ->
  (e = Some EDiscarded -> s' = s /\ mk_rej rel mk m mk') /\ (m_class m = CIndication -> e = None \/ e = Some EDiscarded).
Proof.
  unfold lt_recv. destruct (m_class m) eqn:Hc.
  - intros HE; inversion HE; subst. split; [intros _; split; [reflexivity|apply mk_rej_refl]|auto].
  - intros HE; inversion HE; subst. split; [intros _; split; [reflexivity|apply mk_rej_refl]|auto].
  - destruct (lt_success rel mk s m) as [[[e0|] mk0] s0] eqn:Hs; intros HE; inversion HE; subst.
    + split; [|discriminate]. intros HS. eapply lt_success_spec; [exact Hs|exact HS].
    + split; discriminate.
  - destruct (lt_error rel mk s m) as [[[e0|] mk0] s0] eqn:Hs; intros HE; inversion HE; subst.
    + split; [|discriminate]. intros HS. eapply lt_error_spec; [exact Hs|exact HS].
    + split; discriminate.
Qed.

(* the mechanism dispatch of `step` (Recv) *)
Definition mech_step (rel:bool) (mk:list txid) (mc:mech) (m:msg) : option ierr * list txid * mech :=
  match mc with
  | MNone => (None, mk, MNone)
  | MST s => let '(e, mk', s') := st_recv rel mk s m in (e, mk', MST s')
  | MLT s => let '(e, mk', s') := lt_recv rel mk s m in (e, mk', MLT s')
  end.

Lemma mech_step_spec rel mk mc m e mk' mc' :
  mech_step rel mk mc m = (e, mk', mc') ->
  (e = Some EDiscarded -> mc' = mc /\ mk_rej rel mk m mk') /\ (m_class m = CIndication -> e = None \/ e = Some EDiscarded).
Proof.
  unfold mech_step. destruct mc as [|s|s].
  - intros HE; inversion HE; subst. split; [discriminate|auto].
  - destruct (st_recv rel mk s m) as [[e0 mk0] s0] eqn:Hs. apply st_recv_spec in Hs as [Hs1 Hs2].
    intros HE; inversion HE; subst. split; [|exact Hs2]. intros HS. destruct (Hs1 HS) as [-> Hm]. split; [reflexivity|exact Hm].
  - destruct (lt_recv rel mk s m) as [[e0 mk0] s0] eqn:Hs. apply lt_recv_spec in Hs as [Hs1 Hs2].
    intros HE; inversion HE; subst. split; [|exact Hs2]. intros HS. destruct (Hs1 HS) as [-> Hm]. split; [reflexivity|exact Hm].
Qed.

(* ------------------------------------------------------------------ the shape of each kind of step *)
Definition wmsg (w:msg) : msg :=
  {| m_class := m_class w; m_method := m_method w; m_id := m_id w; m_attrs := rfc_filter (m_attrs w) |}.

(* the event of a response that the mechanism did not discard *)
Definition resp_event (m:msg) (ev:event) : Prop :=
  ev = Received m \/ ev = Retry (m_id m) \/ exists rs, ev = Failed (m_id m) rs.

Lemma prepare_not_maxout c b app e : prepare c b app = inr e -> e = RInternal \/ e = RIgnored.
Proof.
  unfold prepare. destruct (mech_ c) as [|s|s].
  - discriminate.
  - discriminate.
  - destruct b; [destruct (lt_prepare s (of_list app))|]; intros HE; inversion HE; auto.
Qed.

Lemma step_send_cases c now id r method app room :
  (exists rep, step c (Send now id r method app room) = (c, rep, []) /\ (forall x, rep <> ROk x)
               /\ (rep = RMaxOut <-> limit (cfg c) <= N.of_nat (length (T c))))
  \/ (exists a d m1,
        N.of_nat (length (T c)) < limit (cfg c)
        /\ prepare c true app = inl (Some a) /\ next_rto (new_mgr c r) now = (Some d, m1)
        /\ step c (Send now id r method app room) =
           (with_TH c ((id, {| inst := Some now; pkt := {| m_class := CRequest; m_method := method; m_id := id; m_attrs := flatten a |}; tm := m1 |}) :: T c)
                      ((now, d, id) :: H c),
            ROk (Some id),
            Out id true {| m_class := CRequest; m_method := method; m_id := id; m_attrs := flatten a |} :: notif ((now, d, id) :: H c) now)).
Proof.
  cbn [step]. destruct (N.leb_spec (limit (cfg c)) (N.of_nat (length (T c)))) as [Hle|Hlt].
  { left. exists RMaxOut. split; [reflexivity|]. split; [discriminate|]. split; auto. }
  destruct (prepare c true app) as [[a|]|e] eqn:Hp.
  - destruct room; cbn [negb].
    + destruct (next_rto (new_mgr c r) now) as [[d|] m1] eqn:Hn.
      * right. exists a, d, m1. auto.
      * left. exists RInternal. split; [reflexivity|]. split; [discriminate|]. split; [discriminate|lia].
    + left. exists RInternal. split; [reflexivity|]. split; [discriminate|]. split; [discriminate|lia].
  - left. exists RInternal. split; [reflexivity|]. split; [discriminate|]. split; [discriminate|lia].
  - left. exists e. split; [reflexivity|]. apply prepare_not_maxout in Hp.
    split; [destruct Hp; subst; discriminate|]. split; [destruct Hp; subst; discriminate|lia].
Qed.

Lemma step_indication_cases c id method app room :
  (exists rep, step c (Indication id method app room) = (c, rep, []))
  \/ (exists a, step c (Indication id method app room) =
        (c, ROk (Some id), [Out id true {| m_class := CIndication; m_method := method; m_id := id; m_attrs := flatten a |}])).
Proof.
  cbn [step]. destruct (prepare c false app) as [[a|]|e].
  - destruct room; cbn [negb]; [right; exists a; reflexivity|left; eexists; reflexivity].
  - left; eexists; reflexivity.
  - left; eexists; reflexivity.
Qed.

Definition recv_tail (c:client) (m:msg) (r:option ierr * list txid * mech) : client * reply * list event :=
  let '(e, mk, mech') := r in
  match e with
  | Some EDiscarded => (with_mech c mech' mk, RDiscarded, [])
  | _ =>
      let ev := match e with
                | Some EViolated => Failed (m_id m) ProtectionViolated
                | Some ERetry => Retry (m_id m)
                | Some ENotRetryable => Failed (m_id m) DoNotRetry
                | _ => Received m
                end in
      let c1 := with_mech c mech' mk in
      if class_eqb (m_class m) CIndication then (c1, ROk None, [ev])
      else (with_TH c1 (remove_t (m_id m) (T c1)) (remove_h (m_id m) (H c1)), ROk None, [ev])
  end.

Lemma step_recv_eq c now w :
  step c (Recv now true w) =
  let m := wmsg w in
  if class_eqb (m_class m) CRequest then (c, RDiscarded, [])
  else if is_response m && (match lookup (m_id m) (T c) with None => true | Some _ => false end) then (c, RDiscarded, [])
  else
    let fp := find a_is_fp (m_attrs m) in
    if use_fp (cfg c) && (match fp with None => true | Some _ => false end) then (c, RStunCheck, [])
    else if use_fp (cfg c) && (match fp with Some (AFP true) => false | _ => true end) then (c, RDiscarded, [])
    else recv_tail c m (mech_step (reliable (cfg c)) (markers c) (mech_ c) m).
Proof. unfold recv_tail, mech_step. cbn [step negb]. fold (wmsg w). destruct (mech_ c); reflexivity. Qed.

Lemma step_recv_cases c now d w :
  (exists rep, step c (Recv now d w) = (c, rep, []) /\ rep <> ROk None)
  \/ (exists mk, step c (Recv now d w) = (with_mech c (mech_ c) mk, RDiscarded, [])
                 /\ mk_rej (reliable (cfg c)) (markers c) w mk)
  \/ (m_class w = CIndication /\ exists mech' mk,
        step c (Recv now d w) = (with_mech c mech' mk, ROk None, [Received (wmsg w)]))
  \/ (is_response w = true /\ (exists x, lookup (m_id w) (T c) = Some x) /\ exists mech' mk ev,
        step c (Recv now d w) =
          (with_TH (with_mech c mech' mk) (remove_t (m_id w) (T c)) (remove_h (m_id w) (H c)), ROk None, [ev])
        /\ resp_event (wmsg w) ev).
Proof.
  destruct d; [|left; exists RInternal; split; [reflexivity|discriminate]].
  rewrite step_recv_eq. cbv zeta. unfold is_response. cbn [wmsg m_class m_id m_attrs].
  destruct (class_eqb (m_class w) CRequest) eqn:Hreq; [left; exists RDiscarded; split; [reflexivity|discriminate]|].
  destruct ((match m_class w with CSuccess | CError => true | _ => false end) && _) eqn:Hlk;
    [left; exists RDiscarded; split; [reflexivity|discriminate]|].
  destruct (use_fp (cfg c) && match find a_is_fp (rfc_filter (m_attrs w)) with None => true | Some _ => false end);
    [left; exists RStunCheck; split; [reflexivity|discriminate]|].
  destruct (use_fp (cfg c) && _); [left; exists RDiscarded; split; [reflexivity|discriminate]|].
  destruct (mech_step (reliable (cfg c)) (markers c) (mech_ c) (wmsg w)) as [[e mk] mech'] eqn:Hm.
  apply mech_step_spec in Hm as [Hm1 Hm2]. cbn [wmsg m_class m_id] in Hm1, Hm2.
  assert (Hrej : mk_rej (reliable (cfg c)) (markers c) (wmsg w) mk -> mk_rej (reliable (cfg c)) (markers c) w mk)
    by (unfold mk_rej; cbn [wmsg m_id]; auto).
  unfold recv_tail. cbn [wmsg m_class m_id].
  destruct (m_class w) eqn:Hc; cbn [class_eqb] in *.
  - discriminate.
  - (* indication *)
    destruct (Hm2 eq_refl) as [->| ->].
    + right; right; left. split; [reflexivity|]. exists mech', mk. reflexivity.
    + right; left. destruct (Hm1 eq_refl) as [-> Hk]. exists mk. split; [reflexivity|]. apply Hrej. exact Hk.
  - (* success *)
    cbn [andb] in Hlk. destruct (lookup (m_id w) (T c)) as [x|] eqn:Hl; [|discriminate].
    destruct e as [[| | |]|].
    + right; left. destruct (Hm1 eq_refl) as [-> Hk]. exists mk. split; [reflexivity|]. apply Hrej. exact Hk.
    + right; right; right. split; [reflexivity|]. split; [exists x; reflexivity|]. exists mech', mk. eexists. split; [reflexivity|].
      right; right. eexists; reflexivity.
    + right; right; right. split; [reflexivity|]. split; [exists x; reflexivity|]. exists mech', mk. eexists. split; [reflexivity|].
      right; right. eexists; reflexivity.
    + right; right; right. split; [reflexivity|]. split; [exists x; reflexivity|]. exists mech', mk. eexists. split; [reflexivity|].
      right; left. reflexivity.
    + right; right; right. split; [reflexivity|]. split; [exists x; reflexivity|]. exists mech', mk. eexists. split; [reflexivity|].
      left. reflexivity.
  - (* error *)
    cbn [andb] in Hlk. destruct (lookup (m_id w) (T c)) as [x|] eqn:Hl; [|discriminate].
    destruct e as [[| | |]|].
    + right; left. destruct (Hm1 eq_refl) as [-> Hk]. exists mk. split; [reflexivity|]. apply Hrej. exact Hk.
    + right; right; right. split; [reflexivity|]. split; [exists x; reflexivity|]. exists mech', mk. eexists. split; [reflexivity|].
      right; right. eexists; reflexivity.
    + right; right; right. split; [reflexivity|]. split; [exists x; reflexivity|]. exists mech', mk. eexists. split; [reflexivity|].
      right; right. eexists; reflexivity.
    + right; right; right. split; [reflexivity|]. split; [exists x; reflexivity|]. exists mech', mk. eexists. split; [reflexivity|].
      right; left. reflexivity.
    + right; right; right. split; [reflexivity|]. split; [exists x; reflexivity|]. exists mech', mk. eexists. split; [reflexivity|].
      left. reflexivity.
Qed.

(* ------------------------------------------------------------------ Inv is preserved *)
Lemma inv_with_mech c m mk : Inv c -> Inv (with_mech c m mk).
Proof. intros Hi. exact Hi. Qed.

Lemma inv_remove c c' id : Inv c -> T c' = remove_t id (T c) -> H c' = remove_h id (H c) -> Inv c'.
Proof.
  intros (Ht & Hh & Heq) HT HH. unfold Inv. rewrite HT, HH. refine (conj _ (conj _ _)).
  - apply NoDup_map_filter; exact Ht.
  - apply NoDup_map_filter; exact Hh.
  - intros x; split; intros Hin.
    + apply ids_remove_h in Hin as [Hin Hne]. apply ids_remove_t. split; [apply Heq; exact Hin|exact Hne].
    + apply ids_remove_t in Hin as [Hin Hne]. apply ids_remove_h. split; [apply Heq; exact Hin|exact Hne].
Qed.

Lemma inv_recv c now d w : Inv c -> Inv (fst (fst (step c (Recv now d w)))).
Proof.
  intros Hi.
  destruct (step_recv_cases c now d w) as [(rep & -> & _)|[(mk & -> & _)|[(_ & mech' & mk & ->)|(_ & _ & mech' & mk & ev & -> & _)]]];
    cbn [fst]; try exact Hi.
  eapply inv_remove; [exact Hi|reflexivity|reflexivity].
Qed.

Lemma inv_indication c id method app room : Inv c -> Inv (fst (fst (step c (Indication id method app room)))).
Proof.
  intros Hi. destruct (step_indication_cases c id method app room) as [(rep & ->)|(a & ->)]; exact Hi.
Qed.

Lemma inv_send c now id r method app room :
  Inv c -> ~ In id (ids_t (T c)) -> Inv (fst (fst (step c (Send now id r method app room)))).
Proof.
  intros (Ht & Hh & Heq) Hfresh.
  destruct (step_send_cases c now id r method app room) as [(rep & -> & _)|(a & d & m1 & _ & _ & _ & ->)]; cbn [fst].
  - exact (conj Ht (conj Hh Heq)).
  - unfold Inv, with_TH. cbn [T H ids_t ids_h map fst h_id snd]. refine (conj _ (conj _ _)).
    + constructor; assumption.
    + constructor; [|assumption]. intros Hin. apply Hfresh. apply Heq. exact Hin.
    + intros x; split; (intros [->|Hin]; [left; reflexivity|right; apply Heq; exact Hin]).
Qed.

(* on_timeout: one-step lemma for the fold *)
Definition TInv (t:list (txid*txn)) (h:list hent) (pending:list txid) : Prop :=
  NoDup (ids_t t) /\ NoDup (ids_h h ++ pending) /\ (forall id, In id (ids_h h ++ pending) <-> In id (ids_t t)).

Lemma tmo_one_inv now t h mk ev id pending :
  TInv t h (id :: pending) ->
  let '(t', h', _, _) := tmo_one now (t, h, mk, ev) id in TInv t' h' pending.
Proof.
  intros (Ht & Hnd & Heq). unfold tmo_one.
  assert (Hin_t : In id (ids_t t)) by (apply Heq; apply in_or_app; right; left; reflexivity).
  destruct (lookup id t) as [x|] eqn:Hl; [|exfalso; apply lookup_in in Hin_t; congruence].
  apply NoDup_remove in Hnd as [Hnd Hni].
  destruct (next_rto (tm x) now) as [[d|] m'].
  - refine (conj _ (conj _ _)).
    + rewrite ids_update_t. exact Ht.
    + cbn [ids_h map h_id snd app]. constructor; assumption.
    + intros y. rewrite ids_update_t. cbn [ids_h map h_id snd app In]. split.
      * intros [->|Hin]; [exact Hin_t|].
        apply Heq. apply in_app_or in Hin as [Hin|Hin]; apply in_or_app; [left|right; right]; assumption.
      * intros Hin. apply Heq in Hin.
        apply in_app_or in Hin as [Hin|[->|Hin]]; [right; apply in_or_app; left|left|right; apply in_or_app; right]; auto.
  - refine (conj _ (conj _ _)).
    + apply NoDup_map_filter; exact Ht.
    + exact Hnd.
    + intros y; split.
      * intros Hin. apply ids_remove_t. split.
        -- apply Heq. apply in_app_or in Hin as [Hin|Hin]; apply in_or_app; [left|right; right]; assumption.
        -- intros ->. contradiction.
      * intros Hin. apply ids_remove_t in Hin as [Hin Hne]. apply Heq in Hin.
        apply in_app_or in Hin as [Hin|[Hin|Hin]];
          [apply in_or_app; left; assumption|congruence|apply in_or_app; right; assumption].
Qed.

Lemma tmo_fold_inv now : forall pending t h mk ev,
  TInv t h pending ->
  let '(t', h', _, _) := fold_left (tmo_one now) pending (t, h, mk, ev) in TInv t' h' [].
Proof.
  induction pending as [|id pending IH]; intros t h mk ev Hinv; cbn [fold_left]; [exact Hinv|].
  pose proof (tmo_one_inv now t h mk ev id pending Hinv) as H1.
  destruct (tmo_one now (t, h, mk, ev) id) as [[[t1 h1] mk1] ev1]. apply IH. exact H1.
Qed.

(* the split of the timer list at `now` satisfies the fold invariant *)
Lemma tinv_split c now : Inv c ->
  TInv (T c) (filter (fun e => negb (h_exp e <=? now)) (H c)) (map h_id (filter (fun e => h_exp e <=? now) (H c))).
Proof.
  intros (Ht & Hh & Heq).
  set (due := filter (fun e => h_exp e <=? now) (H c)).
  set (keep := filter (fun e => negb (h_exp e <=? now)) (H c)).
  assert (Hperm : Permutation (ids_h (H c)) (ids_h keep ++ map h_id due)).
  { unfold ids_h. rewrite <- map_app. apply Permutation_map. apply filter_split_perm. }
  refine (conj Ht (conj _ _)).
  - eapply Permutation_NoDup; [exact Hperm|exact Hh].
  - intros x; split; intros Hin.
    + apply Heq. eapply Permutation_in; [symmetry; exact Hperm|exact Hin].
    + eapply Permutation_in; [exact Hperm|]. apply Heq. exact Hin.
Qed.

Lemma tinv_nil_inv c t h : TInv t h [] -> T c = t -> H c = h -> Inv c.
Proof.
  intros (A & B & C) HT HH. unfold Inv. rewrite HT, HH. rewrite app_nil_r in B. refine (conj A (conj B _)).
  intros x. specialize (C x). rewrite app_nil_r in C. exact C.
Qed.

Lemma inv_tmo c now : Inv c -> Inv (fst (fst (step c (Tmo now)))).
Proof.
  intros Hi. cbn [step].
  pose proof (tmo_fold_inv now _ _ _ (markers c) [] (tinv_split c now Hi)) as Hf.
  destruct (fold_left (tmo_one now) _ (T c, _, markers c, [])) as [[[t' h'] mk'] ev]. cbn [fst].
  eapply tinv_nil_inv; [exact Hf|reflexivity|reflexivity].
Qed.

Theorem inv_step c o : Inv c -> fresh_for c o -> Inv (fst (fst (step c o))).
Proof.
  intros Hi Hf. destruct o as [now id r method app room|id method app room|now d w|now].
  - apply inv_send; assumption.
  - apply inv_indication; assumption.
  - apply inv_recv; assumption.
  - apply inv_tmo; assumption.
Qed.

(* ------------------------------------------------------------------ C12: capacity *)
Theorem refuse_iff c now id r method app room :
  N.of_nat (length (T c)) <= limit (cfg c) ->
  (snd (fst (step c (Send now id r method app room))) = RMaxOut <-> N.of_nat (length (T c)) = limit (cfg c)).
Proof.
  intros Hle.
  destruct (step_send_cases c now id r method app room) as [(rep & -> & _ & Hiff)|(a & d & m1 & Hlt & _ & _ & ->)]; cbn [fst snd].
  - rewrite Hiff. clear - Hle. lia.
  - split; [discriminate|]. clear - Hlt. lia.
Qed.

Theorem refusal_noop c now id r method app room :
  snd (fst (step c (Send now id r method app room))) = RMaxOut ->
  step c (Send now id r method app room) = (c, RMaxOut, []).
Proof.
  destruct (step_send_cases c now id r method app room) as [(rep & -> & _ & _)|(a & d & m1 & _ & _ & _ & ->)]; cbn [fst snd].
  - intros ->. reflexivity.
  - discriminate.
Qed.

(* a refused Send is refused because the table is full; a Send below capacity is never refused for capacity *)
Theorem refused_only_when_full c now id r method app room :
  snd (fst (step c (Send now id r method app room))) = RMaxOut <-> limit (cfg c) <= N.of_nat (length (T c)).
Proof.
  destruct (step_send_cases c now id r method app room) as [(rep & -> & _ & Hiff)|(a & d & m1 & Hlt & _ & _ & ->)]; cbn [fst snd].
  - exact Hiff.
  - split; [discriminate|]. clear - Hlt. lia.
Qed.

Lemma tmo_one_length now t h mk ev id :
  let '(t', _, _, _) := tmo_one now (t, h, mk, ev) id in (length t' <= length t)%nat.
Proof.
  unfold tmo_one. destruct (lookup id t) as [x|]; [|lia].
  destruct (next_rto (tm x) now) as [[d|] m'].
  - rewrite length_update_t. lia.
  - apply length_remove_t_le.
Qed.
Lemma tmo_fold_length now : forall pending t h mk ev,
  let '(t', _, _, _) := fold_left (tmo_one now) pending (t, h, mk, ev) in (length t' <= length t)%nat.
Proof.
  induction pending as [|id pending IH]; intros t h mk ev; cbn [fold_left]; [lia|].
  pose proof (tmo_one_length now t h mk ev id) as H1.
  destruct (tmo_one now (t, h, mk, ev) id) as [[[t1 h1] mk1] ev1].
  specialize (IH t1 h1 mk1 ev1). destruct (fold_left (tmo_one now) pending (t1, h1, mk1, ev1)) as [[[t2 h2] mk2] ev2]. lia.
Qed.

Lemma cfg_step c o : cfg (fst (fst (step c o))) = cfg c.
Proof.
  destruct o as [now id r method app room|id method app room|now d w|now].
  - destruct (step_send_cases c now id r method app room) as [(rep & -> & _)|(a & d & m1 & _ & _ & _ & ->)]; reflexivity.
  - destruct (step_indication_cases c id method app room) as [(rep & ->)|(a & ->)]; reflexivity.
  - destruct (step_recv_cases c now d w) as [(rep & -> & _)|[(mk & -> & _)|[(_ & mech' & mk & ->)|(_ & _ & mech' & mk & ev & -> & _)]]];
      reflexivity.
  - cbn [step]. destruct (fold_left (tmo_one now) _ _) as [[[t' h'] mk'] ev]. reflexivity.
Qed.

(* the number of outstanding transactions never exceeds the configured limit *)
Theorem count_le_limit c o :
  N.of_nat (length (T c)) <= limit (cfg c) ->
  N.of_nat (length (T (fst (fst (step c o))))) <= limit (cfg (fst (fst (step c o)))).
Proof.
  intros Hle. rewrite cfg_step.
  destruct o as [now id r method app room|id method app room|now d w|now].
  - destruct (step_send_cases c now id r method app room) as [(rep & -> & _)|(a & d & m1 & Hlt & _ & _ & ->)]; cbn [fst].
    + exact Hle.
    + unfold with_TH; cbn [T length]. clear - Hlt. lia.
  - destruct (step_indication_cases c id method app room) as [(rep & ->)|(a & ->)]; exact Hle.
  - destruct (step_recv_cases c now d w) as [(rep & -> & _)|[(mk & -> & _)|[(_ & mech' & mk & ->)|(_ & _ & mech' & mk & ev & -> & _)]]];
      cbn [fst]; try exact Hle.
    unfold with_TH; cbn [T]. pose proof (length_remove_t_le (m_id w) (T c)) as Hl. unfold with_mech; cbn [T]. clear - Hle Hl. unfold txid in *. lia.
  - cbn [step]. pose proof (tmo_fold_length now (map h_id (filter (fun e => h_exp e <=? now) (H c))) (T c)
                              (filter (fun e => negb (h_exp e <=? now)) (H c)) (markers c) []) as Hl.
    destruct (fold_left (tmo_one now) _ _) as [[[t' h'] mk'] ev]. cbn [fst T]. clear - Hle Hl. unfold txid in *. lia.
Qed.

Theorem indication_free c id method app room :
  T (fst (fst (step c (Indication id method app room)))) = T c
  /\ H (fst (fst (step c (Indication id method app room)))) = H c.
Proof. destruct (step_indication_cases c id method app room) as [(rep & ->)|(a & ->)]; split; reflexivity. Qed.

(* stronger: an indication changes nothing at all *)
Theorem indication_state c id method app room : fst (fst (step c (Indication id method app room))) = c.
Proof. destruct (step_indication_cases c id method app room) as [(rep & ->)|(a & ->)]; reflexivity. Qed.

Theorem final_frees_one c now d w c' evs :
  Inv c -> step c (Recv now d w) = (c', ROk None, evs) -> is_response w = true ->
  (length (T c') + 1 = length (T c))%nat
  /\ (forall x, In x (ids_t (T c')) <-> In x (ids_t (T c)) /\ x <> m_id w)
  /\ In (m_id w) (ids_t (T c)).
Proof.
  intros (Ht & _ & _) Hs Hr.
  destruct (step_recv_cases c now d w) as [(rep & He & Hn)|[(mk & He & _)|[(Hc & mech' & mk & He)|(_ & (x & Hl) & mech' & mk & ev & He & _)]]];
    rewrite He in Hs; inversion Hs; subst.
  - congruence.
  - unfold is_response in Hr. rewrite Hc in Hr. discriminate.
  - unfold with_TH, with_mech; cbn [T]. pose proof (lookup_some_in _ _ _ Hl) as Hin. refine (conj _ (conj _ Hin)).
    + apply length_remove_t_in; assumption.
    + apply ids_remove_t.
Qed.

(* ------------------------------------------------------------------ C17: a rejected packet changes nothing observable *)
Theorem reject_noop c now d w c' r evs :
  step c (Recv now d w) = (c', r, evs) -> r <> ROk None ->
  evs = [] /\ T c' = T c /\ H c' = H c /\ cfg c' = cfg c /\ mech_ c' = mech_ c /\
  (markers c' = markers c \/ (reliable (cfg c) = false /\ markers c' = ins (m_id w) (markers c))).
Proof.
  intros Hs Hr.
  destruct (step_recv_cases c now d w) as [(rep & He & Hn)|[(mk & He & Hk)|[(Hc & mech' & mk & He)|(_ & _ & mech' & mk & ev & He & _)]]];
    rewrite He in Hs; inversion Hs; subst; try congruence.
  - repeat split; auto.
  - unfold with_mech; cbn [T H cfg mech_ markers]. repeat split; auto.
Qed.

(* which replies a received packet can get, and that exactly the reply `ROk None` is a delivery *)
Theorem recv_replies c now d w :
  let r := snd (fst (step c (Recv now d w))) in
  r = ROk None \/ r = RDiscarded \/ r = RStunCheck \/ r = RInternal.
Proof.
  cbv zeta.
  destruct (step_recv_cases c now d w) as [(rep & He & Hn)|[(mk & He & Hk)|[(Hc & mech' & mk & He)|(_ & _ & mech' & mk & ev & He & _)]]];
    rewrite He; cbn [fst snd]; auto.
  revert He. destruct d; [|cbn [step negb]; intros HE; inversion HE; auto].
  rewrite step_recv_eq. cbv zeta.
  repeat match goal with |- context [if ?b then _ else _] => destruct b end; try (intros HE; inversion HE; auto; fail).
  unfold recv_tail. destruct (mech_step _ _ _ _) as [[e mk] mech']. intros HE.
  destruct e as [[| | |]|]; try (inversion HE; auto; fail);
    destruct (class_eqb (m_class (wmsg w)) CIndication); inversion HE; subst; exfalso; apply Hn; reflexivity.
Qed.

(* ------------------------------------------------------------------ C11: the notification names a minimal entry *)
Lemma min_entry_spec h : match min_entry h with
  | None => h = []
  | Some m => In m h /\ forall e, In e h -> h_exp m <= h_exp e end.
Proof.
  induction h as [|e r IH]; cbn [min_entry]; [reflexivity|].
  destruct (min_entry r) as [m|].
  - destruct IH as [Hin Hmin]. destruct (N.leb_spec (h_exp e) (h_exp m)) as [Hle|Hlt].
    + split; [left; reflexivity|]. intros x [->|Hx]; [lia|]. specialize (Hmin x Hx). lia.
    + split; [right; exact Hin|]. intros x [->|Hx]; [lia|apply Hmin; exact Hx].
  - subst r. split; [left; reflexivity|]. intros x [->|[]]. lia.
Qed.

Definition is_notif (e:event) : bool := match e with Notif _ _ => true | _ => false end.

Lemma notif_shape h now :
  (h = [] /\ notif h now = [])
  \/ (exists m, In m h /\ (forall e, In e h -> h_exp m <= h_exp e) /\ notif h now = [Notif (h_id m) (h_exp m - now)]).
Proof.
  unfold notif. pose proof (min_entry_spec h) as Hm. destruct (min_entry h) as [m|].
  - right. exists m. destruct Hm as [A B]. auto.
  - left. auto.
Qed.

Lemma tmo_one_no_notif now t h mk ev id :
  (forall e, In e ev -> is_notif e = false) ->
  let '(_, _, _, ev') := tmo_one now (t, h, mk, ev) id in forall e, In e ev' -> is_notif e = false.
Proof.
  intros Hev. unfold tmo_one. destruct (lookup id t) as [x|]; [|exact Hev].
  destruct (next_rto (tm x) now) as [[d|] m']; intros e Hin; apply in_app_or in Hin as [Hin|[<-|[]]]; auto.
Qed.
Lemma tmo_fold_no_notif now : forall pending t h mk ev,
  (forall e, In e ev -> is_notif e = false) ->
  let '(_, _, _, ev') := fold_left (tmo_one now) pending (t, h, mk, ev) in forall e, In e ev' -> is_notif e = false.
Proof.
  induction pending as [|id pending IH]; intros t h mk ev Hev; cbn [fold_left]; [exact Hev|].
  pose proof (tmo_one_no_notif now t h mk ev id Hev) as H1.
  destruct (tmo_one now (t, h, mk, ev) id) as [[[t1 h1] mk1] ev1]. apply IH. exact H1.
Qed.

(* the steps that (re)arm the timer: a successful Send and every on_timeout *)
Definition arms (o:op) (r:reply) (now:N) : Prop :=
  match o with
  | Send n _ _ _ _ _ => n = now /\ exists x, r = ROk x
  | Tmo n => n = now
  | _ => False
  end.

Lemma arms_events c o c' r evs now :
  step c o = (c', r, evs) -> arms o r now ->
  exists pre, evs = pre ++ notif (H c') now /\ forall e, In e pre -> is_notif e = false.
Proof.
  intros Hs Ha. destruct o as [n id rr method app room|id method app room|n d w|n]; cbn [arms] in Ha; try contradiction.
  - destruct Ha as [-> (x & ->)].
    destruct (step_send_cases c now id rr method app room) as [(rep & He & Hn & _)|(a & d & m1 & _ & _ & _ & He)];
      rewrite He in Hs; inversion Hs; subst.
    + exfalso. eapply Hn. reflexivity.
    + eexists [_]. split; [reflexivity|]. intros e [<-|[]]. reflexivity.
  - subst n. cbn [step] in Hs.
    pose proof (tmo_fold_no_notif now (map h_id (filter (fun e => h_exp e <=? now) (H c))) (T c)
                  (filter (fun e => negb (h_exp e <=? now)) (H c)) (markers c) [] (fun e (HF:In e []) => match HF with end)) as Hf.
    destruct (fold_left (tmo_one now) _ _) as [[[t' h'] mk'] ev]. inversion Hs; subst. cbn [H].
    exists ev. split; [reflexivity|exact Hf].
Qed.

Theorem notif_spec c o c' r evs now :
  step c o = (c', r, evs) -> arms o r now ->
  (H c' = [] /\ forall e, In e evs -> is_notif e = false)
  \/ (exists pre m, evs = pre ++ [Notif (h_id m) (h_exp m - now)] /\ (forall e, In e pre -> is_notif e = false)
                    /\ In m (H c') /\ forall e, In e (H c') -> h_exp m <= h_exp e).
Proof.
  intros Hs Ha. destruct (arms_events c o c' r evs now Hs Ha) as (pre & -> & Hpre).
  destruct (notif_shape (H c') now) as [[Hnil ->]|(m & Hin & Hmin & ->)].
  - left. split; [exact Hnil|]. rewrite app_nil_r. exact Hpre.
  - right. exists pre, m. auto.
Qed.

(* the iff form: the last event is a Notif exactly when a timer entry is left *)
Corollary notif_iff c o c' r evs now :
  step c o = (c', r, evs) -> arms o r now ->
  ((exists pre id left, evs = pre ++ [Notif id left]) <-> H c' <> []).
Proof.
  intros Hs Ha. destruct (notif_spec c o c' r evs now Hs Ha) as [[Hnil Hno]|(pre & m & -> & _ & Hin & _)].
  - split.
    + intros (pre & id & left & ->). specialize (Hno (Notif id left) ltac:(apply in_or_app; right; left; reflexivity)). discriminate.
    + intros Hne. contradiction.
  - split.
    + intros _ Hnil. rewrite Hnil in Hin. destruct Hin.
    + intros _. eexists _, _, _. reflexivity.
Qed.

Lemma inv_H_nil_iff c : Inv c -> (H c = [] <-> T c = []).
Proof.
  intros (_ & _ & Heq). split; intros Hnil.
  - destruct (T c) as [|[k v] t] eqn:Ht; [reflexivity|]. exfalso.
    assert (Hin : In k (ids_h (H c))) by (apply Heq; left; reflexivity). rewrite Hnil in Hin. destruct Hin.
  - destruct (H c) as [|e h] eqn:Hh; [reflexivity|]. exfalso.
    assert (Hin : In (h_id e) (ids_t (T c))) by (apply Heq; left; reflexivity). rewrite Hnil in Hin. destruct Hin.
Qed.

(* every other step produces no notification *)
Theorem no_notif_otherwise c o c' r evs :
  step c o = (c', r, evs) -> (forall now, ~ arms o r now) -> forall e, In e evs -> is_notif e = false.
Proof.
  intros Hs Hn. destruct o as [n id rr method app room|id method app room|n d w|n].
  - destruct (step_send_cases c n id rr method app room) as [(rep & He & _)|(a & d & m1 & _ & _ & _ & He)];
      rewrite He in Hs; inversion Hs; subst.
    + intros e [].
    + exfalso. apply (Hn n). cbn [arms]. split; [reflexivity|eexists; reflexivity].
  - destruct (step_indication_cases c id method app room) as [(rep & He)|(a & He)]; rewrite He in Hs; inversion Hs; subst.
    + intros e [].
    + intros e [<-|[]]. reflexivity.
  - destruct (step_recv_cases c n d w) as [(rep & He & _)|[(mk & He & _)|[(_ & mech' & mk & He)|(_ & _ & mech' & mk & ev & He & Hev)]]];
      rewrite He in Hs; inversion Hs; subst.
    + intros e [].
    + intros e [].
    + intros e [<-|[]]. reflexivity.
    + intros e [<-|[]]. destruct Hev as [->|[->|(rs & ->)]]; reflexivity.
  - exfalso. apply (Hn n). reflexivity.
Qed.

Print Assumptions inv_step.
Print Assumptions inv_init.
Print Assumptions refuse_iff.
Print Assumptions refusal_noop.
Print Assumptions count_le_limit.
Print Assumptions indication_free.
Print Assumptions final_frees_one.
Print Assumptions reject_noop.
Print Assumptions notif_spec.
Print Assumptions notif_iff.
Print Assumptions no_notif_otherwise.
