(* The byte-level decoder model (Codec/Wire.v) satisfies, for EVERY buffer, the monitors that judge the implementation
   in the wire suite: monitor_C18, monitor_C18val and monitor_C03dec of Codec/WireMon.v, evaluated on the model's own
   17 results (model_obs = what ocaml/driver.ml `wire_suite` computes from `decode dec_ok_full`).
   Main theorems: model_meets_C18, model_meets_C18val, model_meets_C03dec (generic in the typed decoders), their
   localised forms (suffix _local) and the instances (prefix full_meets_) for WireFull.dec_ok_full. *)
From Coq Require Import List NArith Lia Bool Arith.
Import ListNotations.
From Rustun Require Import Base.Tlv Codec.Filter Codec.DecodeLoop Codec.InputText Codec.Wire Codec.WireMon
                           Codec.AttrValue Codec.WireFull Proofs.WireProofs.
Open Scope N_scope.

(* ------------------------------------------------------------------------------------------ the observation *)
Definition ores_of (r:wres) : ores :=
  match r with
  | WOk s ps => OOkR s ps
  | WErr => OErrR
  | WPanic => OBad
  | WUnmodelled => OBad
  end.

Definition model_obs (dec_ok: bool -> bytes -> N -> bytes -> option bool) (key:bytes) (b:bytes) : obs17 :=
  {| o_none := ores_of (decode dec_ok None b);
     o_cfg := fun k v u n =>
       ores_of (decode dec_ok (Some {| w_key := if k then Some key else None;
                                       w_opts := {| o_validate := v; o_unknown := u; o_not_ignore := n |} |}) b) |}.

(* the value-level observation: every returned position p is replaced by g p (in the suite: p * 2^32 + a digest of the
   decoded value of the attribute at wire position p, the payload of Unknown excluded — a function of the buffer and of
   the position, not of the configuration) *)
Definition map_ores (g:N -> N) (r:ores) : ores :=
  match r with OOkR s ps => OOkR s (map g ps) | OErrR => OErrR | OBad => OBad end.
Definition map_obs (g:N -> N) (o:obs17) : obs17 :=
  {| o_none := map_ores g (o_none o); o_cfg := fun k v u n => map_ores g (o_cfg o k v u n) |}.

(* the 16 contexts of the suite *)
Definition cfg (key:bytes) (k v u n:bool) : wctx :=
  {| w_key := if k then Some key else None; w_opts := {| o_validate := v; o_unknown := u; o_not_ignore := n |} |}.

(* the wire attributes of a buffer, as the decoder walks them (empty if the walk fails) *)
Definition wire_attrs (b:bytes) : list tlv :=
  match dec_tlvs (length b) (take (msg_length b) (drop 20 b)) with Ok tlvs => tlvs | _ => [] end.

(* ------------------------------------------------------------------------------------------ small list facts *)
Lemma posl_eqb_refl : forall l, posl_eqb l l = true.
Proof. induction l as [|x l IH]; cbn [posl_eqb]; [reflexivity|]. rewrite N.eqb_refl, IH. reflexivity. Qed.

Lemma subseq_drop_head : forall l x s, subseq (x :: s) l = true -> subseq s l = true.
Proof.
  induction l as [|y l IH]; intros x s H; cbn [subseq] in H; [discriminate|].
  assert (G : subseq s l = true) by (destruct (x =? y); [exact H|exact (IH _ _ H)]).
  clear H. destruct s as [|z s]; [reflexivity|]. cbn [subseq].
  destruct (z =? y); [exact (IH _ _ G)|exact G].
Qed.
Lemma subseq_cons_r s y l : subseq s l = true -> subseq s (y :: l) = true.
Proof.
  intros H. destruct s as [|z s]; [reflexivity|]. cbn [subseq].
  destruct (z =? y); [exact (subseq_drop_head _ _ _ H)|exact H].
Qed.
Lemma subseq_filter_pos : forall bs l, subseq (filter_pos bs l) l = true.
Proof.
  induction bs as [|c bs IH]; intros [|a l]; cbn [filter_pos]; try reflexivity.
  destruct c.
  - cbn [subseq]. rewrite N.eqb_refl. apply IH.
  - apply subseq_cons_r. apply IH.
Qed.
Lemma filter_pos_map g : forall bs l, map g (filter_pos bs l) = filter_pos bs (map g l).
Proof.
  induction bs as [|c bs IH]; intros [|a l]; cbn [filter_pos map]; try reflexivity.
  destruct c; cbn [map]; rewrite IH; reflexivity.
Qed.

Lemma iota_length : forall k p, length (iota k p) = k.
Proof. induction k as [|k IH]; intros p; cbn [iota length]; [reflexivity|]. rewrite IH. reflexivity. Qed.
Lemma map_pos_number : forall (l:list tlv) p, map w_pos (number p l) = iota (length l) p.
Proof. induction l as [|a l IH]; intros p; cbn [number map length iota]; [reflexivity|]. rewrite IH. reflexivity. Qed.

Lemma all4_intro f : (forall k v u n, f k v u n = true) -> all4 f = true.
Proof. intros H. unfold all4, bools. cbn [forallb]. rewrite !H. reflexivity. Qed.

(* ------------------------------------------------------------------------------------------ the abstract argument *)
(* P k v u n: the positions returned under (key?, validate, unknown_data, not_ignore), None = error; the seven facts
   below are all that the C18 monitor needs *)
Definition facts (P:bool -> bool -> bool -> bool -> option (list N)) : Prop :=
  (forall k u n r, P k true u n = Some r -> P k false u n = Some r) /\
  (forall k v n, P k v true n = P k v false n) /\
  (forall u n, P true false u n = P false false u n) /\
  (forall k v u all sub, P k v u true = Some all -> P k v u false = Some sub -> exists bs, sub = filter_pos bs all) /\
  (forall k u all, P k false u true = Some all -> P k false u false <> None) /\
  (forall k u, P k false u true = None -> P k false u false = None).

Definition RR (S:N) (x:option (list N)) : ores := match x with Some ps => OOkR S ps | None => OErrR end.
Lemma ores_eqb_RR S x : ores_eqb (RR S x) (RR S x) = true.
Proof. destruct x as [ps|]; cbn [RR ores_eqb]; [|reflexivity]. rewrite N.eqb_refl, posl_eqb_refl. reflexivity. Qed.

Lemma abstract_C18 S P strict (o:obs17) :
  facts P ->
  (strict = true -> forall k v u all, P k v u true = Some all -> all = iota (length all) 0) ->
  o_none o = RR S (P false false false false) ->
  (forall k v u n, o_cfg o k v u n = RR S (P k v u n)) ->
  monitor_C18_gen strict o = true.
Proof.
  intros (F_val & F_ud & F_key & F_sub & F_some & F_none) Hi H0 Hc.
  unfold monitor_C18_gen. rewrite H0, Hc, ores_eqb_RR. cbn [andb].
  apply all4_intro. intros k v u n. cbv beta zeta. rewrite !Hc.
  apply andb_true_intro; split; [apply andb_true_intro; split; [apply andb_true_intro; split|]|].
  - (* validation only filters *)
    destruct v; [|reflexivity].
    destruct (P k true u n) as [r|] eqn:E; cbn [RR]; [|reflexivity].
    rewrite (F_val _ _ _ _ E). apply (ores_eqb_RR S (Some r)).
  - (* unknown data *)
    destruct u; cbn [negb]; rewrite F_ud; apply ores_eqb_RR.
  - (* key *)
    destruct v; [reflexivity|]. destruct k; cbn [negb]; rewrite F_key; apply ores_eqb_RR.
  - (* not_ignore *)
    destruct n; [|reflexivity].
    destruct (P k v u true) as [all|] eqn:E; cbn [RR].
    + apply andb_true_intro; split.
      * destruct strict; cbn [negb orb]; [|reflexivity].
        pose proof (Hi eq_refl k v u all E) as Ha. rewrite <- Ha. apply posl_eqb_refl.
      * destruct v.
        -- destruct (P k true u false) as [sub|] eqn:E2; cbn [RR]; [|reflexivity].
           rewrite N.eqb_refl. cbn [andb]. destruct (F_sub _ _ _ _ _ E E2) as [bs ->]. apply subseq_filter_pos.
        -- destruct (P k false u false) as [sub|] eqn:E2; cbn [RR].
           ++ rewrite N.eqb_refl. cbn [andb]. destruct (F_sub _ _ _ _ _ E E2) as [bs ->]. apply subseq_filter_pos.
           ++ exfalso. exact (F_some _ _ _ E E2).
    + destruct v; [reflexivity|]. rewrite (F_none _ _ E). reflexivity.
Qed.

Lemma facts_none : facts (fun _ _ _ _ => None).
Proof. repeat split; intros; try discriminate; reflexivity. Qed.

Lemma facts_map g P : facts P -> facts (fun k v u n => option_map (map g) (P k v u n)).
Proof.
  intros (F_val & F_ud & F_key & F_sub & F_some & F_none). repeat split.
  - intros k u n r H. destruct (P k true u n) as [r0|] eqn:E; [|discriminate]. rewrite (F_val _ _ _ _ E). exact H.
  - intros k v n. rewrite F_ud. reflexivity.
  - intros u n. rewrite F_key. reflexivity.
  - intros k v u all sub H1 H2.
    destruct (P k v u true) as [all0|] eqn:E1; [|discriminate]. destruct (P k v u false) as [sub0|] eqn:E2; [|discriminate].
    cbn [option_map] in H1, H2. injection H1 as <-. injection H2 as <-.
    destruct (F_sub _ _ _ _ _ E1 E2) as [bs ->]. exists bs. apply filter_pos_map.
  - intros k u all H1 H2. destruct (P k false u true) as [all0|] eqn:E1; [|discriminate].
    destruct (P k false u false) as [sub0|] eqn:E2; [discriminate|]. exact (F_some _ _ _ E1 E2).
  - intros k u H. destruct (P k false u true) as [all0|] eqn:E1; [discriminate|]. rewrite (F_none _ _ E1). reflexivity.
Qed.

(* ------------------------------------------------------------------------------------------ the loop of Wire.decode *)
(* without validation the verifier is not consulted (generic form of IgnoredProofs.loop_ignores) *)
Lemma loop_verify_irrelevant (attr tlv:Type) (kind_of:tlv -> kind) (dec_value:bool -> tlv -> option attr)
      (ver ver':attr -> bool) : forall l o f, o_validate o = false ->
  loop attr tlv kind_of dec_value ver o f l = loop attr tlv kind_of dec_value ver' o f l.
Proof.
  induction l as [|x l IH]; intros o f Hv; cbn [loop]; [reflexivity|]. rewrite Hv. cbn [andb].
  destruct (dec_value (o_unknown o) x) as [a|]; [|reflexivity].
  destruct (ignore_attribute f (kind_of x)) as [ign f'].
  rewrite (IH o f' Hv). reflexivity.
Qed.

(* the loop depends on the typed decoders only through the attributes it is run on *)
Lemma loop_ext_in (attr tlv:Type) (kind_of:tlv -> kind) (d1 d2:bool -> tlv -> option attr) (ver:attr -> bool) :
  forall l o f, Forall (fun x => d1 (o_unknown o) x = d2 (o_unknown o) x) l ->
  loop attr tlv kind_of d1 ver o f l = loop attr tlv kind_of d2 ver o f l.
Proof.
  induction l as [|x l IH]; intros o f H; cbn [loop]; [reflexivity|].
  inversion H as [|? ? Hx Hl]; subst. rewrite Hx.
  destruct (d2 (o_unknown o) x) as [a|]; [|reflexivity].
  destruct (ignore_attribute f (kind_of x)) as [ign f'].
  rewrite (IH o f' Hl). reflexivity.
Qed.

Definition f0 : flt := {| f_mi := false; f_sha := false; f_fp := false |}.

Section Concrete.
Variable dec_ok : bool -> bytes -> N -> bytes -> option bool.
Hypothesis Hud : forall hdr ty v, dec_ok true hdr ty v = dec_ok false hdr ty v.
Variables (key hdr bb : bytes) (tlvs : list tlv).

Definition kof (x:N * (N * bytes)) : kind := kind_of_type (w_ty x).
Definition dv (ud:bool) (x:N * (N * bytes)) : option (N * (N * bytes)) :=
  match dec_ok ud hdr (w_ty x) (w_val x) with Some true => Some x | _ => None end.
Definition kopt (k:bool) : option bytes := if k then Some key else None.
Definition LP (k v u n:bool) : option (list (N * (N * bytes))) :=
  loop _ _ kof dv (verify_attr (kopt k) bb) {| o_validate := v; o_unknown := u; o_not_ignore := n |} f0 (number 0 tlvs).
Definition PP (k v u n:bool) : option (list N) := option_map (map w_pos) (LP k v u n).

Lemma LP_val k u n r : LP k true u n = Some r -> LP k false u n = Some r.
Proof.
  exact (C18_validation_monotone _ _ kof dv (verify_attr (kopt k) bb) (number 0 tlvs)
           {| o_validate := true; o_unknown := u; o_not_ignore := n |} f0 r).
Qed.
Lemma LP_ud k v n : LP k v true n = LP k v false n.
Proof.
  assert (Hdv : forall x, dv true x = dv false x) by (intros x; unfold dv; rewrite Hud; reflexivity).
  exact (loop_unknown_irrelevant _ _ kof dv (verify_attr (kopt k) bb) Hdv (number 0 tlvs)
           {| o_validate := v; o_unknown := false; o_not_ignore := n |} f0).
Qed.
Lemma LP_key u n : LP true false u n = LP false false u n.
Proof. unfold LP. apply loop_verify_irrelevant. reflexivity. Qed.
Lemma LP_superset k u :
  match LP k false u true with
  | Some all => LP k false u false = Some (keep _ (run ignore_attribute f0 (map kof (number 0 tlvs))) all)
  | None => LP k false u false = None
  end.
Proof.
  exact (C18_not_ignore_superset _ _ kof dv (verify_attr (kopt k) bb) (number 0 tlvs)
           {| o_validate := false; o_unknown := u; o_not_ignore := false |} f0 eq_refl).
Qed.

(* with the ordering rule disabled and no validation, success returns every wire attribute *)
Lemma loop_all_id ver : forall l o f r, o_validate o = false -> o_not_ignore o = true ->
  loop _ _ kof dv ver o f l = Some r -> r = l.
Proof.
  induction l as [|x l IH]; intros o f r Hv Hn H; cbn [loop] in H.
  - injection H as <-. reflexivity.
  - unfold dv at 1 in H. destruct (dec_ok (o_unknown o) hdr (w_ty x) (w_val x)) as [[|]|]; try discriminate H.
    destruct (ignore_attribute f (kof x)) as [ign f']. rewrite Hn, Hv, orb_true_r in H. cbn [andb] in H.
    destruct (loop _ _ kof dv ver o f' l) as [rest|] eqn:E; [|discriminate H].
    injection H as <-. f_equal. exact (IH o f' rest Hv Hn E).
Qed.

Lemma PP_val k v u n r : PP k v u n = Some r -> PP k false u n = Some r.
Proof.
  destruct v; [|exact (fun H => H)]. unfold PP.
  destruct (LP k true u n) as [r0|] eqn:E; [|discriminate]. rewrite (LP_val _ _ _ _ E). exact (fun H => H).
Qed.

Lemma PP_facts : facts PP.
Proof.
  repeat split.
  - intros k u n r. apply PP_val.
  - intros k v n. unfold PP. rewrite LP_ud. reflexivity.
  - intros u n. unfold PP. rewrite LP_key. reflexivity.
  - intros k v u all sub H1 H2. apply PP_val in H1. apply PP_val in H2. unfold PP in H1, H2.
    pose proof (LP_superset k u) as G.
    destruct (LP k false u true) as [all0|]; [|discriminate]. rewrite G in H2. cbn [option_map] in H1, H2.
    injection H1 as <-. injection H2 as <-. eexists. apply map_keep.
  - intros k u all H1 H2. unfold PP in H1, H2. pose proof (LP_superset k u) as G.
    destruct (LP k false u true) as [all0|]; [|discriminate]. rewrite G in H2. discriminate.
  - intros k u H. unfold PP in *. pose proof (LP_superset k u) as G.
    destruct (LP k false u true) as [all0|]; [discriminate|]. rewrite G. reflexivity.
Qed.

Lemma PP_iota k v u all : PP k v u true = Some all -> all = iota (length all) 0.
Proof.
  intros H. apply PP_val in H. unfold PP in H.
  destruct (LP k false u true) as [r|] eqn:E; [|discriminate]. cbn [option_map] in H. injection H as <-.
  unfold LP in E. apply loop_all_id in E; [|reflexivity|reflexivity]. subst r.
  rewrite map_pos_number, iota_length. reflexivity.
Qed.
End Concrete.

(* ------------------------------------------------------------------------------------------ the model's results *)
Lemma existsb_none_ud (dec_ok:bool -> bytes -> N -> bytes -> option bool) (hdr:bytes) :
  (forall hdr ty v, dec_ok true hdr ty v = dec_ok false hdr ty v) -> forall u (l:list tlv),
  existsb (fun a => match dec_ok u hdr (fst a) (snd a) with None => true | Some _ => false end) l =
  existsb (fun a => match dec_ok false hdr (fst a) (snd a) with None => true | Some _ => false end) l.
Proof.
  intros Hud [|] l; [|reflexivity].
  induction l as [|a l IH]; cbn [existsb]; [reflexivity|]. rewrite Hud, IH. reflexivity.
Qed.

(* every buffer: one position table P with the seven facts describes the sixteen results *)
Lemma decode_shape dec_ok key b :
  (forall hdr ty v, dec_ok true hdr ty v = dec_ok false hdr ty v) ->
  (forall ctx, decode dec_ok ctx b <> WUnmodelled) ->
  exists P, facts P /\ (forall k v u all, P k v u true = Some all -> all = iota (length all) 0) /\
    forall k v u n, ores_of (decode dec_ok (Some (cfg key k v u n)) b) = RR (20 + msg_length b) (P k v u n).
Proof.
  intros Hud Hmod.
  destruct (negb (hdr_valid b)) eqn:E1.
  { exists (fun _ _ _ _ => None). split; [apply facts_none|]. split; [discriminate|].
    intros k v u n. unfold decode. rewrite E1. reflexivity. }
  destruct (len b <? 20 + msg_length b) eqn:E2.
  { exists (fun _ _ _ _ => None). split; [apply facts_none|]. split; [discriminate|].
    intros k v u n. unfold decode. cbv zeta. rewrite E1, E2. reflexivity. }
  destruct (dec_tlvs (length b) (take (msg_length b) (drop 20 b))) as [tlvs| |] eqn:E3.
  - exists (PP dec_ok key (take 20 b) (take (20 + msg_length b) b) tlvs).
    split; [apply PP_facts; exact Hud|]. split; [apply PP_iota|].
    intros k v u n. pose proof (Hmod (Some (cfg key k v u n))) as Hm. revert Hm.
    unfold decode. cbv zeta. rewrite E1, E2, E3.
    match goal with |- context [existsb ?f tlvs] => destruct (existsb f tlvs) end.
    { intros Hm. exfalso. apply Hm. reflexivity. }
    intros _.
    match goal with |- ores_of (match ?X with Some _ => _ | None => _ end) = RR _ ?Y =>
      change Y with (option_map (map w_pos) X); destruct X; reflexivity end.
  - exists (fun _ _ _ _ => None). split; [apply facts_none|]. split; [discriminate|].
    intros k v u n. unfold decode. cbv zeta. rewrite E1, E2, E3. reflexivity.
  - exfalso. apply (dec_tlvs_no_panic (length b) (take (msg_length b) (drop 20 b))); [|exact E3].
    unfold take, drop. rewrite firstn_length, skipn_length. lia.
Qed.


(* under the acceptance hypothesis, "modelled" need only be checked for one configuration *)
Lemma modelled_one_all dec_ok b :
  (forall hdr ty v, dec_ok true hdr ty v = dec_ok false hdr ty v) ->
  decode dec_ok None b <> WUnmodelled -> forall ctx, decode dec_ok ctx b <> WUnmodelled.
Proof.
  intros Hud H ctx. revert H. unfold decode. cbv zeta.
  destruct (negb (hdr_valid b)); [discriminate|].
  destruct (len b <? 20 + msg_length b); [discriminate|].
  destruct (dec_tlvs (length b) (take (msg_length b) (drop 20 b))) as [tlvs| |]; try discriminate.
  rewrite (existsb_none_ud dec_ok (take 20 b) Hud (o_unknown (w_opts default_wctx))).
  rewrite (existsb_none_ud dec_ok (take 20 b) Hud (o_unknown (w_opts match ctx with Some c => c | None => default_wctx end))).
  match goal with |- context [existsb ?f tlvs] => destruct (existsb f tlvs) end.
  { intros H _. apply H. reflexivity. }
  intros _.
  match goal with |- context [loop ?A ?T ?k ?d ?v ?o ?f ?l] => destruct (loop A T k d v o f l) end; discriminate.
Qed.

Lemma never_none_modelled dec_ok b :
  (forall ud hdr ty v, dec_ok ud hdr ty v <> None) -> forall ctx, decode dec_ok ctx b <> WUnmodelled.
Proof.
  intros Hn ctx. unfold decode. cbv zeta.
  destruct (negb (hdr_valid b)); [discriminate|].
  destruct (len b <? 20 + msg_length b); [discriminate|].
  destruct (dec_tlvs (length b) (take (msg_length b) (drop 20 b))) as [tlvs| |]; try discriminate.
  match goal with |- context [existsb ?f tlvs] => assert (E : existsb f tlvs = false) end.
  { clear - Hn. induction tlvs as [|a l IH]; cbn [existsb]; [reflexivity|]. rewrite IH.
    pose proof (Hn (o_unknown (w_opts match ctx with Some c => c | None => default_wctx end)) (take 20 b) (fst a) (snd a)) as G.
    destruct (dec_ok _ _ (fst a) (snd a)); [reflexivity|congruence]. }
  rewrite E.
  match goal with |- context [loop ?A ?T ?k ?d ?v ?o ?f ?l] => destruct (loop A T k d v o f l) end; discriminate.
Qed.

(* ------------------------------------------------------------------------------------------ localisation *)
(* the model consults the typed decoders only on the wire attributes of the buffer, with its first 20 bytes as header *)
Lemma existsb_ext_in (d1 d2:bool -> bytes -> N -> bytes -> option bool) (hdr:bytes) (u:bool) : forall l:list tlv,
  (forall ty v, In (ty, v) l -> d1 u hdr ty v = d2 u hdr ty v) ->
  existsb (fun a => match d1 u hdr (fst a) (snd a) with None => true | Some _ => false end) l =
  existsb (fun a => match d2 u hdr (fst a) (snd a) with None => true | Some _ => false end) l.
Proof.
  induction l as [|[ty v] l IH]; intros H; cbn [existsb fst snd]; [reflexivity|].
  rewrite (H ty v (or_introl eq_refl)), IH; [reflexivity|]. intros ty' v' Hin. apply H. right. exact Hin.
Qed.
Lemma number_In : forall (l:list tlv) p, Forall (fun x => In (w_ty x, w_val x) l) (number p l).
Proof.
  induction l as [|[ty v] l IH]; intros p; cbn [number]; constructor.
  - left. reflexivity.
  - eapply Forall_impl; [|apply IH]. intros x Hin. right. exact Hin.
Qed.

Lemma decode_ext_local (d1 d2:bool -> bytes -> N -> bytes -> option bool) b :
  (forall ud ty v, In (ty, v) (wire_attrs b) -> d1 ud (take 20 b) ty v = d2 ud (take 20 b) ty v) ->
  forall ctx, decode d1 ctx b = decode d2 ctx b.
Proof.
  intros H ctx. unfold decode, wire_attrs in *. cbv zeta.
  destruct (negb (hdr_valid b)); [reflexivity|].
  destruct (len b <? 20 + msg_length b); [reflexivity|].
  destruct (dec_tlvs (length b) (take (msg_length b) (drop 20 b))) as [tlvs| |]; try reflexivity.
  set (c := match ctx with Some c => c | None => default_wctx end).
  rewrite (existsb_ext_in d1 d2 (take 20 b) (o_unknown (w_opts c)) tlvs (H (o_unknown (w_opts c)))).
  match goal with |- context [existsb ?f tlvs] => destruct (existsb f tlvs) end; [reflexivity|].
  match goal with |- match ?X with Some _ => _ | None => _ end = match ?Y with Some _ => _ | None => _ end =>
    assert (EL : X = Y) end.
  { apply loop_ext_in. eapply Forall_impl; [|apply number_In]. intros x Hin. cbv beta.
    rewrite (H _ _ _ Hin). reflexivity. }
  rewrite EL. reflexivity.
Qed.

Lemma decode_shape_local dec_ok key b :
  (forall ty v, In (ty, v) (wire_attrs b) -> dec_ok true (take 20 b) ty v = dec_ok false (take 20 b) ty v) ->
  (forall ctx, decode dec_ok ctx b <> WUnmodelled) ->
  exists P, facts P /\ (forall k v u all, P k v u true = Some all -> all = iota (length all) 0) /\
    forall k v u n, ores_of (decode dec_ok (Some (cfg key k v u n)) b) = RR (20 + msg_length b) (P k v u n).
Proof.
  intros Hud Hmod. set (d2 := fun (_:bool) (hdr:bytes) (ty:N) (v:bytes) => dec_ok false hdr ty v).
  assert (E : forall ctx, decode dec_ok ctx b = decode d2 ctx b).
  { apply decode_ext_local. intros [|] ty v Hin; [exact (Hud ty v Hin)|reflexivity]. }
  assert (Hmod2 : forall ctx, decode d2 ctx b <> WUnmodelled) by (intros ctx; rewrite <- E; apply Hmod).
  destruct (decode_shape d2 key b (fun _ _ _ => eq_refl) Hmod2) as (P & HF & Hi & Hs).
  exists P. split; [exact HF|]. split; [exact Hi|]. intros k v u n. rewrite E. apply Hs.
Qed.

Lemma local_none_modelled dec_ok b :
  (forall ud ty v, In (ty, v) (wire_attrs b) -> dec_ok ud (take 20 b) ty v <> None) ->
  forall ctx, decode dec_ok ctx b <> WUnmodelled.
Proof.
  intros Hn ctx.
  set (d2 := fun (ud:bool) (hdr:bytes) (ty:N) (v:bytes) => match dec_ok ud hdr ty v with None => Some false | x => x end).
  rewrite (decode_ext_local dec_ok d2 b).
  - apply never_none_modelled. intros ud hdr ty v. unfold d2. destruct (dec_ok ud hdr ty v); discriminate.
  - intros ud ty v Hin. unfold d2. pose proof (Hn ud ty v Hin) as G.
    destruct (dec_ok ud (take 20 b) ty v); [reflexivity|congruence].
Qed.

(* ------------------------------------------------------------------------------------------ C18 *)
(* Hypotheses (local form, the weakest):
   (1) on the wire attributes of b, acceptance by the typed decoders does not depend on the with_unknown_data flag;
   (2) b is inside the model under every configuration (no typed decoder answers "unmodelled" on one of its attributes).
   Nothing is assumed of the key, the header, the attribute area or the verifier. *)
Theorem model_meets_C18_gen : forall strict dec_ok key b (g:N -> N),
  (strict = true -> forall p, g p = p) ->
  (forall ty v, In (ty, v) (wire_attrs b) -> dec_ok true (take 20 b) ty v = dec_ok false (take 20 b) ty v) ->
  (forall ctx, decode dec_ok ctx b <> WUnmodelled) ->
  monitor_C18_gen strict (map_obs g (model_obs dec_ok key b)) = true.
Proof.
  intros strict dec_ok key b g Hg Hud Hmod.
  destruct (decode_shape_local dec_ok key b Hud Hmod) as (P & HF & Hi & Hs).
  apply (abstract_C18 (20 + msg_length b) (fun k v u n => option_map (map g) (P k v u n))).
  - apply facts_map. exact HF.
  - intros -> k v u all H. destruct (P k v u true) as [all0|] eqn:E; [|discriminate]. cbn [option_map] in H.
    injection H as <-. rewrite (map_ext g (fun p => p) (Hg eq_refl)), map_id. exact (Hi _ _ _ _ E).
  - cbn [map_obs model_obs o_none].
    change (decode dec_ok None b) with (decode dec_ok (Some (cfg key false false false false)) b).
    rewrite Hs. destruct (P false false false false); reflexivity.
  - intros k v u n. cbn [map_obs model_obs o_cfg]. fold (cfg key k v u n). rewrite Hs. destruct (P k v u n); reflexivity.
Qed.

Lemma map_obs_id o : monitor_C18 (map_obs (fun p => p) o) = monitor_C18 o.
Proof.
  assert (E : forall r, map_ores (fun p => p) r = r) by (intros [s ps| |]; cbn [map_ores]; [rewrite map_id|..]; reflexivity).
  unfold monitor_C18, monitor_C18_gen, all4, bools. cbn [forallb map_obs o_none o_cfg]. rewrite !E. reflexivity.
Qed.

Theorem model_meets_C18_local : forall dec_ok key b,
  (forall ty v, In (ty, v) (wire_attrs b) -> dec_ok true (take 20 b) ty v = dec_ok false (take 20 b) ty v) ->
  (forall ctx, decode dec_ok ctx b <> WUnmodelled) ->
  monitor_C18 (model_obs dec_ok key b) = true.
Proof.
  intros dec_ok key b Hud Hmod. rewrite <- map_obs_id.
  exact (model_meets_C18_gen true dec_ok key b (fun p => p) (fun _ p => eq_refl) Hud Hmod).
Qed.
Print Assumptions model_meets_C18_local.

Theorem model_meets_C18 : forall dec_ok key b,
  (forall hdr ty v, dec_ok true hdr ty v = dec_ok false hdr ty v) ->
  (forall ctx, decode dec_ok ctx b <> WUnmodelled) ->
  monitor_C18 (model_obs dec_ok key b) = true.
Proof. intros dec_ok key b Hud Hmod. apply model_meets_C18_local; [|exact Hmod]. intros ty v _. apply Hud. Qed.
Print Assumptions model_meets_C18.

(* the value-level monitor: the same relations hold of the returned positions combined with ANY function of the buffer and
   of the position — in particular with a digest of the decoded value that excludes the payload of Unknown *)
Theorem model_meets_C18val_local : forall dec_ok key b (val_of:bytes -> N -> N),
  (forall ty v, In (ty, v) (wire_attrs b) -> dec_ok true (take 20 b) ty v = dec_ok false (take 20 b) ty v) ->
  (forall ctx, decode dec_ok ctx b <> WUnmodelled) ->
  monitor_C18val (map_obs (fun p => p * 4294967296 + val_of b p) (model_obs dec_ok key b)) = true.
Proof.
  intros dec_ok key b val_of Hud Hmod.
  exact (model_meets_C18_gen false dec_ok key b _ (fun H => False_ind _ (diff_false_true H)) Hud Hmod).
Qed.
Theorem model_meets_C18val : forall dec_ok key b (val_of:bytes -> N -> N),
  (forall hdr ty v, dec_ok true hdr ty v = dec_ok false hdr ty v) ->
  (forall ctx, decode dec_ok ctx b <> WUnmodelled) ->
  monitor_C18val (map_obs (fun p => p * 4294967296 + val_of b p) (model_obs dec_ok key b)) = true.
Proof. intros dec_ok key b val_of Hud Hmod. apply model_meets_C18val_local; [|exact Hmod]. intros ty v _. apply Hud. Qed.
Print Assumptions model_meets_C18val.

(* ------------------------------------------------------------------------------------------ C03 (decoder part) *)
Theorem model_meets_C03dec : forall dec_ok key b,
  (forall ctx, decode dec_ok ctx b <> WUnmodelled) ->
  monitor_C03dec b (model_obs dec_ok key b) = true.
Proof.
  intros dec_ok key b Hmod.
  assert (Hok : forall ctx, match ores_of (decode dec_ok ctx b) with
                            | OOkR s _ => (s =? 20 + msg_length b) && (s <=? len b)
                            | OErrR => true
                            | OBad => false end = true).
  { intros ctx. pose proof (Hmod ctx) as H1. pose proof (decode_no_panic dec_ok ctx b) as H2.
    destruct (decode dec_ok ctx b) as [s p| | |] eqn:E; cbn [ores_of]; try reflexivity; try congruence.
    destruct (decode_size dec_ok ctx b s p E) as [-> Hle]. rewrite N.eqb_refl. cbn [andb]. apply N.leb_le. exact Hle. }
  unfold monitor_C03dec. cbv zeta beta. apply andb_true_intro; split.
  - cbn [model_obs o_none]. apply Hok.
  - apply all4_intro. intros k v u n. cbn [model_obs o_cfg]. apply Hok.
Qed.
Print Assumptions model_meets_C03dec.

(* ------------------------------------------------------------------------------------------ variants of the hypotheses *)
(* "never unmodelled" as a property of the typed decoders *)
Corollary model_meets_C18_total : forall dec_ok key b,
  (forall hdr ty v, dec_ok true hdr ty v = dec_ok false hdr ty v) ->
  (forall ud hdr ty v, dec_ok ud hdr ty v <> None) ->
  monitor_C18 (model_obs dec_ok key b) = true.
Proof. intros dec_ok key b Hud Hn. apply model_meets_C18; [exact Hud|]. apply never_none_modelled. exact Hn. Qed.
Corollary model_meets_C03dec_total : forall dec_ok key b,
  (forall ud hdr ty v, dec_ok ud hdr ty v <> None) ->
  monitor_C03dec b (model_obs dec_ok key b) = true.
Proof. intros dec_ok key b Hn. apply model_meets_C03dec. apply never_none_modelled. exact Hn. Qed.

(* "modelled" checked for the context-free decoder only *)
Corollary model_meets_C18_one : forall dec_ok key b,
  (forall hdr ty v, dec_ok true hdr ty v = dec_ok false hdr ty v) ->
  decode dec_ok None b <> WUnmodelled ->
  monitor_C18 (model_obs dec_ok key b) = true.
Proof. intros dec_ok key b Hud H. apply model_meets_C18; [exact Hud|]. apply modelled_one_all; assumption. Qed.

(* ------------------------------------------------------------------------------------------ the full instance *)
(* the unknown-data flag only changes the payload of AvUnknown, never the verdict *)
Lemma dec_ok_full_ud : forall hdr ty v, dec_ok_full true hdr ty v = dec_ok_full false hdr ty v.
Proof. intros hdr ty v. unfold dec_ok_full, av_dec_attr. destruct (av_registry ty); reflexivity. Qed.

Corollary full_meets_C18 : forall key b,
  (forall cfg, decode dec_ok_full cfg b <> WUnmodelled) -> monitor_C18 (model_obs dec_ok_full key b) = true.
Proof. intros key b H. apply model_meets_C18; [exact dec_ok_full_ud|exact H]. Qed.
Corollary full_meets_C18val : forall key b (val_of:bytes -> N -> N),
  (forall cfg, decode dec_ok_full cfg b <> WUnmodelled) ->
  monitor_C18val (map_obs (fun p => p * 4294967296 + val_of b p) (model_obs dec_ok_full key b)) = true.
Proof. intros key b val_of H. apply model_meets_C18val; [exact dec_ok_full_ud|exact H]. Qed.
Corollary full_meets_C03dec : forall key b,
  (forall cfg, decode dec_ok_full cfg b <> WUnmodelled) -> monitor_C03dec b (model_obs dec_ok_full key b) = true.
Proof. intros key b H. apply model_meets_C03dec. exact H. Qed.
Print Assumptions full_meets_C18.
Print Assumptions full_meets_C18val.
Print Assumptions full_meets_C03dec.

(* the hypothesis of the three corollaries, in terms of the attributes of b: none of them is a value on which the typed
   decoder is outside the model (a non-ASCII USERNAME); and it is enough to ask the context-free decoder *)
Lemma full_modelled_attrs b :
  (forall ud ty v, In (ty, v) (wire_attrs b) -> av_dec_attr ud (take 20 b) ty v <> VUnmodelled) ->
  forall cfg, decode dec_ok_full cfg b <> WUnmodelled.
Proof.
  intros H. apply local_none_modelled. intros ud ty v Hin. pose proof (H ud ty v Hin) as G. unfold dec_ok_full.
  destruct (av_dec_attr ud (take 20 b) ty v); try discriminate. congruence.
Qed.
Lemma full_modelled_one b :
  decode dec_ok_full None b <> WUnmodelled -> forall cfg, decode dec_ok_full cfg b <> WUnmodelled.
Proof. apply modelled_one_all. exact dec_ok_full_ud. Qed.

(* ------------------------------------------------------------------------------------------ non-vacuity, necessity *)
(* a Binding request with FINGERPRINT (wrong CRC) followed by an unknown comprehension-optional attribute *)
Definition ex_fp : bytes :=
  [0; 1; 0; 16;  33; 18; 164; 66;  1; 2; 3; 4; 5; 6; 7; 8; 9; 10; 11; 12;
   128; 40; 0; 4;  1; 2; 3; 4;   255; 1; 0; 1;  255; 0; 0; 0].
Example ex_fp_obs :
  let o := model_obs dec_ok_full [107] ex_fp in
  o_none o = OOkR 36 [0] /\ o_cfg o true false true false = OOkR 36 [0] /\
  o_cfg o false false false true = OOkR 36 [0; 1] /\ o_cfg o true true false true = OErrR.
Proof. vm_compute. repeat split. Qed.
Example ex_fp_modelled : forall cfg, decode dec_ok_full cfg ex_fp <> WUnmodelled.
Proof. apply full_modelled_one. vm_compute. discriminate. Qed.
(* by the theorems, not by computation *)
Example ex_fp_C18 : monitor_C18 (model_obs dec_ok_full [107] ex_fp) = true.
Proof. apply full_meets_C18. exact ex_fp_modelled. Qed.
Example ex_fp_C03 : monitor_C03dec ex_fp (model_obs dec_ok_full [107] ex_fp) = true.
Proof. apply full_meets_C03dec. exact ex_fp_modelled. Qed.

(* neither hypothesis can be dropped: a typed decoder whose verdict follows the unknown-data flag, and a buffer outside
   the basic instance (MAPPED-ADDRESS is registered but not modelled there), fail the monitors *)
Example hyp_ud_needed :
  monitor_C18 (model_obs (fun ud _ _ _ => Some ud) [] ex_fp) = false /\
  (forall ud hdr ty v, (fun (ud:bool) (_:bytes) (_:N) (_:bytes) => Some ud) ud hdr ty v <> None).
Proof. split; [vm_compute; reflexivity|discriminate]. Qed.
Definition ex_unmodelled : bytes :=
  [0; 1; 0; 8;  33; 18; 164; 66;  1; 2; 3; 4; 5; 6; 7; 8; 9; 10; 11; 12;  0; 1; 0; 4;  0; 1; 2; 3].
Example hyp_modelled_needed :
  (forall hdr ty v, dec_ok_basic true hdr ty v = dec_ok_basic false hdr ty v) /\
  decode dec_ok_basic None ex_unmodelled = WUnmodelled /\
  monitor_C18 (model_obs dec_ok_basic [] ex_unmodelled) = false /\
  monitor_C03dec ex_unmodelled (model_obs dec_ok_basic [] ex_unmodelled) = false.
Proof. split; [reflexivity|]. vm_compute. repeat split. Qed.
