(* The client's packets at BYTE level: ties the abstract agent model (Agent/Model.v) to the byte-level codec models.

   1. craft_fold_closed / craft_packet_closed / encode_msg_packet_bytes: the rendering `Concrete.craft_packet` (the steps of the
      MessageEncoder::encode model, EncodeMsg.enc_step2) writes header ++ TLVs where every MAC / CRC value is computed over the
      header (length up to the end of its attribute) ++ the TLVs before it (`Concrete.packet_bytes`); craft_is_encode_msg: without
      corrupted attributes it IS EncodeMsg.encode_msg.
   2-4. abs_craft: AbsGlue.abs_packet reads the rendering of a well-formed abstract packet back as that packet (explicit
      boolean no-collision hypothesis `Concrete.no_collision`; Example ex_no_collision).
   5. craft_decodes: the rendering decodes with the byte-level decoder model Wire.decode (generic in the typed decoders), the
      whole length is consumed, every attribute returned; WITH validation under the key of its integrity attributes too
      (on top of WireProofs.accepts_own_mi / accepts_own_sha / input_text_general = C04 / C10).
   6. client_packet_bytes (+ client_keys_st / client_keys_lt / client_clean): the same for everything Model.prepare produces,
      for every client state, mechanism and application list (on top of AgentMech.prepare_tail_ok, fingerprint_last,
      st_prepare_integrity, lt_prepare_integrity).
   7. a long-term request with fingerprint, by computation, through the FULL typed decoder instance (WireFull.dec_ok_full).
   8. full_accepts / client_packet_bytes_full: the full instance of the typed decoders accepts every value of the client's
      vocabulary (NONCE flavour 6 excepted), so 6 holds for WireFull.dec_ok_full without an acceptance hypothesis. *)
From Coq Require Import List NArith ZArith Lia Bool Arith ZifyBool ZifyN.
Import ListNotations.
From Rustun Require Import Base.Tlv Crypto.Crc Crypto.Sha256 Crypto.Sha1Md5 Codec.Filter Codec.DecodeLoop Codec.EncodeInto
  Codec.InputText Codec.EncodeMsg Codec.Wire Codec.WireFull Codec.AttrValue Codec.Keys Codec.MsgType Agent.Model Agent.Monitors
  Agent.AbsGlue Agent.Concrete Proofs.CryptoLen Proofs.EncodeMsgProofs Proofs.EncodeTailProofs Proofs.WireProofs
  Proofs.MessageProofs Proofs.AbsGlueProofs Proofs.AgentMech.
Open Scope N_scope.
Ltac Zify.zify_post_hook ::= Z.div_mod_to_equations.

(* ================================================================== 1. the encoder's output in closed form *)
Lemma enc_tlvs_app l1 l2 : enc_tlvs (l1 ++ l2) = enc_tlvs l1 ++ enc_tlvs l2.
Proof. unfold enc_tlvs. apply flat_map_app. Qed.
Lemma attr_bytes_app l1 l2 : attr_bytes (l1 ++ l2) = attr_bytes l1 + attr_bytes l2.
Proof. unfold attr_bytes. rewrite enc_tlvs_app, len_app. reflexivity. Qed.
Lemma attr_bytes_one x : attr_bytes [x] = 4 + len (snd x) + pad (len (snd x)).
Proof. unfold attr_bytes, enc_tlvs. cbn [flat_map]. rewrite app_nil_r. apply EncodeInto.len_enc_tlv. Qed.
Lemma attr_bytes_cons x l : attr_bytes (x :: l) = 4 + len (snd x) + pad (len (snd x)) + attr_bytes l.
Proof. change (x :: l) with ([x] ++ l). rewrite attr_bytes_app, attr_bytes_one. reflexivity. Qed.

Lemma split_at (v:bytes) o : o < len v -> exists v1 x v2, v = v1 ++ x :: v2 /\ len v1 = o.
Proof.
  intros H. exists (take o v). destruct (drop o v) as [|x v2] eqn:E.
  - exfalso. assert (Hl : len (drop o v) = 0) by (rewrite E; reflexivity). rewrite len_drop' in Hl. lia.
  - exists x, v2. split; [rewrite <- E; symmetry; apply take_drop|]. apply len_take'. lia.
Qed.

Lemma xor_at_mid v1 x v2 m : xor_at (len v1) m (v1 ++ x :: v2) = v1 ++ N.lxor x m :: v2.
Proof.
  unfold xor_at. rewrite drop_app_exact.
  change (x :: v2) with ([x] ++ v2) at 1. rewrite write_at_app by (unfold len; cbn [length app]; lia).
  reflexivity.
Qed.
Lemma len_xor_at o m v : len (xor_at o m v) = len v.
Proof.
  destruct (N.ltb_spec o (len v)) as [H|H].
  - destruct (split_at v o H) as (v1 & x & v2 & -> & <-). rewrite xor_at_mid. rewrite !len_app. reflexivity.
  - unfold xor_at. assert (E : drop o v = []).
    { destruct (drop o v) eqn:E; [reflexivity|]. exfalso. assert (Hl : len (drop o v) = len (n :: l)) by (rewrite E; reflexivity).
      rewrite len_drop' in Hl. unfold len in Hl at 2. cbn [length] in Hl. lia. }
    rewrite E. reflexivity.
Qed.
Lemma xor_value P v S o m : o < len v -> xor_at (len P + o) m (P ++ v ++ S) = P ++ xor_at o m v ++ S.
Proof.
  intros H. destruct (split_at v o H) as (v1 & x & v2 & -> & <-).
  rewrite xor_at_mid. rewrite <- len_app. rewrite <- !app_assoc. rewrite (app_assoc P v1). cbn [app].
  rewrite xor_at_mid. rewrite <- app_assoc. reflexivity.
Qed.
Lemma write_value P V S v : len v = len V -> write_at (len P) v (P ++ V ++ S) = P ++ v ++ S.
Proof.
  intros H. rewrite write_at_app by (rewrite len_app; lia). rewrite H, drop_app_exact. reflexivity.
Qed.

Lemma len_flip_value f v : len (flip_value f v) = len v.
Proof. destruct f as [[o m]|]; cbn [flip_value]; [apply len_xor_at|reflexivity]. Qed.
Lemma len_final_value typ txid done a : len (final_value typ txid done a) = len (e_placeholder (craft_e a)).
Proof.
  unfold final_value. rewrite len_flip_value.
  destruct (post_value (craft_e a) _) as [v|] eqn:E; [|reflexivity]. exact (len_placeholder_post _ _ _ E).
Qed.

(* the bit that is flipped lies inside the value *)
Lemma flip_inside a o m : craft_flip a = Some (o, m) -> o < len (e_placeholder (craft_e a)).
Proof.
  destruct a as [ty tag|u|u r|r|n c|l|x|c|k|k|g]; unfold craft_flip, craft_e; cbn [craft_attr fst snd]; try discriminate.
  - destruct k; intros H; inversion H; subst. cbn [e_placeholder]. rewrite len_zeros. lia.
  - destruct k; intros H; inversion H; subst. cbn [e_placeholder]. rewrite len_zeros. lia.
  - destruct g; intros H; inversion H; subst. cbn [e_placeholder]. rewrite len_zeros. lia.
Qed.

Lemma craft_step_good buf0 typ txid done a st :
  length txid = 12%nat -> good buf0 typ txid done st ->
  20 + attr_bytes (done ++ [e_tlv (craft_e a)]) <= len buf0 -> attr_bytes (done ++ [e_tlv (craft_e a)]) <= 65535 ->
  len (e_placeholder (craft_e a)) <= 65535 ->
  good buf0 typ txid (done ++ [(e_type (craft_e a), final_value typ txid done a)]) (craft_step st a).
Proof.
  intros Htx Hg F1 F2 F3.
  pose proof (enc_step_good buf0 typ txid done (e_tlv (craft_e a)) st Htx Hg) as Hs. cbn zeta in Hs.
  replace (20 + attr_bytes (done ++ [e_tlv (craft_e a)]) <=? len buf0) with true in Hs by (symmetry; apply N.leb_le; exact F1).
  replace (attr_bytes (done ++ [e_tlv (craft_e a)]) <=? 65535) with true in Hs by (symmetry; apply N.leb_le; exact F2).
  replace (len (snd (e_tlv (craft_e a))) <=? 65535) with true in Hs by (symmetry; apply N.leb_le; exact F3).
  cbn [andb] in Hs. destruct Hg as (Hst & Hfit & Hmax). destruct Hs as (Hs & _ & _). subst st.
  set (e := craft_e a) in *. set (L := attr_bytes done) in *. set (L' := attr_bytes (done ++ [e_tlv e])) in *.
  set (V := e_placeholder e) in *.
  assert (HL' : L' = L + (4 + len V + pad (len V))) by (unfold L', L; rewrite attr_bytes_app, attr_bytes_one; reflexivity).
  set (P := EncodeInto.header typ L' txid ++ enc_tlvs done ++ be16 (e_type e) ++ be16 (len V)).
  set (S := zeros (pad (len V)) ++ drop (20 + L') buf0).
  assert (HB : EncodeInto.header typ L' txid ++ enc_tlvs (done ++ [e_tlv e]) ++ drop (20 + L') buf0 = P ++ V ++ S).
  { unfold P, S. rewrite enc_tlvs_app. unfold enc_tlvs at 2. cbn [flat_map]. rewrite app_nil_r. unfold enc_tlv, e_tlv. cbn [fst snd]. fold V.
    rewrite <- !app_assoc. reflexivity. }
  assert (HP : len P = L + 24).
  { unfold P. rewrite !len_app, len_header by exact Htx. fold (attr_bytes done). fold L. rewrite !len_be16. lia. }
  assert (Htext : take (L + 20) (P ++ V ++ S) = EncodeInto.header typ L' txid ++ enc_tlvs done).
  { unfold P. rewrite <- !app_assoc. rewrite (app_assoc (EncodeInto.header typ L' txid)).
    replace (L + 20) with (len (EncodeInto.header typ L' txid ++ enc_tlvs done))
      by (rewrite len_app, len_header by exact Htx; fold (attr_bytes done); fold L; lia).
    apply take_app_exact. }
  assert (Hfin : forall v', len v' = len V ->
     good buf0 typ txid (done ++ [(e_type e, v')]) (Ok (P ++ v' ++ S, L'))).
  { intros v' Hv'. unfold good.
    assert (HA : attr_bytes (done ++ [(e_type e, v')]) = L').
    { rewrite attr_bytes_app, attr_bytes_one. cbn [snd]. rewrite Hv'. fold L. lia. }
    rewrite HA. refine (conj _ (conj F1 F2)). f_equal. f_equal.
    unfold P, S. rewrite enc_tlvs_app. unfold enc_tlvs at 3. cbn [flat_map]. rewrite app_nil_r. unfold enc_tlv. cbn [fst snd].
    rewrite Hv'. rewrite <- !app_assoc. reflexivity. }
  unfold craft_step, enc_step2. fold e. rewrite Hs, HB, Htext. fold L.
  unfold final_value. fold e. fold V. fold L'.
  destruct (post_value e (EncodeInto.header typ L' txid ++ enc_tlvs done)) as [v|] eqn:Ev.
  - assert (Hv : len v = len V) by exact (len_placeholder_post _ _ _ Ev).
    rewrite <- HP. rewrite write_value by exact Hv.
    destruct (craft_flip a) as [[o m]|] eqn:Ef; cbn [flip_value].
    + rewrite xor_value by (rewrite Hv; exact (flip_inside a o m Ef)).
      apply Hfin. rewrite len_xor_at. exact Hv.
    + apply Hfin. exact Hv.
  - destruct (craft_flip a) as [[o m]|] eqn:Ef; cbn [flip_value].
    + rewrite <- HP. rewrite xor_value by exact (flip_inside a o m Ef).
      apply Hfin. apply len_xor_at.
    + apply Hfin. reflexivity.
Qed.

(* the TLVs added after `done` *)
Fixpoint tail_tlvs (typ:N) (txid:bytes) (done:list tlv) (l:list attr) : list tlv :=
  match l with
  | [] => []
  | a :: r => let x := (e_type (craft_e a), final_value typ txid done a) in x :: tail_tlvs typ txid (done ++ [x]) r
  end.
Lemma final_tlvs_eq typ txid : forall l done, final_tlvs typ txid done l = done ++ tail_tlvs typ txid done l.
Proof.
  induction l as [|a l IH]; intros done; cbn [final_tlvs tail_tlvs]; [symmetry; apply app_nil_r|].
  rewrite IH, <- app_assoc. reflexivity.
Qed.

Definition asz (l:list attr) : N := attr_bytes (map (fun a => e_tlv (craft_e a)) l).
Lemma asz_cons a l : asz (a :: l) = 4 + len (e_placeholder (craft_e a)) + pad (len (e_placeholder (craft_e a))) + asz l.
Proof. unfold asz. cbn [map]. rewrite attr_bytes_cons. reflexivity. Qed.
Lemma attr_bytes_snoc_final typ txid done a :
  attr_bytes (done ++ [(e_type (craft_e a), final_value typ txid done a)]) = attr_bytes (done ++ [e_tlv (craft_e a)]).
Proof. rewrite !attr_bytes_app, !attr_bytes_one. cbn [snd e_tlv]. rewrite len_final_value. reflexivity. Qed.
Lemma attr_bytes_final typ txid : forall l done, attr_bytes (final_tlvs typ txid done l) = attr_bytes done + asz l.
Proof.
  induction l as [|a l IH]; intros done; cbn [final_tlvs].
  - replace (asz []) with 0 by reflexivity. lia.
  - rewrite IH, attr_bytes_snoc_final, attr_bytes_app, attr_bytes_one, asz_cons. cbn [snd e_tlv]. lia.
Qed.

Lemma craft_fold_good : forall rest buf0 typ txid done st, length txid = 12%nat -> good buf0 typ txid done st ->
  20 + attr_bytes done + asz rest <= len buf0 -> attr_bytes done + asz rest <= 65535 ->
  forallb (fun a => len (e_placeholder (craft_e a)) <=? 65535) rest = true ->
  good buf0 typ txid (final_tlvs typ txid done rest) (fold_left craft_step rest st).
Proof.
  induction rest as [|a rest IH]; intros buf0 typ txid done st Htx Hg F1 F2 F3; cbn [fold_left final_tlvs]; [exact Hg|].
  cbn [forallb] in F3. apply andb_prop in F3 as [F3 F4]. apply N.leb_le in F3. rewrite asz_cons in F1, F2.
  assert (HA : attr_bytes (done ++ [e_tlv (craft_e a)]) = attr_bytes done + (4 + len (e_placeholder (craft_e a)) + pad (len (e_placeholder (craft_e a)))))
    by (rewrite attr_bytes_app, attr_bytes_one; reflexivity).
  apply IH; [exact Htx| | | |exact F4].
  - apply craft_step_good; [exact Htx|exact Hg| | |exact F3]; rewrite HA; lia.
  - rewrite attr_bytes_snoc_final, HA. lia.
  - rewrite attr_bytes_snoc_final, HA. lia.
Qed.

Lemma size_ok_spec attrs : size_ok attrs = true ->
  asz attrs <= 65535 /\ forallb (fun a => len (e_placeholder (craft_e a)) <=? 65535) attrs = true.
Proof. unfold size_ok. intros H. apply andb_prop in H as [H _]. apply andb_prop in H as [A B]. apply N.leb_le in A. split; assumption. Qed.
Lemma size_ok_types attrs : size_ok attrs = true -> forallb (fun a => e_type (craft_e a) <? 65536) attrs = true.
Proof. unfold size_ok. intros H. apply andb_prop in H as [_ H]. exact H. Qed.
Lemma craft_needed_asz attrs : craft_needed attrs = 20 + asz attrs.
Proof. unfold craft_needed, needed, asz. rewrite map_map. reflexivity. Qed.

Lemma init_good buf typ txid : length txid = 12%nat -> 20 <= len buf ->
  good buf typ txid [] (Ok (write_at 0 (EncodeInto.header typ 0 txid) buf, 0)).
Proof.
  intros Htx Hs. unfold good, attr_bytes. cbn [enc_tlvs flat_map app]. change (len (@nil N)) with 0.
  assert (G1 : 20 + 0 <= len buf) by lia. assert (G2 : 0 <= 65535) by lia. refine (conj _ (conj G1 G2)).
  f_equal. f_equal. unfold write_at. change (take 0 buf) with (@nil N). cbn [app]. rewrite len_header by exact Htx. reflexivity.
Qed.

(* the fold of the crafting steps over ANY sufficiently large buffer writes exactly packet_bytes and leaves the rest *)
Theorem craft_fold_closed buf typ txid attrs : length txid = 12%nat -> size_ok attrs = true -> craft_needed attrs <= len buf ->
  fold_left craft_step attrs (Ok (write_at 0 (EncodeInto.header typ 0 txid) buf, 0))
  = Ok (packet_bytes typ txid attrs ++ drop (craft_needed attrs) buf, asz attrs).
Proof.
  intros Htx Hsz Hbuf. destruct (size_ok_spec attrs Hsz) as [S1 S2]. rewrite craft_needed_asz in Hbuf |- *.
  assert (H0 : attr_bytes (@nil tlv) = 0) by reflexivity.
  pose proof (craft_fold_good attrs buf typ txid [] _ Htx (init_good buf typ txid Htx ltac:(lia))
                ltac:(rewrite H0; lia) ltac:(rewrite H0; lia) S2) as (Hst & _ & _).
  rewrite Hst. pose proof (attr_bytes_final typ txid attrs []) as HA. rewrite H0 in HA. rewrite HA, N.add_0_l.
  unfold packet_bytes. rewrite HA, N.add_0_l, <- app_assoc. reflexivity.
Qed.

Lemma len_packet_bytes typ txid attrs : length txid = 12%nat -> len (packet_bytes typ txid attrs) = 20 + asz attrs.
Proof.
  intros Htx. unfold packet_bytes. rewrite len_app, len_header by exact Htx. fold (attr_bytes (final_tlvs typ txid [] attrs)).
  rewrite attr_bytes_final. change (attr_bytes []) with 0. lia.
Qed.

Theorem craft_packet_closed class method txid attrs : length txid = 12%nat -> size_ok attrs = true ->
  craft_packet class method txid attrs = Ok (packet_bytes (msg_type_of method class) txid attrs).
Proof.
  intros Htx Hsz. unfold craft_packet, craft_fold.
  rewrite craft_fold_closed; [|exact Htx|exact Hsz|rewrite len_zeros; lia].
  f_equal. replace (asz attrs + 20) with (len (packet_bytes (msg_type_of method class) txid attrs))
    by (rewrite len_packet_bytes by exact Htx; lia).
  apply take_app_exact.
Qed.

(* without corrupted attributes the crafting step IS the encoder step, the rendering IS MessageEncoder::encode's *)
Lemma craft_step_plain st a : is_corrupt a = false -> craft_step st a = enc_step2 st (craft_e a).
Proof.
  unfold is_corrupt, craft_step. destruct (craft_flip a); [discriminate|]. intros _.
  destruct st as [[b L]| |]; [|reflexivity..]. destruct (enc_step2 (Ok (b, L)) (craft_e a)) as [[b' L']| |]; reflexivity.
Qed.
Lemma craft_fold_plain : forall attrs st, forallb (fun a => negb (is_corrupt a)) attrs = true ->
  fold_left craft_step attrs st = fold_left enc_step2 (map craft_e attrs) st.
Proof.
  induction attrs as [|a l IH]; intros st H; cbn [fold_left map]; [reflexivity|].
  cbn [forallb] in H. apply andb_prop in H as [Ha Hl]. rewrite craft_step_plain by (destruct (is_corrupt a); [discriminate|reflexivity]).
  apply IH. exact Hl.
Qed.
Theorem craft_is_encode_msg class method txid attrs : forallb (fun a => negb (is_corrupt a)) attrs = true ->
  craft_packet class method txid attrs = encode_packet class method txid attrs.
Proof.
  intros H. unfold craft_packet, encode_packet, craft_fold, encode_msg.
  assert (E : (len (zeros (craft_needed attrs)) <? 20) = false).
  { apply N.ltb_ge. rewrite len_zeros. unfold craft_needed, needed. lia. }
  rewrite E, craft_fold_plain by exact H.
  destruct (fold_left enc_step2 _ _) as [[o L]| |]; reflexivity.
Qed.

(* MessageEncoder::encode (the model EncodeMsg.encode_msg) into ANY buffer that is large enough writes packet_bytes *)
Theorem encode_msg_packet_bytes buf typ txid attrs : length txid = 12%nat -> size_ok attrs = true ->
  forallb (fun a => negb (is_corrupt a)) attrs = true -> craft_needed attrs <= len buf ->
  encode_msg buf typ txid (map craft_e attrs) = Ok (packet_bytes typ txid attrs ++ drop (craft_needed attrs) buf, craft_needed attrs).
Proof.
  intros Htx Hsz Hc Hbuf. unfold encode_msg.
  assert (E : (len buf <? 20) = false) by (apply N.ltb_ge; rewrite craft_needed_asz in Hbuf; lia).
  rewrite E, <- craft_fold_plain by exact Hc. rewrite craft_fold_closed by assumption.
  rewrite craft_needed_asz. f_equal. f_equal. lia.
Qed.

(* ================================================================== 2. the vocabulary is read back *)
Fixpoint pow10 (f:nat) : N := match f with O => 1 | S f => 10 * pow10 f end.
Lemma pow10_pos f : 0 < pow10 f. Proof. induction f; cbn [pow10]; lia. Qed.

Lemma parse_digit d rest a : d < 10 -> parse_dec_go ((48 + d) :: rest) a = parse_dec_go rest (a * 10 + d).
Proof.
  intros H. cbn [parse_dec_go].
  replace (48 <=? 48 + d) with true by (symmetry; apply N.leb_le; lia).
  replace (48 + d <=? 57) with true by (symmetry; apply N.leb_le; lia). cbn [andb]. f_equal. lia.
Qed.

Lemma dec_digits_S f n acc : dec_digits (S f) n acc =
  if n / 10 =? 0 then (48 + n mod 10) :: acc else dec_digits f (n / 10) ((48 + n mod 10) :: acc).
Proof. reflexivity. Qed.
Lemma dec_digits_spec : forall f n acc, n < pow10 (S f) ->
  exists ds k, dec_digits (S f) n acc = ds ++ acc /\ ds <> [] /\ forall rest a, parse_dec_go (ds ++ rest) a = parse_dec_go rest (a * k + n).
Proof.
  induction f as [|f IH]; intros n acc Hn; cbn [pow10] in Hn; rewrite dec_digits_S; destruct (n / 10 =? 0) eqn:E.
  - apply N.eqb_eq in E. exists [48 + n mod 10], 10. split; [reflexivity|]. split; [discriminate|].
    intros rest a. cbn [app]. rewrite parse_digit by lia. f_equal. lia.
  - apply N.eqb_neq in E. exfalso. lia.
  - apply N.eqb_eq in E. exists [48 + n mod 10], 10. split; [reflexivity|]. split; [discriminate|].
    intros rest a. cbn [app]. rewrite parse_digit by lia. f_equal. lia.
  - apply N.eqb_neq in E.
    assert (Hq : n / 10 < pow10 (S f)) by (cbn [pow10]; lia).
    destruct (IH (n / 10) ((48 + n mod 10) :: acc) Hq) as (ds & k & Hd & Hne & Hp).
    exists (ds ++ [48 + n mod 10]), (k * 10). split; [rewrite Hd, <- app_assoc; reflexivity|].
    split; [destruct ds; discriminate|].
    intros rest a. rewrite <- app_assoc. rewrite Hp. cbn [app]. rewrite parse_digit by lia. f_equal. lia.
Qed.

Lemma av_bytes_eqb_refl s : av_bytes_eqb s s = true.
Proof. induction s as [|x s IH]; [reflexivity|]. cbn [av_bytes_eqb]. rewrite N.eqb_refl, IH. reflexivity. Qed.
Lemma av_bytes_eqb_eq : forall a b, av_bytes_eqb a b = true -> a = b.
Proof.
  induction a as [|x a IH]; intros [|y b]; cbn [av_bytes_eqb]; try discriminate; [reflexivity|].
  intros H. apply andb_prop in H as [H1 H2]. apply N.eqb_eq in H1. subst. f_equal. apply IH. exact H2.
Qed.

Lemma tok_lt_pow n : tok_ok n = true -> n < pow10 40.
Proof. unfold tok_ok. intros H. apply N.ltb_lt in H. assert (E : 4294967296 < pow10 40) by (vm_compute; reflexivity). lia. Qed.

Lemma num_opt_dec n : tok_ok n = true -> num_opt (dec n) = Some n.
Proof.
  intros H. apply tok_lt_pow in H. unfold num_opt, dec.
  destruct (dec_digits_spec 39 n [] H) as (ds & k & Hd & Hne & Hp). fold (dec n) in *. unfold dec in Hd |- *. rewrite Hd, app_nil_r.
  destruct ds as [|d ds]; [congruence|].
  specialize (Hp [] 0). rewrite app_nil_r in Hp. rewrite Hp. cbn [parse_dec_go]. rewrite N.mul_0_l, N.add_0_l.
  fold (dec n). unfold dec. rewrite Hd, app_nil_r, av_bytes_eqb_refl. reflexivity.
Qed.
Lemma num_dec n : tok_ok n = true -> num (dec n) = n.
Proof. intros H. unfold num. rewrite num_opt_dec by exact H. reflexivity. Qed.
Lemma num_after_app p n : tok_ok n = true -> num_after p (p ++ dec n) = n.
Proof. intros H. unfold num_after. rewrite strip_prefix_app. apply num_dec. exact H. Qed.

Lemma strip_suffix_app p s : strip_suffix p (s ++ p) = Some s.
Proof. unfold strip_suffix. rewrite rev_app_distr, strip_prefix_app, rev_involutive. reflexivity. Qed.

Lemma realm_back r : tok_ok r = true ->
  match strip_prefix k_realm (realm_str r) with
  | Some x => match strip_suffix k_dot_org x with Some d => num d | None => 9999 end
  | None => 9999 end = r.
Proof. intros H. unfold realm_str. rewrite strip_prefix_app, strip_suffix_app. apply num_dec. exact H. Qed.

(* ---- nonces *)
Definition nonce_with (d:bytes) (c:N) : bytes :=
  if c =? 0 then k_nonce ++ d
  else if c =? 1 then nonce_cookie_header ++ b64_enc3 0 0 0 ++ k_n ++ d
  else if c =? 2 then nonce_cookie_header ++ b64_enc3 128 0 0 ++ k_n ++ d
  else if c =? 3 then nonce_cookie_header ++ b64_enc3 64 0 0 ++ k_n ++ d
  else if c =? 4 then nonce_cookie_header ++ b64_enc3 192 0 0 ++ k_n ++ d
  else if c =? 5 then nonce_cookie_header ++ k_badfeat_n ++ d
  else nonce_cookie_header ++ k_abc ++ [195; 128; 194; 128] ++ k_n ++ d.
Definition nonce_k (c:N) : bytes := firstn (List.length (nonce_str 0 c) - 1) (nonce_str 0 c).
Lemma c_cases c : c <= 6 -> In c [0; 1; 2; 3; 4; 5; 6].
Proof. intros H. cbn [In]. lia. Qed.
Lemma nonce_with_k c d : c <= 6 -> nonce_with d c = nonce_k c ++ d.
Proof.
  intros H. apply c_cases in H. cbn [In] in H.
  repeat (destruct H as [<-|H]; [vm_compute; reflexivity|]). destruct H.
Qed.
Lemma nonce_str_k n c : c <= 6 -> nonce_str n c = nonce_k c ++ dec n.
Proof. intros H. rewrite <- nonce_with_k by exact H. reflexivity. Qed.

Lemma strip_prefix_app_l : forall p k t, (length p <= length k)%nat ->
  strip_prefix p (k ++ t) = match strip_prefix p k with Some r => Some (r ++ t) | None => None end.
Proof.
  induction p as [|x p IH]; intros k t H; cbn [strip_prefix]; [reflexivity|].
  destruct k as [|y k]; [cbn in H; lia|]. cbn [app strip_prefix]. destruct (x =? y); [|reflexivity].
  apply IH. cbn [length] in H. lia.
Qed.
Lemma nonce_skip c c' d : c <= 6 -> c' < c -> strip_prefix (nonce_k c') (nonce_k c ++ d) = None.
Proof.
  intros Hc Hlt. assert (Hc' : c' <= 6) by lia. apply c_cases in Hc, Hc'. cbn [In] in Hc, Hc'.
  repeat (destruct Hc as [<-|Hc]);
    repeat (destruct Hc' as [<-|Hc']);
    try (exfalso; lia); try (destruct Hc); try (destruct Hc');
    (rewrite strip_prefix_app_l by (vm_compute; lia)); vm_compute; reflexivity.
Qed.

Lemma parse_nonce_go_run n c : c <= 6 -> tok_ok n = true -> forall fuel c', c' <= c -> (N.to_nat (c - c') < fuel)%nat ->
  parse_nonce_go fuel c' (nonce_str n c) = (n, c).
Proof.
  intros Hc Hn. induction fuel as [|f IH]; intros c' Hle Hf; [lia|].
  cbn [parse_nonce_go]. fold (nonce_k c').
  destruct (N.eq_dec c' c) as [->|Hne].
  - rewrite (nonce_str_k n c Hc) at 1. rewrite strip_prefix_app, num_opt_dec by exact Hn.
    rewrite av_bytes_eqb_refl. reflexivity.
  - rewrite (nonce_str_k n c Hc) at 1. rewrite nonce_skip by lia. apply IH; lia.
Qed.
Lemma parse_nonce_back n c : tok_ok n = true -> c <= 6 -> parse_nonce (nonce_str n c) = (n, c).
Proof. intros Hn Hc. unfold parse_nonce. apply parse_nonce_go_run; try assumption; lia. Qed.

(* ---- algorithms *)
Lemma be_u32_2 x y : be_u32 [x; y] = x * 256 + y.
Proof. unfold be_u32. cbn [fold_left]. lia. Qed.
Lemma alg_back a : alg_ok a = true -> alg_of (be_u32 (firstn 2 (be16 (alg_id a) ++ [0; 0]))) = a.
Proof.
  intros H. unfold be16. cbn [app firstn]. rewrite be_u32_2.
  destruct a as [| |n]; cbn [alg_id]; [reflexivity|reflexivity|].
  cbn [alg_ok] in H. apply andb_prop in H as [H H3]. apply andb_prop in H as [H1 H2].
  apply N.ltb_lt in H3. replace (n / 256 * 256 + n mod 256) with n by lia.
  unfold alg_of. destruct (n =? 1); [discriminate|]. destruct (n =? 2); [discriminate|]. reflexivity.
Qed.
Lemma algs_back : forall l fuel, forallb alg_ok l = true -> (length l <= fuel)%nat ->
  map (fun c => alg_of (be_u32 (firstn 2 c))) (chunks4 fuel (algs_value l)) = l.
Proof.
  induction l as [|a l IH]; intros fuel H Hf.
  - destruct fuel; reflexivity.
  - cbn [forallb] in H. apply andb_prop in H as [Ha Hl]. destruct fuel as [|f]; [cbn in Hf; lia|].
    unfold algs_value. cbn [flat_map]. fold (algs_value l). unfold be16 at 1. cbn [app chunks4 firstn skipn map].
    f_equal; [exact (alg_back a Ha)|]. apply IH; [exact Hl|cbn [length] in Hf; lia].
Qed.
Lemma len_algs_value l : length (algs_value l) = (4 * length l)%nat.
Proof. induction l as [|a l IH]; [reflexivity|]. unfold algs_value in *. cbn [flat_map]. rewrite app_length, IH. cbn [be16 app length]. lia. Qed.

(* ---- numbers *)
Lemma be_u32_be32 n : n < 4294967296 -> be_u32 (be32 n) = n.
Proof. intros H. unfold be_u32, be32. cbn [fold_left]. lia. Qed.
Lemma error_back c : c < 25600 -> nth 2 (error_value c) 0 * 100 + nth 3 (error_value c) 0 = c.
Proof. intros H. unfold error_value. cbn [app nth]. lia. Qed.

(* ---- first candidate *)
Lemma alg_eqb_true a b : alg_eqb a b = true -> a = b.
Proof. destruct a, b; cbn [alg_eqb]; try discriminate; try reflexivity. intros H. apply N.eqb_eq in H. subst. reflexivity. Qed.
Lemma keyd_eqb_true a b : keyd_eqb a b = true -> a = b.
Proof.
  destruct a, b; cbn [keyd_eqb]; try discriminate.
  - intros H. apply N.eqb_eq in H. subst. reflexivity.
  - intros H. apply andb_prop in H as [H H3]. apply andb_prop in H as [H1 H2]. apply N.eqb_eq in H1, H2. apply alg_eqb_true in H3. subst. reflexivity.
Qed.
Lemma find_keyd (P:keyd -> bool) k : forall l, keyd_in k l = true -> P k = true ->
  forallb (fun k' => negb (P k')) (earlier k l) = true -> find P l = Some k.
Proof.
  induction l as [|x l IH]; intros Hin Hk He; cbn [keyd_in] in Hin; [discriminate|].
  cbn [earlier] in He. cbn [find]. destruct (keyd_eqb x k) eqn:E.
  - apply keyd_eqb_true in E. subst x. rewrite Hk. reflexivity.
  - cbn [orb] in Hin. cbn [forallb] in He. apply andb_prop in He as [Hx He].
    destruct (P x); [discriminate|]. apply IH; assumption.
Qed.
Lemma find_pair (P:N * N -> bool) u r : forall l, pair_in u r l = true -> P (u, r) = true ->
  forallb (fun p => negb (P p)) (earlier_pair u r l) = true -> find P l = Some (u, r).
Proof.
  induction l as [|x l IH]; intros Hin Hk He; unfold pair_in in Hin; cbn [existsb] in Hin; [discriminate|].
  cbn [earlier_pair] in He. cbn [find]. destruct ((fst x =? u) && (snd x =? r)) eqn:E.
  - apply andb_prop in E as [E1 E2]. apply N.eqb_eq in E1, E2. destruct x as [a b]. cbn [fst snd] in *. subst. rewrite Hk. reflexivity.
  - cbn [orb] in Hin. cbn [forallb] in He. apply andb_prop in He as [Hx He].
    destruct (P x); [discriminate|]. apply IH; assumption.
Qed.
Lemma keyd_in_not_corrupt l : keyd_in KCorrupt l = false.
Proof. induction l as [|x l IH]; [reflexivity|]. cbn [keyd_in]. rewrite IH. destruct x; reflexivity. Qed.

(* ================================================================== 3. one crafted attribute is read back *)
Definition mtext (b:bytes) (off vlen:N) : bytes := set_len (take (off - 4) b) (off - 4 - 20 + 4 + vlen + pad vlen).

Lemma abs_attr_6 realms b off l : abs_attr realms b 6 off l = UserName (num_after k_user (take l (drop off b))).
Proof. reflexivity. Qed.
Lemma abs_attr_30 realms b off l : abs_attr realms b 30 off l =
  match find (fun ur => av_bytes_eqb (user_hash (fst ur) (snd ur)) (take l (drop off b))) (hash_cands realms) with
  | Some (u, r) => UserHash u r | None => UserHash 9999 9999 end.
Proof. reflexivity. Qed.
Lemma abs_attr_20 realms b off l : abs_attr realms b 20 off l =
  Realm (match strip_prefix k_realm (take l (drop off b)) with
         | Some r => match strip_suffix k_dot_org r with Some d => num d | None => 9999 end
         | None => 9999 end).
Proof. reflexivity. Qed.
Lemma abs_attr_21 realms b off l : abs_attr realms b 21 off l = let '(n, c) := parse_nonce (take l (drop off b)) in Nonce n c.
Proof. reflexivity. Qed.
Lemma abs_attr_32770 realms b off l : abs_attr realms b 32770 off l =
  PwdAlgs (map (fun c => alg_of (be_u32 (firstn 2 c))) (chunks4 (List.length (take l (drop off b))) (take l (drop off b)))).
Proof. reflexivity. Qed.
Lemma abs_attr_29 realms b off l : abs_attr realms b 29 off l = PwdAlg (alg_of (be_u32 (firstn 2 (take l (drop off b))))).
Proof. reflexivity. Qed.
Lemma abs_attr_9 realms b off l : abs_attr realms b 9 off l = ErrorCode (nth 2 (take l (drop off b)) 0 * 100 + nth 3 (take l (drop off b)) 0).
Proof. reflexivity. Qed.
Lemma abs_attr_8 realms b off l : abs_attr realms b 8 off l =
  AMI (match find (fun k => (l =? 20) && av_bytes_eqb (hmac_sha1 (key_bytes k) (mtext b off 20)) (take l (drop off b))) (key_cands realms) with
       | Some k => k | None => KCorrupt end).
Proof. reflexivity. Qed.
Lemma abs_attr_28 realms b off l : abs_attr realms b 28 off l =
  ASHA (match find (fun k => (l =? 32) && av_bytes_eqb (hmac_sha256 (key_bytes k) (mtext b off 32)) (take l (drop off b))) (key_cands realms) with
        | Some k => k | None => KCorrupt end).
Proof. reflexivity. Qed.
Lemma abs_attr_32808 realms b off l : abs_attr realms b 32808 off l =
  AFP ((l =? 4) && av_bytes_eqb (be32 (N.lxor (crc32 (mtext b off 4)) 0x5354554e)) (take l (drop off b))).
Proof. reflexivity. Qed.
Lemma abs_attr_app realms b aty off l : special_type aty = false ->
  abs_attr realms b aty off l =
  if aty =? 32802 then App aty (num_after k_sw (take l (drop off b)))
  else if aty =? 36 then App aty (if l =? 4 then be_u32 (take l (drop off b)) else 4294967295)
  else App aty (be_u32 (zero_pad4 (take l (drop off b)))).
Proof.
  unfold special_type. cbn [existsb]. intros H.
  repeat (apply orb_false_elim in H as [?E H]). unfold abs_attr.
  rewrite E, E0, E1, E2, E3, E4, E5, E6, E7, E8. reflexivity.
Qed.

Lemma hash_cands_eq realms : rev (flat_map (fun r => [(0, r); (5, r)]) realms) = hash_cands realms.
Proof. reflexivity. Qed.

Lemma final_value_plain typ txid done a ty v : craft_attr a = (EPlain ty v, None) -> final_value typ txid done a = v.
Proof. intros H. unfold final_value, craft_e, craft_flip. rewrite H. reflexivity. Qed.

Theorem abs_crafted_attr realms typ txid done a b off :
  take (len (final_value typ txid done a)) (drop off b) = final_value typ txid done a ->
  (forall vlen, mtext b off vlen = EncodeInto.header typ (attr_bytes done + (4 + vlen + pad vlen)) txid ++ enc_tlvs done) ->
  attr_ok realms a = true -> no_collision_attr realms typ txid done a = true ->
  abs_attr realms b (e_type (craft_e a)) off (len (final_value typ txid done a)) = a.
Proof.
  intros Hv Ht Hok Hnc.
  destruct a as [ty tag|u|u r|r|n c|l|x|c|k|k|g]; cbn [attr_ok] in Hok.
  - (* App *)
    rewrite (final_value_plain typ txid done (App ty tag) ty (app_value ty tag) eq_refl) in *.
    change (e_type (craft_e (App ty tag))) with ty.
    apply andb_prop in Hok as [Hok H3]. apply andb_prop in Hok as [H1 H2]. apply negb_true_iff in H2.
    rewrite abs_attr_app by exact H2. rewrite Hv. unfold app_value in *.
    destruct (ty =? 32802) eqn:E1.
    + rewrite num_after_app by exact H3. reflexivity.
    + destruct (ty =? 36) eqn:E2.
      * replace (len (be32 tag) =? 4) with true by reflexivity. rewrite be_u32_be32 by (apply N.ltb_lt; exact H3). reflexivity.
      * apply andb_prop in H3 as [_ H3]. apply N.eqb_eq in H3. rewrite H3. reflexivity.
  - rewrite (final_value_plain typ txid done (UserName u) 6 (user_str u) eq_refl) in *.
    change (e_type (craft_e (UserName u))) with 6. rewrite abs_attr_6, Hv. unfold user_str. rewrite num_after_app by exact Hok. reflexivity.
  - rewrite (final_value_plain typ txid done (UserHash u r) 30 (user_hash u r) eq_refl) in *.
    change (e_type (craft_e (UserHash u r))) with 30. rewrite abs_attr_30, Hv. cbn [no_collision_attr] in Hnc.
    rewrite (find_pair (fun ur => av_bytes_eqb (user_hash (fst ur) (snd ur)) (user_hash u r)) u r (hash_cands realms) Hok
               (av_bytes_eqb_refl _) Hnc). reflexivity.
  - rewrite (final_value_plain typ txid done (Realm r) 20 (realm_str r) eq_refl) in *.
    change (e_type (craft_e (Realm r))) with 20. rewrite abs_attr_20, Hv, realm_back by exact Hok. reflexivity.
  - rewrite (final_value_plain typ txid done (Nonce n c) 21 (nonce_str n c) eq_refl) in *.
    change (e_type (craft_e (Nonce n c))) with 21. apply andb_prop in Hok as [H1 H2]. apply N.leb_le in H2.
    rewrite abs_attr_21, Hv, parse_nonce_back by assumption. reflexivity.
  - rewrite (final_value_plain typ txid done (PwdAlgs l) 32770 (algs_value l) eq_refl) in *.
    change (e_type (craft_e (PwdAlgs l))) with 32770. rewrite abs_attr_32770, Hv.
    rewrite algs_back; [reflexivity|exact Hok|rewrite len_algs_value; lia].
  - rewrite (final_value_plain typ txid done (PwdAlg x) 29 (algs_value [x]) eq_refl) in *.
    change (e_type (craft_e (PwdAlg x))) with 29. rewrite abs_attr_29, Hv.
    unfold algs_value. cbn [flat_map]. rewrite app_nil_r. rewrite alg_back by exact Hok. reflexivity.
  - rewrite (final_value_plain typ txid done (ErrorCode c) 9 (error_value c) eq_refl) in *.
    change (e_type (craft_e (ErrorCode c))) with 9. rewrite abs_attr_9, Hv, error_back by (apply N.ltb_lt; exact Hok). reflexivity.
  - (* AMI *)
    assert (Hk : craft_flip (AMI k) = None).
    { unfold craft_flip. cbn [craft_attr snd]. destruct k; try reflexivity. rewrite keyd_in_not_corrupt in Hok. discriminate. }
    assert (Hfv : final_value typ txid done (AMI k) = hmac_sha1 (key_bytes k) (EncodeInto.header typ (attr_bytes done + 24) txid ++ enc_tlvs done)).
    { unfold final_value. rewrite Hk. unfold craft_e. cbn [craft_attr fst post_value flip_value].
      rewrite attr_bytes_app, attr_bytes_one. cbn [e_tlv snd e_placeholder]. rewrite len_zeros. reflexivity. }
    rewrite Hfv in *. change (e_type (craft_e (AMI k))) with 8. rewrite abs_attr_8, Hv, (Ht 20).
    change (4 + 20 + pad 20) with 24. rewrite len_hmac_sha1. change (20 =? 20) with true. cbn [andb no_collision_attr] in *.
    set (text := EncodeInto.header typ (attr_bytes done + 24) txid ++ enc_tlvs done) in *.
    rewrite (find_keyd (fun k0 => av_bytes_eqb (hmac_sha1 (key_bytes k0) text) (hmac_sha1 (key_bytes k) text)) k _ Hok (av_bytes_eqb_refl _) Hnc).
    reflexivity.
  - (* ASHA *)
    assert (Hk : craft_flip (ASHA k) = None).
    { unfold craft_flip. cbn [craft_attr snd]. destruct k; try reflexivity. rewrite keyd_in_not_corrupt in Hok. discriminate. }
    assert (Hfv : final_value typ txid done (ASHA k) = hmac_sha256 (key_bytes k) (EncodeInto.header typ (attr_bytes done + 36) txid ++ enc_tlvs done)).
    { unfold final_value. rewrite Hk. unfold craft_e. cbn [craft_attr fst post_value flip_value].
      rewrite attr_bytes_app, attr_bytes_one. cbn [e_tlv snd e_placeholder]. rewrite len_zeros. reflexivity. }
    rewrite Hfv in *. change (e_type (craft_e (ASHA k))) with 28. rewrite abs_attr_28, Hv, (Ht 32).
    change (4 + 32 + pad 32) with 36. rewrite len_hmac_sha256. change (32 =? 32) with true. cbn [andb no_collision_attr] in *.
    set (text := EncodeInto.header typ (attr_bytes done + 36) txid ++ enc_tlvs done) in *.
    rewrite (find_keyd (fun k0 => av_bytes_eqb (hmac_sha256 (key_bytes k0) text) (hmac_sha256 (key_bytes k) text)) k _ Hok (av_bytes_eqb_refl _) Hnc).
    reflexivity.
  - (* AFP true *)
    subst g.
    assert (Hfv : final_value typ txid done (AFP true) = be32 (fp_value (EncodeInto.header typ (attr_bytes done + 8) txid ++ enc_tlvs done))).
    { unfold final_value, craft_e, craft_flip. cbn [craft_attr fst snd post_value flip_value].
      rewrite attr_bytes_app, attr_bytes_one. cbn [e_tlv snd e_placeholder]. rewrite len_zeros. reflexivity. }
    rewrite Hfv in *. change (e_type (craft_e (AFP true))) with 32808. rewrite abs_attr_32808, Hv, (Ht 4).
    change (4 + 4 + pad 4) with 8. unfold fp_value. rewrite av_bytes_eqb_refl. reflexivity.
Qed.

(* ================================================================== 4. the whole packet is read back (abs_craft) *)
Lemma tlvs_ok_final typ txid : forall l done, forallb tlv_ok done = true ->
  forallb (fun a => len (e_placeholder (craft_e a)) <=? 65535) l = true -> forallb (fun a => e_type (craft_e a) <? 65536) l = true ->
  forallb tlv_ok (final_tlvs typ txid done l) = true.
Proof.
  induction l as [|a l IH]; intros done Hd H1 H2; cbn [final_tlvs]; [exact Hd|].
  cbn [forallb] in H1, H2. apply andb_prop in H1 as [H1 H1']. apply andb_prop in H2 as [H2 H2'].
  apply IH; [|exact H1'|exact H2']. rewrite forallb_app, Hd. cbn [forallb andb]. rewrite andb_true_r.
  unfold tlv_ok. cbn [fst snd]. rewrite H2, len_final_value. apply N.leb_le in H1. apply N.ltb_lt. lia.
Qed.

Lemma set_len_header typ L L2 txid X : set_len (EncodeInto.header typ L txid ++ X) L2 = EncodeInto.header typ L2 txid ++ X.
Proof. unfold EncodeInto.header, be16. cbn [app set_len]. reflexivity. Qed.

Section Packet.
Variables (realms:list N) (typ:N) (txid:bytes) (Tall:list tlv).
Hypothesis Htx : length txid = 12%nat.
Hypothesis Hall : forallb tlv_ok Tall = true.
Let Ltot := attr_bytes Tall.
Let b := EncodeInto.header typ Ltot txid ++ enc_tlvs Tall.

Lemma b_split done R : Tall = done ++ R ->
  b = (EncodeInto.header typ Ltot txid ++ enc_tlvs done) ++ enc_tlvs R
  /\ len (EncodeInto.header typ Ltot txid ++ enc_tlvs done) = 20 + attr_bytes done
  /\ Ltot = attr_bytes done + attr_bytes R.
Proof.
  intros E. unfold b, Ltot. rewrite E, enc_tlvs_app, attr_bytes_app, <- app_assoc.
  repeat split. rewrite len_app, len_header by exact Htx. reflexivity.
Qed.

(* the value of the attribute after `done`, and the text a MAC / CRC placed there covers *)
Lemma value_at done ty v R : Tall = done ++ (ty, v) :: R -> take (len v) (drop (20 + attr_bytes done + 4) b) = v.
Proof.
  intros E. destruct (b_split done _ E) as (Hb & Hl & _). rewrite Hb.
  replace (20 + attr_bytes done + 4) with (len (EncodeInto.header typ Ltot txid ++ enc_tlvs done) + 4) by lia.
  rewrite <- drop_drop', drop_app_exact. change (enc_tlvs ((ty, v) :: R)) with (enc_tlv (ty, v) ++ enc_tlvs R).
  unfold enc_tlv, be16. cbn [fst snd app]. change (drop 4 (?a :: ?b :: ?c :: ?d :: ?r)) with r.
  rewrite <- app_assoc. apply take_app_exact.
Qed.
Lemma text_at done R vlen : Tall = done ++ R ->
  mtext b (20 + attr_bytes done + 4) vlen = EncodeInto.header typ (attr_bytes done + (4 + vlen + pad vlen)) txid ++ enc_tlvs done.
Proof.
  intros E. destruct (b_split done _ E) as (Hb & Hl & _). unfold mtext.
  replace (20 + attr_bytes done + 4 - 4) with (len (EncodeInto.header typ Ltot txid ++ enc_tlvs done)) by lia.
  rewrite Hb at 1. rewrite take_app_exact, set_len_header. f_equal. f_equal. lia.
Qed.

Fixpoint triples (p:N) (R:list tlv) : list (N * N * N) :=
  match R with [] => [] | x :: R' => (fst x, p + 4, len (snd x)) :: triples (p + 4 + len (snd x) + pad (len (snd x))) R' end.

Lemma walk_tlvs : forall R done fuel, Tall = done ++ R -> (length R < fuel)%nat ->
  walk fuel b (20 + attr_bytes done) (20 + Ltot) = Some (triples (20 + attr_bytes done) R).
Proof.
  induction R as [|x R IH]; intros done fuel E Hf; (destruct fuel as [|f]; [cbn in Hf; lia|]);
    destruct (b_split done _ E) as (Hb & Hl & HLt); cbn [walk triples].
  - change (attr_bytes []) with 0 in HLt.
    replace (20 + Ltot <=? 20 + attr_bytes done) with true by (symmetry; apply N.leb_le; lia). reflexivity.
  - destruct x as [ty v]. rewrite attr_bytes_cons in HLt. cbn [fst snd] in *.
    assert (Hx : tlv_ok (ty, v) = true).
    { rewrite E, forallb_app in Hall. apply andb_prop in Hall as [_ H]. cbn [forallb] in H. apply andb_prop in H as [H _]. exact H. }
    unfold tlv_ok in Hx. cbn [fst snd] in Hx. apply andb_prop in Hx as [Hty Hlv]. apply N.ltb_lt in Hty, Hlv.
    replace (20 + Ltot <=? 20 + attr_bytes done) with false by (symmetry; apply N.leb_gt; lia).
    replace (20 + Ltot <? 20 + attr_bytes done + 4) with false by (symmetry; apply N.ltb_ge; lia).
    assert (Hd : drop (20 + attr_bytes done) b = enc_tlv (ty, v) ++ enc_tlvs R).
    { rewrite Hb, <- Hl. apply drop_app_exact. }
    rewrite Hd. unfold enc_tlv at 1, be16. cbn [fst snd app]. change (take 4 (?a :: ?b :: ?c :: ?d :: ?r)) with [a; b; c; d]. cbv iota beta.
    rewrite !rd16_be16 by assumption.
    replace (20 + Ltot <? 20 + attr_bytes done + 4 + len v + pad (len v)) with false by (symmetry; apply N.ltb_ge; lia).
    assert (E' : Tall = (done ++ [(ty, v)]) ++ R) by (rewrite <- app_assoc; exact E).
    assert (Hp : 20 + attr_bytes done + 4 + len v + pad (len v) = 20 + attr_bytes (done ++ [(ty, v)]))
      by (rewrite attr_bytes_app, attr_bytes_one; cbn [snd]; lia).
    rewrite Hp, (IH (done ++ [(ty, v)]) f E') by (cbn [length] in Hf; lia). reflexivity.
Qed.
End Packet.

Definition abs3 (realms:list N) (b:bytes) (x:N * N * N) : attr := let '(aty, off, l) := x in abs_attr realms b aty off l.

Lemma abs_tail realms typ txid Tall : length txid = 12%nat ->
  let b := EncodeInto.header typ (attr_bytes Tall) txid ++ enc_tlvs Tall in
  forall l done, Tall = done ++ tail_tlvs typ txid done l -> attrs_ok realms l = true -> no_collision_from realms typ txid done l = true ->
  map (abs3 realms b) (triples (20 + attr_bytes done) (tail_tlvs typ txid done l)) = l.
Proof.
  intros Htx b. induction l as [|a l IH]; intros done E Hok Hnc; cbn [tail_tlvs triples map]; [reflexivity|].
  cbn [tail_tlvs] in E. unfold attrs_ok in Hok. cbn [forallb] in Hok. apply andb_prop in Hok as [Ha Hl].
  cbn [no_collision_from] in Hnc. apply andb_prop in Hnc as [Hna Hnl]. cbn [fst snd].
  set (x := (e_type (craft_e a), final_value typ txid done a)) in *.
  f_equal.
  - unfold abs3. apply abs_crafted_attr; [|intros vlen|exact Ha|exact Hna].
    + exact (value_at typ txid Tall Htx done _ _ _ E).
    + exact (text_at typ txid Tall Htx done _ vlen E).
  - assert (E' : Tall = (done ++ [x]) ++ tail_tlvs typ txid (done ++ [x]) l) by (rewrite <- app_assoc; exact E).
    replace (20 + attr_bytes done + 4 + len (final_value typ txid done a) + pad (len (final_value typ txid done a)))
      with (20 + attr_bytes (done ++ [x])) by (rewrite attr_bytes_app, attr_bytes_one; unfold x; cbn [snd]; lia).
    apply IH; assumption.
Qed.

(* the message type is read back: all 4 classes x 4096 methods *)
Definition mt_check (m c:N) : bool :=
  let ty := msg_type_of m c in
  (((ty / 256) mod 2) * 2 + (ty / 16) mod 2 =? c) && (ty mod 16 + ((ty / 32) mod 8) * 16 + ((ty / 512) mod 32) * 128 =? m) && (ty <? 16384).
Lemma mt_check_all : forall_bits 12 (fun m => forall_bits 2 (fun c => mt_check m c)) = true.
Proof. timeout 900 vm_compute. reflexivity. Qed.
Lemma mt_back m c : m < 4096 -> c < 4 ->
  let ty := msg_type_of m c in
  ((ty / 256) mod 2) * 2 + (ty / 16) mod 2 = c /\ ty mod 16 + ((ty / 32) mod 8) * 16 + ((ty / 512) mod 32) * 128 = m /\ ty < 16384.
Proof.
  intros Hm Hc ty.
  pose proof (forall_bits_spec 12 _ mt_check_all m Hm) as H1. cbv beta in H1.
  pose proof (forall_bits_spec 2 _ H1 c Hc) as H2. cbv beta in H2. unfold mt_check in H2. fold ty in H2.
  apply andb_prop in H2 as [H2 H3]. apply andb_prop in H2 as [H2 H4].
  apply N.eqb_eq in H2, H4. apply N.ltb_lt in H3. auto.
Qed.

Lemma tlvs_count (l:list tlv) : (length l <= length (enc_tlvs l))%nat.
Proof. exact (enc_tlvs_count l). Qed.

(* abs_craft: the reader of the glue (AbsGlue.abs_packet) reads the rendering of a well-formed abstract packet back as that
   very packet — under the explicit hypothesis that no EARLIER candidate key / (user, realm) pair collides *)
Theorem abs_craft realms class method txid attrs :
  class < 4 -> method < 4096 -> length txid = 12%nat ->
  attrs_ok realms attrs = true -> size_ok attrs = true ->
  no_collision realms class method txid attrs = true ->
  exists b, craft_packet class method txid attrs = Ok b /\ abs_packet realms b = Some (class, method, attrs).
Proof.
  intros Hc Hm Htx Hok Hsz Hnc. exists (packet_bytes (msg_type_of method class) txid attrs).
  split; [apply craft_packet_closed; assumption|].
  destruct (mt_back method class Hm Hc) as (Hcls & Hmeth & Hty). set (typ := msg_type_of method class) in *.
  destruct (size_ok_spec attrs Hsz) as [S1 S2]. pose proof (size_ok_types attrs Hsz) as S3.
  unfold packet_bytes. set (Tall := final_tlvs typ txid [] attrs).
  assert (HT : forallb tlv_ok Tall = true) by (apply tlvs_ok_final; [reflexivity|exact S2|exact S3]).
  assert (HL : attr_bytes Tall = asz attrs) by (unfold Tall; rewrite attr_bytes_final; reflexivity).
  assert (HL16 : attr_bytes Tall <= 65535) by lia.
  assert (ET : Tall = [] ++ tail_tlvs typ txid [] attrs) by (unfold Tall; apply final_tlvs_eq).
  assert (Hfuel : (length (tail_tlvs typ txid [] attrs) < length (EncodeInto.header typ (attr_bytes Tall) txid ++ enc_tlvs Tall))%nat).
  { rewrite app_length. pose proof (tlvs_count Tall) as Hcnt. rewrite ET in Hcnt at 1. cbn [app] in Hcnt.
    unfold EncodeInto.header, be16. cbn [app length]. lia. }
  pose proof (walk_tlvs typ txid Tall Htx HT (tail_tlvs typ txid [] attrs) [] (length (EncodeInto.header typ (attr_bytes Tall) txid ++ enc_tlvs Tall)) ET Hfuel) as Hw.
  clear Hfuel.
  pose proof (abs_tail realms typ txid Tall Htx attrs [] ET Hok Hnc) as Hmap. cbv zeta in Hmap.
  change (20 + attr_bytes []) with 20 in Hw, Hmap.
  assert (Hlen : len (EncodeInto.header typ (attr_bytes Tall) txid ++ enc_tlvs Tall) = 20 + attr_bytes Tall)
    by (rewrite len_app, len_header by exact Htx; reflexivity).
  revert Hw Hmap Hlen. generalize (tail_tlvs typ txid [] attrs) as R. intros R Hw Hmap Hlen.
  set (L := attr_bytes Tall) in *.
  revert Hw Hmap Hlen. set (bb := EncodeInto.header typ L txid ++ enc_tlvs Tall). intros Hw Hmap Hlen.
  assert (Hbb : bb = typ / 256 :: typ mod 256 :: L / 256 :: L mod 256 :: 33 :: 18 :: 164 :: 66 :: (txid ++ enc_tlvs Tall)) by reflexivity.
  unfold abs_packet. rewrite Hbb at 1. cbv iota beta.
  rewrite !rd16_be16 by lia. rewrite Hlen, N.eqb_refl.
  replace (typ / 256 <? 64) with true by (symmetry; apply N.ltb_lt; lia).
  replace (av_bytes_eqb [33; 18; 164; 66] cookie_bytes) with true by reflexivity. cbn [negb orb].
  rewrite Hw. rewrite Hcls, Hmeth. fold (abs3 realms bb). rewrite Hmap. reflexivity.
Qed.

(* ================================================================== 5. the crafted bytes decode and validate (craft_decodes) *)
Lemma e_type_wire a : e_type (craft_e a) = wire_type a.
Proof. destruct a; reflexivity. Qed.

Lemma final_value_ami typ txid done k : is_corrupt (AMI k) = false ->
  final_value typ txid done (AMI k) = hmac_sha1 (key_bytes k) (EncodeInto.header typ (attr_bytes done + 24) txid ++ enc_tlvs done).
Proof.
  unfold is_corrupt. intros H. unfold final_value. destruct (craft_flip (AMI k)); [discriminate|].
  unfold craft_e. cbn [craft_attr fst post_value flip_value].
  rewrite attr_bytes_app, attr_bytes_one. cbn [e_tlv snd e_placeholder]. rewrite len_zeros. reflexivity.
Qed.
Lemma final_value_asha typ txid done k : is_corrupt (ASHA k) = false ->
  final_value typ txid done (ASHA k) = hmac_sha256 (key_bytes k) (EncodeInto.header typ (attr_bytes done + 36) txid ++ enc_tlvs done).
Proof.
  unfold is_corrupt. intros H. unfold final_value. destruct (craft_flip (ASHA k)); [discriminate|].
  unfold craft_e. cbn [craft_attr fst post_value flip_value].
  rewrite attr_bytes_app, attr_bytes_one. cbn [e_tlv snd e_placeholder]. rewrite len_zeros. reflexivity.
Qed.
Lemma final_value_afp typ txid done :
  final_value typ txid done (AFP true) = be32 (fp_value (EncodeInto.header typ (attr_bytes done + 8) txid ++ enc_tlvs done)).
Proof.
  unfold final_value, craft_e, craft_flip. cbn [craft_attr fst snd post_value flip_value].
  rewrite attr_bytes_app, attr_bytes_one. cbn [e_tlv snd e_placeholder]. rewrite len_zeros. reflexivity.
Qed.

(* the flags of the ordering filter against what is still to come / what has been seen *)
Definition compat (f:flt) (l:list attr) : Prop :=
  (f_fp f = true -> l = []) /\ (f_sha f = true -> forallb a_is_fp l = true)
  /\ (f_mi f = true -> forallb (fun x => a_is_sha x || a_is_fp x) l = true).
Definition finv (f:flt) (done:list tlv) : Prop :=
  (f_mi f = false -> forall x, In x done -> fst x <> 8) /\ (f_sha f = false -> forall x, In x done -> fst x <> 28)
  /\ (f_fp f = false -> forall x, In x done -> fst x <> 32808).

Lemma in_snoc {A} (x y:A) l : In x (l ++ [y]) -> In x l \/ x = y.
Proof. intros H. apply in_app_or in H as [H|[H|[]]]; auto. Qed.

Lemma forallb_weaken {A} (P Q:A -> bool) l : (forall x, P x = true -> Q x = true) -> forallb P l = true -> forallb Q l = true.
Proof. intros H. induction l as [|a l IH]; cbn [forallb]; [auto|]. intros HP. apply andb_prop in HP as [H1 H2]. rewrite (H a H1), (IH H2). reflexivity. Qed.

(* one attribute of a packet whose integrity / fingerprint attributes are the final ones: it is not ignored, and it is the
   first of its type when it is an integrity / fingerprint attribute *)
Lemma crafted_step a r f done : tail_ok (a :: r) = true -> plain_apps (a :: r) = true -> compat f (a :: r) -> finv f done ->
  exists f', ignore_attribute f (kind_of_type (wire_type a)) = (false, f') /\ compat f' r /\ tail_ok r = true
             /\ (forall v, finv f' (done ++ [(wire_type a, v)]))
             /\ (is_integ a || a_is_fp a = true -> forall x, In x done -> fst x <> wire_type a).
Proof.
  intros Ht Hp (C1 & C2 & C3) (I1 & I2 & I3). unfold plain_apps in Hp. cbn [forallb] in Hp. apply andb_prop in Hp as [Hp _].
  assert (Hfp : f_fp f = false) by (destruct (f_fp f); [discriminate (C1 eq_refl)|reflexivity]).
  destruct (akind_of a) eqn:Hk.
  - (* ordinary *)
    assert (Hty : wire_type a <> 8 /\ wire_type a <> 28 /\ wire_type a <> 32808).
    { destruct a; cbn [wire_type akind_of] in *; try discriminate; try (repeat split; discriminate).
      apply andb_prop in Hp as [Hp H3]. apply andb_prop in Hp as [H1 H2].
      apply negb_true_iff in H1, H2, H3. apply N.eqb_neq in H1, H2, H3. auto. }
    destruct Hty as (T1 & T2 & T3).
    assert (Hnot : a_is_mi a = false /\ a_is_sha a = false /\ a_is_fp a = false) by (destruct a; try discriminate; auto).
    destruct Hnot as (N1 & N2 & N3).
    assert (Hsha : f_sha f = false).
    { destruct (f_sha f); [|reflexivity]. specialize (C2 eq_refl). cbn [forallb] in C2. rewrite N3 in C2. discriminate. }
    assert (Hmi : f_mi f = false).
    { destruct (f_mi f); [|reflexivity]. specialize (C3 eq_refl). cbn [forallb] in C3. rewrite N2, N3 in C3. discriminate. }
    exists f. split; [|split; [|split; [|split]]].
    + unfold kind_of_type, T_MI, T_SHA, T_FP. apply N.eqb_neq in T1, T2, T3. rewrite T1, T2, T3.
      destruct f as [fm fs ff]. cbn in *. subst. reflexivity.
    + unfold compat. rewrite Hfp, Hsha, Hmi. repeat split; discriminate.
    + cbn [tail_ok] in Ht. rewrite N1, N2, N3 in Ht. exact Ht.
    + intros v. unfold finv. repeat split; intros Hf x Hx; apply in_snoc in Hx as [Hx| ->]; cbn [fst]; auto.
    + unfold is_integ. rewrite N1, N2, N3. discriminate.
  - (* MI *)
    destruct a; try discriminate. cbn [tail_ok a_is_mi] in Ht. apply andb_prop in Ht as [Ht1 Ht2].
    assert (Hsha : f_sha f = false) by (destruct (f_sha f); [discriminate (C2 eq_refl)|reflexivity]).
    assert (Hmi : f_mi f = false) by (destruct (f_mi f); [discriminate (C3 eq_refl)|reflexivity]).
    exists {| f_mi := true; f_sha := f_sha f; f_fp := f_fp f |}. split; [|split; [|split; [|split]]].
    + destruct f as [fm fs ff]. cbn in *. subst. reflexivity.
    + unfold compat. cbn [f_mi f_sha f_fp]. rewrite Hfp, Hsha. repeat split; try discriminate. intros _. exact Ht1.
    + exact Ht2.
    + intros v. unfold finv. cbn [f_mi f_sha f_fp wire_type]. repeat split; intros Hf x Hx; try discriminate;
        apply in_snoc in Hx as [Hx| ->]; cbn [fst]; auto; discriminate.
    + intros _. cbn [wire_type]. auto.
  - (* SHA *)
    destruct a; try discriminate. cbn [tail_ok a_is_mi a_is_sha] in Ht. apply andb_prop in Ht as [Ht1 Ht2].
    assert (Hsha : f_sha f = false) by (destruct (f_sha f); [discriminate (C2 eq_refl)|reflexivity]).
    exists {| f_mi := f_mi f; f_sha := true; f_fp := f_fp f |}. split; [|split; [|split; [|split]]].
    + destruct f as [fm fs ff]. cbn in *. subst. destruct fm; reflexivity.
    + unfold compat. cbn [f_mi f_sha f_fp]. rewrite Hfp. repeat split; try discriminate; intros _; [exact Ht1|].
      apply (forallb_weaken a_is_fp); [|exact Ht1]. intros x Hx. rewrite Hx. apply orb_true_r.
    + exact Ht2.
    + intros v. unfold finv. cbn [f_mi f_sha f_fp wire_type]. repeat split; intros Hf x Hx; try discriminate;
        apply in_snoc in Hx as [Hx| ->]; cbn [fst]; auto; discriminate.
    + intros _. cbn [wire_type]. auto.
  - (* FP *)
    destruct a; try discriminate. cbn [tail_ok a_is_mi a_is_sha a_is_fp] in Ht. destruct r; [|discriminate].
    exists {| f_mi := f_mi f; f_sha := f_sha f; f_fp := true |}. split; [|split; [|split; [|split]]].
    + destruct f as [fm fs ff]. cbn in *. subst. destruct fm, fs; reflexivity.
    + unfold compat. cbn [f_mi f_sha f_fp forallb]. auto.
    + reflexivity.
    + intros v. unfold finv. cbn [f_mi f_sha f_fp wire_type]. repeat split; intros Hf x Hx; try discriminate;
        apply in_snoc in Hx as [Hx| ->]; cbn [fst]; auto; discriminate.
    + intros _. cbn [wire_type]. auto.
Qed.

Lemma rd32_be32 n : rd32 (be32 n) = Some n.
Proof. unfold rd32, be32. f_equal. lia. Qed.
Lemma len_be32 n : len (be32 n) = 4. Proof. reflexivity. Qed.

Lemma verify_plain key bb p ty v : ty <> 8 -> ty <> 28 -> ty <> 32808 -> verify_attr key bb (p, (ty, v)) = true.
Proof.
  intros H1 H2 H3. unfold verify_attr, w_ty, T_MI, T_SHA, T_FP. cbn [fst snd].
  apply N.eqb_neq in H1, H2, H3. rewrite H1, H2, H3. reflexivity.
Qed.

Lemma forallb_tlv_ok_app l1 l2 : forallb tlv_ok (l1 ++ l2) = true -> forallb tlv_ok l1 = true.
Proof. rewrite forallb_app. intros H. apply andb_prop in H as [H _]. exact H. Qed.

(* every attribute of a rendered packet verifies under the key its integrity attributes were produced with: the byte-level
   form of "each verifying under the configured credentials" (C04_accepts_own_mi / _sha256, C04_text_is_rfc) *)
Lemma verify_crafted typ txid Tall done a R k p :
  typ < 65536 -> length txid = 12%nat -> forallb tlv_ok Tall = true -> attr_bytes Tall <= 65535 ->
  Tall = done ++ (wire_type a, final_value typ txid done a) :: R ->
  is_corrupt a = false -> keys_are k [a] = true -> plain_apps [a] = true ->
  (is_integ a || a_is_fp a = true -> forall x, In x done -> fst x <> wire_type a) ->
  verify_attr (Some (key_bytes k)) (EncodeInto.header typ (attr_bytes Tall) txid ++ enc_tlvs Tall)
              (p, (wire_type a, final_value typ txid done a)) = true.
Proof.
  intros Htyp Htx Hok HL E Hc Hk Hp Hfirst.
  assert (Hokd : forallb tlv_ok done = true) by (rewrite E in Hok; exact (forallb_tlv_ok_app _ _ Hok)).
  assert (Hbb : forall x, Tall = done ++ x :: R ->
     EncodeInto.header typ (attr_bytes Tall) txid ++ enc_tlvs Tall
     = InputText.header typ (len (enc_tlvs done ++ enc_tlv x ++ enc_tlvs R)) txid ++ enc_tlvs done ++ enc_tlv x ++ enc_tlvs R).
  { intros x Ex. unfold attr_bytes. rewrite Ex, enc_tlvs_app. reflexivity. }
  assert (Hlen : forall x, Tall = done ++ x :: R -> len (enc_tlvs done ++ enc_tlv x ++ enc_tlvs R) < 65536).
  { intros x Ex. unfold attr_bytes in HL. rewrite Ex, enc_tlvs_app in HL. change (enc_tlvs (x :: R)) with (enc_tlv x ++ enc_tlvs R) in HL. lia. }
  unfold plain_apps in Hp. cbn [forallb] in Hp. rewrite andb_true_r in Hp.
  unfold keys_are in Hk. cbn [forallb] in Hk. rewrite andb_true_r in Hk.
  destruct a as [ty tag|u|u r|r|n c|l|x|c|k'|k'|g]; cbn [wire_type] in *; try (apply verify_plain; discriminate).
  - apply andb_prop in Hp as [Hp H3]. apply andb_prop in Hp as [H1 H2].
    apply negb_true_iff in H1, H2, H3. apply N.eqb_neq in H1, H2, H3. apply verify_plain; assumption.
  - apply keyd_eqb_true in Hk. subst k'. rewrite (final_value_ami typ txid done k Hc) in *.
    rewrite (Hbb _ E).
    apply (accepts_own_mi (key_bytes k) typ txid done (enc_tlvs R) p Htyp Htx Hokd).
    + intros y Hy. apply (Hfirst eq_refl y Hy).
    + apply len_hmac_sha1.
    + exact (Hlen _ E).
  - apply keyd_eqb_true in Hk. subst k'. rewrite (final_value_asha typ txid done k Hc) in *.
    rewrite (Hbb _ E).
    apply (accepts_own_sha (key_bytes k) typ txid done (enc_tlvs R) p Htyp Htx Hokd).
    + intros y Hy. apply (Hfirst eq_refl y Hy).
    + apply len_hmac_sha256.
    + exact (Hlen _ E).
  - destruct g; [|discriminate]. rewrite final_value_afp in *.
    set (text := EncodeInto.header typ (attr_bytes done + 8) txid ++ enc_tlvs done) in *.
    unfold verify_attr, w_ty, w_val. cbn [fst snd].
    change (32808 =? T_MI) with false. change (32808 =? T_SHA) with false. change (32808 =? T_FP) with true. cbv iota.
    rewrite rd32_be32. unfold fp_validate. rewrite (Hbb _ E).
    assert (H16 : T_FP < 65536) by (unfold T_FP; lia).
    assert (Hv16 : len (be32 (fp_value text)) < 65536) by (rewrite len_be32; lia).
    pose proof (input_text_general typ txid done T_FP (be32 (fp_value text)) (enc_tlvs R) Htyp Htx Hokd H16 Hv16) as HI.
    unfold T_FP in HI |- *. rewrite HI.
    + rewrite InputText.len_enc_tlv. cbn [snd]. rewrite len_be32. change (4 + 4 + pad 4) with 8.
      change (InputText.header typ (len (enc_tlvs done) + 8) txid ++ enc_tlvs done) with text.
      unfold fp_value. rewrite N.lxor_assoc, N.lxor_nilpotent, N.lxor_0_r. apply N.eqb_refl.
    + intros y Hy. apply (Hfirst eq_refl y Hy).
    + exact (Hlen _ E).
Qed.

Lemma map_w_pos_number : forall (l:list tlv) p, map w_pos (number p l) = positions p (length l).
Proof. induction l as [|a l IH]; intros p; cbn [number map length positions]; [reflexivity|]. rewrite IH. reflexivity. Qed.
Lemma length_tail_tlvs typ txid : forall l done, length (tail_tlvs typ txid done l) = length l.
Proof. induction l as [|a l IH]; intros done; cbn [tail_tlvs length]; [reflexivity|]. rewrite IH. reflexivity. Qed.

Section Decoding.
Variable dec_ok : bool -> bytes -> N -> bytes -> option bool.
Variables (hdr:bytes) (key:option bytes) (o:opts) (typ:N) (txid:bytes) (Tall:list tlv) (k:keyd).
Hypothesis Htyp : typ < 65536.
Hypothesis Htx : length txid = 12%nat.
Hypothesis Hok : forallb tlv_ok Tall = true.
Hypothesis HL : attr_bytes Tall <= 65535.
Hypothesis Hkey : o_validate o = true -> key = Some (key_bytes k).

Lemma loop_tail : forall l done f p,
  Tall = done ++ tail_tlvs typ txid done l ->
  tail_ok l = true -> plain_apps l = true -> compat f l -> finv f done ->
  typed_accept dec_ok (o_unknown o) hdr (tail_tlvs typ txid done l) = true ->
  (o_validate o = true -> keys_are k l = true /\ forallb (fun a => negb (is_corrupt a)) l = true) ->
  loop (N * (N * bytes)) (N * (N * bytes)) (fun x => kind_of_type (w_ty x))
       (fun ud x => match dec_ok ud hdr (w_ty x) (w_val x) with Some true => Some x | _ => None end)
       (verify_attr key (EncodeInto.header typ (attr_bytes Tall) txid ++ enc_tlvs Tall)) o f (number p (tail_tlvs typ txid done l))
  = Some (number p (tail_tlvs typ txid done l)).
Proof.
  induction l as [|a l IH]; intros done f p E Ht Hp Hc Hi Hacc Hval; cbn [tail_tlvs number loop]; [reflexivity|].
  cbn [tail_tlvs] in E, Hacc. unfold typed_accept in Hacc. cbn [forallb fst snd] in Hacc. apply andb_prop in Hacc as [Ha Hacc].
  rewrite e_type_wire in *. unfold w_ty at 1, w_val at 1. cbn [fst snd].
  destruct (dec_ok (o_unknown o) hdr (wire_type a) (final_value typ txid done a)) as [[|]|]; try discriminate.
  unfold w_ty at 1. cbn [fst snd].
  destruct (crafted_step a l f done Ht Hp Hc Hi) as (f' & Hig & Hc' & Ht' & Hi' & Hfirst).
  rewrite Hig. cbn [negb orb].
  assert (Hp' : plain_apps l = true) by (unfold plain_apps in Hp |- *; cbn [forallb] in Hp; apply andb_prop in Hp as [_ Hp]; exact Hp).
  match goal with |- context [o_validate o && negb ?v] => assert (Hver : o_validate o && negb v = false) end.
  { destruct (o_validate o) eqn:Ev; [|reflexivity]. cbn [andb]. rewrite (Hkey eq_refl).
    destruct (Hval eq_refl) as [Hk Hcor]. unfold keys_are in Hk. cbn [forallb] in Hk, Hcor.
    apply andb_prop in Hk as [Hk _]. apply andb_prop in Hcor as [Hcor _]. apply negb_true_iff in Hcor.
    apply negb_false_iff. apply (verify_crafted typ txid Tall done a _ k p Htyp Htx Hok HL E Hcor); [ | |exact Hfirst].
    - unfold keys_are. cbn [forallb]. rewrite Hk. reflexivity.
    - unfold plain_apps in Hp |- *. cbn [forallb] in Hp |- *. apply andb_prop in Hp as [Hp _]. rewrite Hp. reflexivity. }
  rewrite Hver.
  assert (E' : Tall = (done ++ [(wire_type a, final_value typ txid done a)]) ++ tail_tlvs typ txid (done ++ [(wire_type a, final_value typ txid done a)]) l)
    by (rewrite <- app_assoc; exact E).
  rewrite (IH _ f' (p + 1) E' Ht' Hp' Hc' (Hi' _) Hacc); [reflexivity|].
  intros Ev. destruct (Hval Ev) as [Hk Hcor]. unfold keys_are in Hk |- *. cbn [forallb] in Hk, Hcor.
  apply andb_prop in Hk as [_ Hk]. apply andb_prop in Hcor as [_ Hcor]. split; assumption.
Qed.
End Decoding.

Lemma compat_start l : compat {| f_mi := false; f_sha := false; f_fp := false |} l.
Proof. unfold compat. cbn. repeat split; discriminate. Qed.
Lemma finv_start f : finv f []. Proof. unfold finv. repeat split; intros _ x []. Qed.

Lemma typed_accept_modelled dec_ok ud hdr T : typed_accept dec_ok ud hdr T = true ->
  existsb (fun a => match dec_ok ud hdr (fst a) (snd a) with None => true | Some _ => false end) T = false.
Proof.
  unfold typed_accept. induction T as [|x T IH]; cbn [forallb existsb]; [reflexivity|]. intros H. apply andb_prop in H as [H1 H2].
  rewrite (IH H2). destruct (dec_ok ud hdr (fst x) (snd x)) as [[|]|]; try discriminate. reflexivity.
Qed.

(* craft_decodes: the rendering of a packet whose integrity / fingerprint attributes are the final ones decodes with the
   byte-level decoder model (any instance of the typed decoders that accepts the values), every attribute is returned and
   the consumed size is the length; with validation under the key the integrity attributes were produced with it still
   decodes (every MESSAGE-INTEGRITY, MESSAGE-INTEGRITY-SHA256 and FINGERPRINT verifies) *)
Theorem craft_decodes dec_ok class method txid attrs :
  class < 4 -> method < 4096 -> length txid = 12%nat ->
  size_ok attrs = true -> tail_ok attrs = true -> plain_apps attrs = true ->
  let typ := msg_type_of method class in
  let b := packet_bytes typ txid attrs in
  typed_accept dec_ok false (take 20 b) (final_tlvs typ txid [] attrs) = true ->
  craft_packet class method txid attrs = Ok b
  /\ decode dec_ok None b = WOk (len b) (positions 0 (length attrs))
  /\ (forall k, keys_are k attrs = true -> forallb (fun a => negb (is_corrupt a)) attrs = true ->
      decode dec_ok (Some (validating (key_bytes k))) b = WOk (len b) (positions 0 (length attrs))).
Proof.
  intros Hc Hm Htx Hsz Htail Hplain typ b Hacc.
  split; [apply craft_packet_closed; assumption|].
  destruct (mt_back method class Hm Hc) as (_ & _ & Hty). fold typ in Hty.
  destruct (size_ok_spec attrs Hsz) as [S1 S2]. pose proof (size_ok_types attrs Hsz) as S3.
  unfold b, packet_bytes in *. set (Tall := final_tlvs typ txid [] attrs) in *.
  assert (HT : forallb tlv_ok Tall = true) by (apply tlvs_ok_final; [reflexivity|exact S2|exact S3]).
  assert (HLa : attr_bytes Tall = asz attrs) by (unfold Tall; rewrite attr_bytes_final; reflexivity).
  assert (HL16 : attr_bytes Tall <= 65535) by lia.
  assert (ET : Tall = [] ++ tail_tlvs typ txid [] attrs) by (unfold Tall; apply final_tlvs_eq).
  set (L := attr_bytes Tall) in *.
  assert (HLdef : L = len (enc_tlvs Tall)) by reflexivity.
  assert (HLlt : L < 65536) by lia.
  pose proof (msg_hdr_valid typ L txid Tall Hty Htx HLdef HLlt) as Hhv.
  pose proof (msg_length_b typ L txid Tall HLlt) as Hml.
  pose proof (len_b typ L txid Tall Htx HLdef) as Hlen.
  pose proof (tlvs_b typ L txid Tall Hty Htx HLdef HLlt HT) as Htl.
  assert (Htake : take (20 + L) (EncodeInto.header typ L txid ++ enc_tlvs Tall) = EncodeInto.header typ L txid ++ enc_tlvs Tall)
    by (apply take_all; lia).
  assert (Hpos : map w_pos (number 0 Tall) = positions 0 (length attrs)).
  { rewrite map_w_pos_number. f_equal. rewrite ET. cbn [app]. apply length_tail_tlvs. }
  assert (Hdec : forall c, o_unknown (w_opts c) = false -> o_not_ignore (w_opts c) = false ->
     (o_validate (w_opts c) = true -> exists k, w_key c = Some (key_bytes k) /\ keys_are k attrs = true
                                               /\ forallb (fun a => negb (is_corrupt a)) attrs = true) ->
     decode dec_ok (Some c) (EncodeInto.header typ L txid ++ enc_tlvs Tall)
     = WOk (len (EncodeInto.header typ L txid ++ enc_tlvs Tall)) (positions 0 (length attrs))).
  { intros c Hud Hni Hv. unfold decode. rewrite Hhv, Hml. cbn [negb].
    replace (len (EncodeInto.header typ L txid ++ enc_tlvs Tall) <? 20 + L) with false by (symmetry; apply N.ltb_ge; lia).
    rewrite Hml in Htl. rewrite Htl, Hud, Htake. rewrite (typed_accept_modelled _ _ _ _ Hacc).
    assert (HN : number 0 Tall = number 0 (tail_tlvs typ txid [] attrs)) by (f_equal; exact ET). rewrite HN. rewrite HN in Hpos.
    assert (Hloop : forall k, (o_validate (w_opts c) = true -> w_key c = Some (key_bytes k) /\ keys_are k attrs = true
                                               /\ forallb (fun a => negb (is_corrupt a)) attrs = true) ->
       loop (N * (N * bytes)) (N * (N * bytes)) (fun x => kind_of_type (w_ty x))
         (fun ud x => match dec_ok ud (take 20 (EncodeInto.header typ L txid ++ enc_tlvs Tall)) (w_ty x) (w_val x) with Some true => Some x | _ => None end)
         (verify_attr (w_key c) (EncodeInto.header typ L txid ++ enc_tlvs Tall)) (w_opts c)
         {| f_mi := false; f_sha := false; f_fp := false |} (number 0 (tail_tlvs typ txid [] attrs)) = Some (number 0 (tail_tlvs typ txid [] attrs))).
    { intros k Hk.
      apply (loop_tail dec_ok _ (w_key c) (w_opts c) typ txid Tall k ltac:(lia) Htx HT HL16).
      - intros Ev. destruct (Hk Ev) as [Hk1 _]. exact Hk1.
      - exact ET.
      - exact Htail.
      - exact Hplain.
      - apply compat_start.
      - apply finv_start.
      - rewrite Hud. set (hd := take 20 (EncodeInto.header typ L txid ++ enc_tlvs Tall)) in *. rewrite ET in Hacc. exact Hacc.
      - intros Ev. destruct (Hk Ev) as (_ & Hk2 & Hk3). split; assumption. }
    destruct (o_validate (w_opts c)) eqn:Ev.
    - destruct (Hv eq_refl) as (k & Hk1 & Hk2 & Hk3). rewrite (Hloop k) by (intros _; auto). rewrite Hlen, Hpos. reflexivity.
    - rewrite (Hloop KCorrupt) by discriminate. rewrite Hlen, Hpos. reflexivity. }
  split.
  - rewrite none_is_default. apply Hdec; try reflexivity. discriminate.
  - intros k Hk Hcor. apply Hdec; try reflexivity. intros _. exists k. auto.
Qed.

(* ================================================================== 6. the client's packets (client_packet_bytes) *)
(* whatever holds of the application's attributes and of the attributes a mechanism can add holds of the prepared packet *)
Definition FA (P:attr -> bool) (s:attrs) : Prop := forall a, In a (flatten s) -> P a = true.

Lemma in_flatten_add a b s : In a (flatten (add_attr b s)) -> a = b \/ In a (flatten s).
Proof.
  unfold flatten. destruct b; cbn [add_attr ord sl_mi sl_sha sl_fp]; intros H;
    repeat (apply in_app_or in H as [H|H]);
    try (apply in_rop in H as [H|H]; [left; exact H|right; apply in_or_app; left; exact H]);
    try (right; apply in_or_app; left; exact H);
    try (destruct H as [H|[]]; left; symmetry; exact H);
    right; apply in_or_app; right; repeat (first [exact H | apply in_or_app; (left; exact H) || right]).
Qed.
Lemma in_flatten_remove a ty s : In a (flatten (remove ty s)) -> In a (flatten s).
Proof.
  unfold flatten, remove. destruct (ty =? 8); [|destruct (ty =? 28); [|destruct (ty =? 32808)]]; cbn [ord sl_mi sl_sha sl_fp opt_list app];
    intros H; repeat (apply in_app_or in H as [H|H]); try destruct H;
    try (apply in_or_app; left; first [exact H | eapply in_remove_first; exact H]);
    apply in_or_app; right; repeat (first [exact H | apply in_or_app; (left; exact H) || right]).
Qed.
Lemma fa_add P b s : P b = true -> FA P s -> FA P (add_attr b s).
Proof. intros Hb Hs a Ha. apply in_flatten_add in Ha as [->|Ha]; [exact Hb|apply Hs; exact Ha]. Qed.
Lemma fa_remove P ty s : FA P s -> FA P (remove ty s).
Proof. intros Hs a Ha. apply Hs. eapply in_flatten_remove. exact Ha. Qed.
Lemma fa_fold P : forall l s, (forall a, In a l -> P a = true) -> FA P s -> FA P (fold_left (fun s a => add_attr a s) l s).
Proof.
  induction l as [|b l IH]; intros s Hl Hs; cbn [fold_left]; [exact Hs|].
  apply IH; [intros a Ha; apply Hl; right; exact Ha|]. apply fa_add; [apply Hl; left; reflexivity|exact Hs].
Qed.
Lemma fa_of_list P l : (forall a, In a l -> P a = true) -> FA P (of_list l).
Proof. intros H. unfold of_list. apply fa_fold; [exact H|]. intros a []. Qed.
Lemma fa_add_opt P o s : (forall b, o = Some b -> P b = true) -> FA P s -> FA P (add_opt o s).
Proof. intros Ho Hs. destruct o as [b|]; cbn [add_opt]; [apply fa_add; [apply Ho; reflexivity|exact Hs]|exact Hs]. Qed.

Definition mech_added (c:client) : list attr :=
  match mech_ c with
  | MNone => []
  | MST _ => [UserName 0; AMI (KST 0); ASHA (KST 0)]
  | MLT s => match lt_pr s with Some p => rn_list p ++ algs_list p ++ [integ_attr p] | None => [] end
  end ++ [AFP true].

Lemma prepare_all (P:attr -> bool) c is_request app x : prepare c is_request app = inl (Some x) ->
  (forall a, In a app -> P a = true) -> (forall a, In a (mech_added c) -> P a = true) ->
  forall a, In a (flatten x) -> P a = true.
Proof.
  intros Hp Happ Hadd. pose proof (fa_of_list P app Happ) as H0. unfold prepare, mech_added in *.
  assert (Hfp : P (AFP true) = true) by (apply Hadd; apply in_or_app; right; left; reflexivity).
  assert (Hfin : forall y, FA P y -> FA P (if use_fp (cfg c) then add_attr (AFP true) y else y))
    by (intros y Hy; destruct (use_fp (cfg c)); [apply fa_add; assumption|exact Hy]).
  destruct (mech_ c) as [|s|s].
  - inversion Hp; subst. apply Hfin. exact H0.
  - inversion Hp; subst. apply Hfin. unfold st_prepare.
    assert (A1 : P (UserName 0) = true) by (apply Hadd; cbn; auto).
    assert (A2 : P (AMI (KST 0)) = true) by (apply Hadd; cbn; auto).
    assert (A3 : P (ASHA (KST 0)) = true) by (apply Hadd; cbn; auto).
    destruct (st_agreed s) as [[|]|]; repeat first [apply fa_add; [assumption|] | apply fa_remove]; exact H0.
  - destruct is_request; [|discriminate]. destruct (lt_prepare s (of_list app)) as [y|] eqn:Hl; [|discriminate].
    inversion Hp; subst. apply Hfin. clear Hp Hfin.
    assert (Hs : FA P (strip_lt (of_list app))) by (unfold strip_lt; repeat apply fa_remove; exact H0).
    unfold lt_prepare in Hl.
    destruct (lt_pr s) as [p|].
    + assert (Hin : forall a, In a (rn_list p ++ algs_list p ++ [integ_attr p]) -> P a = true)
        by (intros a Ha; apply Hadd; apply in_or_app; left; exact Ha).
      assert (Hrn : forall z, FA P z -> FA P (add_rn p z)).
      { intros z Hz.
        assert (R1 : P (user_attr p) = true) by (apply Hin; apply in_or_app; left; unfold rn_list; cbn [In]; auto).
        assert (R2 : P (Realm (p_realm p)) = true) by (apply Hin; apply in_or_app; left; unfold rn_list; cbn [In]; auto).
        assert (R3 : P (Nonce (fst (p_nonce p)) (snd (p_nonce p))) = true) by (apply Hin; apply in_or_app; left; unfold rn_list; cbn [In]; auto).
        unfold add_rn, add_user. fold (user_attr p). apply fa_add; [exact R3|]. apply fa_add; [exact R2|]. apply fa_add; [exact R1|]. exact Hz. }
      assert (Hal : forall z, FA P z -> FA P (add_algs p z)).
      { intros z Hz. unfold add_algs. apply fa_add_opt; [|apply fa_add_opt; [|exact Hz]]; intros b Hb; apply Hin; apply in_or_app; right;
          apply in_or_app; left; unfold algs_list; destruct (p_algs p), (p_alg p); cbn [option_map] in *; inversion Hb; subst; cbn; auto. }
      assert (Hig : forall z, FA P z -> FA P (add_integ p z)).
      { intros z Hz. assert (Hi : P (integ_attr p) = true) by (apply Hin; apply in_or_app; right; apply in_or_app; right; left; reflexivity).
        unfold add_integ, integ_attr in *. destruct (p_integ p); apply fa_add; assumption. }
      destruct (lt_st s); inversion Hl; subst; auto.
    + destruct (lt_st s); inversion Hl; subst. exact Hs.
Qed.

Lemma prepare_plain_apps c is_request app x : app_wf app -> prepare c is_request app = inl (Some x) -> plain_apps (flatten x) = true.
Proof.
  intros Hw Hp. unfold plain_apps. apply forallb_forall.
  apply (prepare_all _ c is_request app x Hp).
  - intros a Ha. specialize (Hw a Ha). destruct a; try reflexivity. cbn [attr_wf] in Hw. destruct Hw as (H1 & H2 & H3).
    apply N.eqb_neq in H1, H2, H3. rewrite H1, H2, H3. reflexivity.
  - intros a Ha. unfold mech_added in Ha. apply in_app_or in Ha as [Ha|[<-|[]]]; [|reflexivity].
    destruct (mech_ c) as [|s|s]; [destruct Ha| |].
    + cbn [In] in Ha. repeat (destruct Ha as [<-|Ha]; [reflexivity|]). destruct Ha.
    + destruct (lt_pr s) as [p|]; [|destruct Ha].
      unfold rn_list, algs_list, integ_attr, user_attr in Ha.
      destruct (p_anon p), (p_algs p), (p_alg p), (p_integ p); cbn [option_map opt_list List.app In] in Ha;
        repeat (destruct Ha as [<-|Ha]; [reflexivity|]); destruct Ha.
Qed.

(* the keys: whatever the application supplied, every integrity attribute of a short-term packet is made with the configured
   password, of a long-term packet with the cached long-term key *)
Lemma keys_are_intro k l : (forall a, In a l -> is_integ a = true -> keyd_eqb (mac_key a) k = true) -> keys_are k l = true.
Proof.
  intros H. unfold keys_are. apply forallb_forall. intros a Ha. specialize (H a Ha).
  destruct a; try reflexivity; apply H; reflexivity.
Qed.
Lemma in_flatten_fp_integ a y : In a (flatten (add_attr (AFP true) y)) -> is_integ a = true -> In a (flatten y).
Proof. intros H Hi. apply in_flatten_add in H as [->|H]; [discriminate|exact H]. Qed.

Theorem client_keys_st c s is_request app x : mech_ c = MST s -> prepare c is_request app = inl (Some x) ->
  keys_are (KST 0) (flatten x) = true.
Proof.
  intros Hm Hp. apply keys_are_intro. intros a Ha Hi. unfold prepare in Hp. rewrite Hm in Hp.
  assert (Hin : In a (flatten (st_prepare s (of_list app)))).
  { destruct (use_fp (cfg c)); inversion Hp; subst; [apply in_flatten_fp_integ; assumption|exact Ha]. }
  destruct (st_prepare_integrity s (of_list app) a (ainv_of_list app) Hin Hi) as [_ ->]. reflexivity.
Qed.
Theorem client_keys_lt c s p app x : mech_ c = MLT s -> lt_pr s = Some p -> keyd_eqb (p_key p) (p_key p) = true ->
  prepare c true app = inl (Some x) -> keys_are (p_key p) (flatten x) = true.
Proof.
  intros Hm Hpr Hkk Hp. apply keys_are_intro. intros a Ha Hi. unfold prepare in Hp. rewrite Hm in Hp.
  destruct (lt_prepare s (of_list app)) as [y|] eqn:Hl; [|discriminate].
  assert (Hin : In a (flatten y)).
  { destruct (use_fp (cfg c)); inversion Hp; subst; [apply in_flatten_fp_integ; assumption|exact Ha]. }
  destruct (lt_prepare_integrity s (of_list app) p y a (ainv_of_list app) (of_list_types_nodup app) Hpr Hl Hin Hi) as [-> _].
  unfold integ_attr. destruct (p_integ p); exact Hkk.
Qed.

(* nothing corrupted is emitted when the application supplies nothing corrupted *)
Theorem client_clean c is_request app x : prepare c is_request app = inl (Some x) ->
  forallb (fun a => negb (is_corrupt a)) app = true ->
  (forall s p, mech_ c = MLT s -> lt_pr s = Some p -> p_key p <> KCorrupt) ->
  forallb (fun a => negb (is_corrupt a)) (flatten x) = true.
Proof.
  intros Hp Happ Hk. apply forallb_forall. apply (prepare_all _ c is_request app x Hp).
  - apply forallb_forall. exact Happ.
  - intros a Ha. unfold mech_added in Ha. apply in_app_or in Ha as [Ha|[<-|[]]]; [|reflexivity].
    destruct (mech_ c) as [|s|s] eqn:Hm; [destruct Ha| |].
    + cbn [In] in Ha. repeat (destruct Ha as [<-|Ha]; [reflexivity|]). destruct Ha.
    + destruct (lt_pr s) as [p|] eqn:Hpr; [|destruct Ha]. specialize (Hk s p eq_refl Hpr).
      unfold rn_list, algs_list, integ_attr, user_attr in Ha.
      destruct (p_anon p), (p_algs p), (p_alg p), (p_integ p); cbn [option_map opt_list List.app In] in Ha;
        repeat (destruct Ha as [<-|Ha]; [try reflexivity; destruct (p_key p); try reflexivity; congruence|]); destruct Ha.
Qed.

Lemma final_tlvs_app typ txid : forall l1 l2 done,
  final_tlvs typ txid done (l1 ++ l2) = final_tlvs typ txid (final_tlvs typ txid done l1) l2.
Proof. induction l1 as [|a l1 IH]; intros l2 done; cbn [final_tlvs List.app]; [reflexivity|]. apply IH. Qed.

(* a packet that ends in `AFP true` is what the FINGERPRINT theorems of C10 speak of: everything before, then a FINGERPRINT
   whose value is the CRC-32 of everything before it (header length counting it) xor 0x5354554e *)
Lemma packet_ends_with_fp typ txid pre : 
  packet_bytes typ txid (pre ++ [AFP true]) = encode_with_fp typ txid (final_tlvs typ txid [] pre).
Proof.
  unfold packet_bytes. rewrite final_tlvs_app. set (T0 := final_tlvs typ txid [] pre). cbn [final_tlvs].
  change (e_type (craft_e (AFP true))) with 32808. rewrite final_value_afp.
  unfold encode_with_fp. rewrite attr_bytes_app, attr_bytes_one. cbn [snd]. rewrite len_be32. change (4 + 4 + pad 4) with 8.
  fold (attr_bytes T0). rewrite enc_tlvs_app. unfold enc_tlvs at 2. cbn [flat_map]. unfold enc_tlv. cbn [fst snd].
  rewrite len_be32. change (zeros (pad 4)) with (@nil N). rewrite !app_nil_r. rewrite <- !app_assoc. reflexivity.
Qed.

(* client_packet_bytes: for every client state, mechanism and application list, what `prepare` produces, rendered to bytes,
   (1) is what MessageEncoder::encode (the model) writes, (2) decodes with every attribute returned and the whole length
   consumed, (3) decodes WITH validation under the key its integrity attributes were made with (client_keys_st / _lt: the
   configured credentials), every MESSAGE-INTEGRITY / -SHA256 / FINGERPRINT verifying, and (4) with fingerprints configured
   ends in a FINGERPRINT carrying the CRC of everything before it *)
Theorem client_packet_bytes dec_ok c is_request app x class method txid :
  app_wf app -> prepare c is_request app = inl (Some x) ->
  class < 4 -> method < 4096 -> length txid = 12%nat -> size_ok (flatten x) = true ->
  let typ := msg_type_of method class in
  let b := packet_bytes typ txid (flatten x) in
  typed_accept dec_ok false (take 20 b) (final_tlvs typ txid [] (flatten x)) = true ->
  craft_packet class method txid (flatten x) = Ok b
  /\ (forallb (fun a => negb (is_corrupt a)) (flatten x) = true -> encode_packet class method txid (flatten x) = Ok b)
  /\ decode dec_ok None b = WOk (len b) (positions 0 (length (flatten x)))
  /\ (forall k, keys_are k (flatten x) = true -> forallb (fun a => negb (is_corrupt a)) (flatten x) = true ->
      decode dec_ok (Some (validating (key_bytes k))) b = WOk (len b) (positions 0 (length (flatten x))))
  /\ (use_fp (cfg c) = true -> exists pre, flatten x = pre ++ [AFP true] /\ b = encode_with_fp typ txid (final_tlvs typ txid [] pre)).
Proof.
  intros Hw Hp Hc Hm Htx Hsz typ b Hacc.
  pose proof (prepare_tail_ok c is_request app x Hp) as Htail.
  pose proof (prepare_plain_apps c is_request app x Hw Hp) as Hplain.
  destruct (craft_decodes dec_ok class method txid (flatten x) Hc Hm Htx Hsz Htail Hplain Hacc) as (H1 & H2 & H3).
  split; [exact H1|]. split; [|split; [exact H2|split; [exact H3|]]].
  - intros Hcl. rewrite <- (craft_is_encode_msg class method txid (flatten x) Hcl). exact H1.
  - intros Hfp. destruct (fingerprint_last c is_request app x Hfp Hp) as (_ & pre & Hpre).
    exists pre. split; [exact Hpre|]. unfold b. rewrite Hpre. apply packet_ends_with_fp.
Qed.

(* ================================================================== 7. non-vacuity: a long-term client packet, by computation *)
Definition ex_params : lt_params :=
  {| p_realm := 1; p_nonce := (7, 2); p_algs := Some [MD5; SHA256]; p_alg := Some SHA256; p_key := KLT 1 0 SHA256;
     p_anon := false; p_integ := ISHA |}.
Definition ex_client : client :=
  init {| reliable := false; cf_rm := 16; cf_rc := 7; limit := 10; use_fp := true |}
       (MLT {| lt_st := Subsequent; lt_pr := Some ex_params |}).
Definition ex_app : list attr := [App 32802 1; App 36 2; AMI (KST 9); App 37 0].
Definition ex_txid : bytes := [1; 2; 3; 4; 5; 6; 7; 8; 9; 10; 11; 12].
Definition ex_attrs : list attr :=
  Eval vm_compute in match prepare ex_client true ex_app with inl (Some x) => flatten x | _ => [] end.
Example ex_prepare : exists x, prepare ex_client true ex_app = inl (Some x) /\ flatten x = ex_attrs.
Proof. eexists. split; [vm_compute; reflexivity|vm_compute; reflexivity]. Qed.
Example ex_attrs_value : ex_attrs = [App 32802 1; App 36 2; App 37 0; UserName 0; Realm 1; Nonce 7 2; PwdAlgs [MD5; SHA256]; PwdAlg SHA256;
                                     ASHA (KLT 1 0 SHA256); AFP true].
Proof. reflexivity. Qed.
(* the hypotheses of abs_craft hold of it: inside the vocabulary, within the sizes, and NO candidate key tried before the
   right one yields the same HMAC *)
Example ex_wellformed : attrs_ok [1] ex_attrs = true /\ size_ok ex_attrs = true.
Proof. split; vm_compute; reflexivity. Qed.
Example ex_no_collision : no_collision [1] 0 1 ex_txid ex_attrs = true.
Proof. timeout 900 vm_compute. reflexivity. Qed.
Example ex_abs_craft : exists b, craft_packet 0 1 ex_txid ex_attrs = Ok b /\ abs_packet [1] b = Some (0, 1, ex_attrs).
Proof.
  apply abs_craft; [reflexivity|reflexivity|reflexivity|apply ex_wellformed|apply ex_wellformed|exact ex_no_collision].
Qed.
(* the full instance of the typed decoders (all 38 kinds of Codec/AttrValue.v) accepts every value of it, so it decodes
   and validates under the long-term key with the FULL byte-level decoder model *)
Example ex_typed_accept :
  typed_accept dec_ok_full false (take 20 (packet_bytes (msg_type_of 1 0) ex_txid ex_attrs))
               (final_tlvs (msg_type_of 1 0) ex_txid [] ex_attrs) = true.
Proof. timeout 900 vm_compute. reflexivity. Qed.
Example ex_client_packet :
  let b := packet_bytes (msg_type_of 1 0) ex_txid ex_attrs in
  decode dec_ok_full (Some (validating (key_bytes (KLT 1 0 SHA256)))) b = WOk (len b) [0; 1; 2; 3; 4; 5; 6; 7; 8; 9].
Proof.
  destruct ex_prepare as (x & Hp & Hx).
  assert (Hw : app_wf ex_app).
  { intros a Ha. cbn [ex_app In] in Ha. repeat (destruct Ha as [<-|Ha]; [cbn; try exact I; repeat split; discriminate|]). destruct Ha. }
  pose proof (client_packet_bytes dec_ok_full ex_client true ex_app x 0 1 ex_txid Hw Hp) as H.
  rewrite Hx in H. cbv zeta in H.
  destruct (H ltac:(reflexivity) ltac:(reflexivity) eq_refl (proj2 ex_wellformed) ex_typed_accept) as (_ & _ & _ & Hv & _).
  apply (Hv (KLT 1 0 SHA256)); vm_compute; reflexivity.
Qed.

(* ================================================================== 8. the FULL typed decoders accept the client's vocabulary *)
(* strings of visible ASCII characters other than the double quote and the backslash (what the vocabulary is made of) *)
Definition vis (s:bytes) : bool := forallb av_qd_single s.

Lemma qd_bounds c : av_qd_single c = true -> 0x21 <= c /\ c <= 0x7E /\ c <> 0x22 /\ c <> 0x5C.
Proof.
  unfold av_qd_single. intros H. apply orb_prop in H as [H|H]; [apply orb_prop in H as [H|H]|].
  - apply N.eqb_eq in H. lia.
  - apply andb_prop in H as [H1 H2]. apply N.leb_le in H1, H2. lia.
  - apply andb_prop in H as [H1 H2]. apply N.leb_le in H1, H2. lia.
Qed.
Lemma vis_utf8 : forall s, vis s = true -> av_utf8 s = Some s.
Proof.
  induction s as [|c s IH]; intros H; [reflexivity|]. unfold vis in H. cbn [forallb] in H. apply andb_prop in H as [Hc Hs].
  destruct (qd_bounds c Hc) as (B1 & B2 & _). cbn [av_utf8].
  replace (c <? 128) with true by (symmetry; apply N.ltb_lt; lia). rewrite (IH Hs). reflexivity.
Qed.
Lemma vis_qscan : forall s, vis s = true -> av_qscan false false s = true.
Proof.
  induction s as [|c s IH]; intros H; [reflexivity|]. unfold vis in H. cbn [forallb] in H. apply andb_prop in H as [Hc Hs].
  destruct (qd_bounds c Hc) as (B1 & B2 & _). cbn [av_qscan]. unfold av_is_wsp.
  replace (c =? 32) with false by (symmetry; apply N.eqb_neq; lia).
  replace (c =? 9) with false by (symmetry; apply N.eqb_neq; lia).
  replace (c =? 13) with false by (symmetry; apply N.eqb_neq; lia). cbn [orb]. rewrite Hc. apply IH. exact Hs.
Qed.
Lemma not_removable c : av_qd_single c = true -> av_removable c = false.
Proof.
  intros Hc. destruct (qd_bounds c Hc) as (B1 & B2 & B3 & _). unfold av_removable.
  replace (c =? 13) with false by (symmetry; apply N.eqb_neq; lia).
  replace (c =? 10) with false by (symmetry; apply N.eqb_neq; lia).
  replace (c =? 32) with false by (symmetry; apply N.eqb_neq; lia).
  replace (c =? 9) with false by (symmetry; apply N.eqb_neq; lia).
  replace (c =? 34) with false by (symmetry; apply N.eqb_neq; lia). reflexivity.
Qed.
Lemma vis_skip s : vis s = true -> s <> [] -> av_skip_start 0 s = Some 0.
Proof.
  destruct s as [|c s]; [congruence|]. intros H _. unfold vis in H. cbn [forallb] in H. apply andb_prop in H as [Hc _].
  cbn [av_skip_start]. rewrite (not_removable c Hc). reflexivity.
Qed.
Lemma vis_rev s : vis s = true -> vis (rev s) = true.
Proof.
  unfold vis. intros H. apply forallb_forall. intros x Hx. apply in_rev in Hx. rewrite forallb_forall in H. apply H. exact Hx.
Qed.
Lemma vis_skip_trail s : vis s = true -> s <> [] -> av_skip_trail s = Some 0.
Proof.
  intros Hv Hne. unfold av_skip_trail. rewrite rev_append_rev, app_nil_r. pose proof (vis_rev s Hv) as Hr.
  destruct (rev s) as [|c r] eqn:E; [exfalso; apply Hne; rewrite <- (rev_involutive s), E; reflexivity|].
  unfold vis in Hr. cbn [forallb] in Hr. apply andb_prop in Hr as [Hc _].
  cbn [av_skip_trail_rev]. rewrite (not_removable c Hc). reflexivity.
Qed.
Lemma vis_app a b : vis (a ++ b) = vis a && vis b.
Proof. unfold vis. apply forallb_app. Qed.

Lemma len_pos_nonempty (s:bytes) : s <> [] -> 0 < len s.
Proof. destruct s; [congruence|]. intros _. unfold len. cbn [length]. lia. Qed.

Lemma vis_quoted s : vis s = true -> s <> [] -> av_dec_quoted_string s = VOk s.
Proof.
  intros Hv Hne. unfold av_dec_quoted_string. rewrite (vis_utf8 s Hv). unfold av_formatted, av_quoted_text.
  rewrite (vis_qscan s Hv). cbn [negb andb]. rewrite (vis_skip s Hv Hne).
  unfold av_str_from, av_is_boundary. rewrite N.eqb_refl. change (drop 0 s) with s. cbn [av_bind].
  unfold av_chars. rewrite (vis_utf8 s Hv).
  rewrite (vis_skip_trail s Hv Hne).
  replace (len s <? 0) with false by (symmetry; apply N.ltb_ge; lia). rewrite N.sub_0_r.
  pose proof (len_pos_nonempty s Hne) as Hl.
  unfold av_str_to, av_is_boundary. replace (len s =? 0) with false by (symmetry; apply N.eqb_neq; lia).
  replace (len s <? len s) with false by (symmetry; apply N.ltb_ge; lia). rewrite N.eqb_refl.
  rewrite take_all by lia. cbn [av_bind]. rewrite av_bytes_eqb_refl. reflexivity.
Qed.
Lemma vis_precis s : vis s = true -> s <> [] -> av_precis s = VOk s.
Proof.
  intros Hv Hne. unfold av_precis. destruct s as [|c s]; [congruence|].
  assert (E1 : existsb av_is_ctl (c :: s) = false).
  { apply not_true_is_false. intros E. apply existsb_exists in E as (x & Hx & Hc). unfold vis in Hv. rewrite forallb_forall in Hv.
    destruct (qd_bounds x (Hv x Hx)) as (B1 & B2 & _). unfold av_is_ctl in Hc. apply orb_prop in Hc as [Hc|Hc];
      [apply N.ltb_lt in Hc|apply N.eqb_eq in Hc]; lia. }
  assert (E2 : existsb (fun b => 128 <=? b) (c :: s) = false).
  { apply not_true_is_false. intros E. apply existsb_exists in E as (x & Hx & Hc). unfold vis in Hv. rewrite forallb_forall in Hv.
    destruct (qd_bounds x (Hv x Hx)) as (B1 & B2 & _). apply N.leb_le in Hc. lia. }
  rewrite E1, E2. reflexivity.
Qed.
Lemma vis_utf8_ok s : vis s = true -> av_utf8_ok s = true.
Proof. intros H. unfold av_utf8_ok. rewrite (vis_utf8 s H). reflexivity. Qed.

(* decimal renderings: digits, at most 40 of them *)
Lemma dec_digits_vis : forall f n acc, vis acc = true -> vis (dec_digits f n acc) = true.
Proof.
  induction f as [|f IH]; intros n acc H; [exact H|]. rewrite dec_digits_S.
  assert (Hd : vis ((48 + n mod 10) :: acc) = true).
  { unfold vis. cbn [forallb]. fold (vis acc). rewrite H, andb_true_r. unfold av_qd_single.
    replace (35 <=? 48 + n mod 10) with true by (symmetry; apply N.leb_le; lia).
    replace (48 + n mod 10 <=? 91) with true by (symmetry; apply N.leb_le; lia). cbn [andb]. rewrite orb_true_r. reflexivity. }
  destruct (n / 10 =? 0); [exact Hd|apply IH; exact Hd].
Qed.
Lemma dec_digits_len : forall f n acc, (length (dec_digits f n acc) <= f + length acc)%nat.
Proof.
  induction f as [|f IH]; intros n acc; [cbn; lia|]. rewrite dec_digits_S.
  destruct (n / 10 =? 0); [cbn [length]; lia|]. specialize (IH (n / 10) ((48 + n mod 10) :: acc)). cbn [length] in IH. lia.
Qed.
Lemma dec_digits_ne : forall f n acc, acc <> [] -> dec_digits f n acc <> [].
Proof.
  induction f as [|f IH]; intros n acc H; [exact H|]. rewrite dec_digits_S. destruct (n / 10 =? 0); [discriminate|apply IH; discriminate].
Qed.
Lemma dec_vis n : vis (dec n) = true. Proof. apply dec_digits_vis. reflexivity. Qed.
Lemma dec_len n : len (dec n) <= 40. Proof. unfold len, dec. pose proof (dec_digits_len 40 n []). cbn [length] in H. lia. Qed.

Lemma vis_pre_dec p n : vis p = true -> vis (p ++ dec n) = true.
Proof. intros H. rewrite vis_app, H, dec_vis. reflexivity. Qed.

Lemma user_str_ok u : vis (user_str u) = true /\ user_str u <> [] /\ len (user_str u) <= 44.
Proof. unfold user_str. split; [apply vis_pre_dec; reflexivity|]. split; [discriminate|]. rewrite len_app. pose proof (dec_len u). change (len k_user) with 4. lia. Qed.
Lemma realm_str_ok r : vis (realm_str r) = true /\ realm_str r <> [] /\ len (realm_str r) <= 49.
Proof.
  unfold realm_str. split; [rewrite !vis_app, dec_vis; reflexivity|]. split; [discriminate|].
  rewrite !len_app. pose proof (dec_len r). change (len k_realm) with 5. change (len k_dot_org) with 4. lia.
Qed.
Lemma sw_str_ok g : vis (k_sw ++ dec g) = true /\ len (k_sw ++ dec g) <= 42.
Proof. split; [apply vis_pre_dec; reflexivity|]. rewrite len_app. pose proof (dec_len g). change (len k_sw) with 2. lia. Qed.
Lemma nonce_str_ok n c : c <= 5 -> vis (nonce_str n c) = true /\ nonce_str n c <> [] /\ len (nonce_str n c) <= 54.
Proof.
  intros Hc. rewrite (nonce_str_k n c ltac:(lia)).
  assert (Hk : vis (nonce_k c) = true /\ nonce_k c <> [] /\ len (nonce_k c) <= 14).
  { assert (Hin : In c [0; 1; 2; 3; 4; 5]) by (cbn [In]; lia). cbn [In] in Hin.
    repeat (destruct Hin as [<-|Hin]; [split; [vm_compute; reflexivity|split; [discriminate|vm_compute; discriminate]]|]). destruct Hin. }
  destruct Hk as (K1 & K2 & K3). split; [apply vis_pre_dec; exact K1|]. split.
  - destruct (nonce_k c); [congruence|discriminate].
  - rewrite len_app. pose proof (dec_len n). lia.
Qed.

(* ---- the typed decoders, kind by kind *)
Lemma dec_u32_len4 v : len v = 4 -> exists n, av_dec_u32 v = VOk n.
Proof.
  intros H. unfold av_dec_u32, av_to, av_rd32. rewrite H. change (4 <? 4) with false. cbn [av_bind].
  rewrite len_take' by lia. change (4 <? 4) with false. eexists. reflexivity.
Qed.
Lemma len_cons4 (a b c d:N) rest : len (a :: b :: c :: d :: rest) = 4 + len rest.
Proof. unfold len. cbn [length]. lia. Qed.
Lemma dec_alg_entry a b rest : av_dec_alg (a :: b :: 0 :: 0 :: rest) = VOk (rd16 a b, None, 4).
Proof.
  unfold av_dec_alg. rewrite len_cons4.
  replace (4 + len rest <? 4) with false by (symmetry; apply N.ltb_ge; lia).
  unfold av_to. rewrite len_cons4. replace (4 + len rest <? 2) with false by (symmetry; apply N.ltb_ge; lia).
  change (take 2 (a :: b :: 0 :: 0 :: rest)) with [a; b]. cbn [av_bind av_rd16].
  unfold av_slice. rewrite len_cons4. change (4 <? 2) with false. replace (4 + len rest <? 4) with false by (symmetry; apply N.ltb_ge; lia).
  change (take (4 - 2) (drop 2 (a :: b :: 0 :: 0 :: rest))) with [0; 0]. cbn [av_bind av_rd16]. change (rd16 0 0) with 0.
  change (4 + 0) with 4. replace (4 + len rest <? 4) with false by (symmetry; apply N.ltb_ge; lia).
  change (65535 <? 4) with false. change (0 + 4) with 4. change (4 <? 4) with false.
  replace (4 + len rest <? 4) with false by (symmetry; apply N.ltb_ge; lia).
  cbn [av_bind]. change (0 <? 0) with false. reflexivity.
Qed.
Lemma dec_algs_ok : forall l fuel size acc, (size = 0 \/ size = 4) -> (length l <= fuel)%nat ->
  exists r, av_dec_algs fuel (algs_value l) size acc = VOk r.
Proof.
  induction l as [|a l IH]; intros fuel size acc Hs Hf.
  - destruct fuel; eexists; reflexivity.
  - destruct fuel as [|f]; [cbn in Hf; lia|].
    unfold algs_value. cbn [flat_map]. fold (algs_value l). unfold be16 at 1. cbn [List.app av_dec_algs].
    assert (Hp : pad size = 0) by (destruct Hs as [-> | ->]; reflexivity). rewrite Hp.
    rewrite len_cons4. replace (4 + len (algs_value l) <? 0) with false by (symmetry; apply N.ltb_ge; lia).
    unfold av_from at 1. rewrite len_cons4. replace (4 + len (algs_value l) <? 0) with false by (symmetry; apply N.ltb_ge; lia).
    change (drop 0 ?x) with x. cbn [av_bind]. rewrite dec_alg_entry. cbn [av_bind].
    unfold av_from. rewrite len_cons4. replace (4 + len (algs_value l) <? 4) with false by (symmetry; apply N.ltb_ge; lia).
    change (drop 4 (?a :: ?b :: ?c :: ?d :: ?r)) with r. cbn [av_bind].
    apply IH; [right; reflexivity|cbn [length] in Hf; lia].
Qed.

Lemma len_final_mi typ txid done k : len (final_value typ txid done (AMI k)) = 20.
Proof. rewrite len_final_value. unfold craft_e. cbn [craft_attr fst e_placeholder]. apply len_zeros. Qed.
Lemma len_final_sha typ txid done k : len (final_value typ txid done (ASHA k)) = 32.
Proof. rewrite len_final_value. unfold craft_e. cbn [craft_attr fst e_placeholder]. apply len_zeros. Qed.
Lemma len_final_fp typ txid done g : len (final_value typ txid done (AFP g)) = 4.
Proof. rewrite len_final_value. unfold craft_e. cbn [craft_attr fst e_placeholder]. apply len_zeros. Qed.

(* the part of the vocabulary for which the acceptance by the full typed decoders is proved: everything the client can emit
   except a NONCE of flavour 6 (non-ASCII: the quoted-string decoder on multi-byte characters is covered by examples only);
   application attributes SOFTWARE / PRIORITY / USE-CANDIDATE or of a type without a registered decoder *)
Definition full_voc (a:attr) : bool :=
  match a with
  | App ty _ => (ty =? 32802) || (ty =? 36) || (ty =? 37) || (match av_registry ty with None => true | Some _ => false end)
  | Nonce _ c => c <=? 5
  | ErrorCode _ => false
  | _ => true
  end.

Lemma ok_some r ud hdr ty v : av_dec_attr ud hdr ty v = VOk r -> dec_ok_full ud hdr ty v = Some true.
Proof. intros H. unfold dec_ok_full. rewrite H. reflexivity. Qed.

Lemma quoted_accept ud hdr ty s : av_registry ty = Some AvkQuoted -> vis s = true -> s <> [] -> len s <= 763 ->
  dec_ok_full ud hdr ty s = Some true.
Proof.
  intros Hr Hv Hne Hl. eapply ok_some. unfold av_dec_attr. rewrite Hr. cbn [av_dec_kind].
  replace (763 <? len s) with false by (symmetry; apply N.ltb_ge; lia). rewrite (vis_quoted s Hv Hne). reflexivity.
Qed.

Theorem full_accepts typ txid done a hdr : full_voc a = true ->
  dec_ok_full false hdr (wire_type a) (final_value typ txid done a) = Some true.
Proof.
  intros Hf. destruct a as [ty tag|u|u r|r|n c|l|x|c|k|k|g]; cbn [wire_type full_voc] in *.
  - rewrite (final_value_plain typ txid done (App ty tag) ty (app_value ty tag) eq_refl). unfold app_value.
    destruct (ty =? 32802) eqn:E1.
    { apply N.eqb_eq in E1. subst ty. destruct (sw_str_ok tag) as [S1 S2]. eapply ok_some. unfold av_dec_attr.
      change (av_registry 32802) with (Some (AvkText 509 763)). cbn [av_dec_kind].
      replace (763 <? len (k_sw ++ dec tag)) with false by (symmetry; apply N.ltb_ge; lia).
      rewrite (vis_utf8_ok _ S1). reflexivity. }
    destruct (ty =? 36) eqn:E2.
    { apply N.eqb_eq in E2. subst ty. destruct (dec_u32_len4 (be32 tag) eq_refl) as [m Hm]. eapply ok_some. unfold av_dec_attr.
      change (av_registry 36) with (Some AvkU32). cbn [av_dec_kind]. rewrite Hm. reflexivity. }
    destruct (ty =? 37) eqn:E3.
    { apply N.eqb_eq in E3. subst ty. eapply ok_some. reflexivity. }
    cbn [orb] in Hf. eapply ok_some. unfold av_dec_attr. destruct (av_registry ty); [discriminate|reflexivity].
  - rewrite (final_value_plain typ txid done (UserName u) 6 (user_str u) eq_refl).
    destruct (user_str_ok u) as (U1 & U2 & U3). eapply ok_some. unfold av_dec_attr.
    change (av_registry 6) with (Some AvkUser). cbn [av_dec_kind]. rewrite (vis_utf8_ok _ U1). cbn [negb].
    replace (763 <? len (user_str u)) with false by (symmetry; apply N.ltb_ge; lia). rewrite (vis_precis _ U1 U2). reflexivity.
  - rewrite (final_value_plain typ txid done (UserHash u r) 30 (user_hash u r) eq_refl).
    eapply ok_some. unfold av_dec_attr. change (av_registry 30) with (Some AvkHash). cbn [av_dec_kind].
    unfold user_hash, len. rewrite sha256_length. reflexivity.
  - rewrite (final_value_plain typ txid done (Realm r) 20 (realm_str r) eq_refl).
    destruct (realm_str_ok r) as (R1 & R2 & R3). apply quoted_accept; [reflexivity|exact R1|exact R2|lia].
  - rewrite (final_value_plain typ txid done (Nonce n c) 21 (nonce_str n c) eq_refl).
    apply N.leb_le in Hf. destruct (nonce_str_ok n c Hf) as (R1 & R2 & R3). apply quoted_accept; [reflexivity|exact R1|exact R2|lia].
  - rewrite (final_value_plain typ txid done (PwdAlgs l) 32770 (algs_value l) eq_refl).
    destruct (dec_algs_ok l (length (algs_value l)) 0 [] (or_introl eq_refl) ltac:(rewrite len_algs_value; lia)) as [res Hres].
    eapply ok_some. unfold av_dec_attr. change (av_registry 32770) with (Some AvkAlgs). cbn [av_dec_kind]. rewrite Hres. reflexivity.
  - rewrite (final_value_plain typ txid done (PwdAlg x) 29 (algs_value [x]) eq_refl).
    eapply ok_some. unfold av_dec_attr. change (av_registry 29) with (Some AvkAlg). cbn [av_dec_kind].
    unfold algs_value. cbn [flat_map]. rewrite app_nil_r. unfold be16. cbn [List.app]. rewrite dec_alg_entry. reflexivity.
  - discriminate.
  - eapply ok_some. unfold av_dec_attr. change (av_registry 8) with (Some AvkMI). cbn [av_dec_kind].
    rewrite len_final_mi. reflexivity.
  - eapply ok_some. unfold av_dec_attr. change (av_registry 28) with (Some AvkSha). cbn [av_dec_kind].
    rewrite len_final_sha. reflexivity.
  - destruct (dec_u32_len4 _ (len_final_fp typ txid done g)) as [m Hm].
    eapply ok_some. unfold av_dec_attr. change (av_registry 32808) with (Some AvkFp). cbn [av_dec_kind]. rewrite Hm. reflexivity.
Qed.

Lemma typed_accept_full typ txid hdr : forall l done, forallb full_voc l = true ->
  typed_accept dec_ok_full false hdr (tail_tlvs typ txid done l) = true.
Proof.
  induction l as [|a l IH]; intros done H; [reflexivity|]. cbn [forallb] in H. apply andb_prop in H as [Ha Hl].
  cbn [tail_tlvs]. unfold typed_accept. cbn [forallb fst snd]. rewrite e_type_wire, (full_accepts typ txid done a hdr Ha).
  apply IH. exact Hl.
Qed.

(* client_packet_bytes for the FULL instance of the typed decoders, no acceptance hypothesis left *)
Theorem client_packet_bytes_full c is_request app x class method txid :
  app_wf app -> prepare c is_request app = inl (Some x) ->
  class < 4 -> method < 4096 -> length txid = 12%nat -> size_ok (flatten x) = true -> forallb full_voc (flatten x) = true ->
  let typ := msg_type_of method class in
  let b := packet_bytes typ txid (flatten x) in
  craft_packet class method txid (flatten x) = Ok b
  /\ decode dec_ok_full None b = WOk (len b) (positions 0 (length (flatten x)))
  /\ (forall k, keys_are k (flatten x) = true -> forallb (fun a => negb (is_corrupt a)) (flatten x) = true ->
      decode dec_ok_full (Some (validating (key_bytes k))) b = WOk (len b) (positions 0 (length (flatten x))))
  /\ (use_fp (cfg c) = true -> exists pre, flatten x = pre ++ [AFP true] /\ b = encode_with_fp typ txid (final_tlvs typ txid [] pre)).
Proof.
  intros Hw Hp Hc Hm Htx Hsz Hvoc typ b.
  assert (Hacc : typed_accept dec_ok_full false (take 20 b) (final_tlvs typ txid [] (flatten x)) = true).
  { rewrite final_tlvs_eq. cbn [List.app]. apply typed_accept_full. exact Hvoc. }
  destruct (client_packet_bytes dec_ok_full c is_request app x class method txid Hw Hp Hc Hm Htx Hsz Hacc) as (H1 & _ & H2 & H3 & H4).
  auto.
Qed.

(* the vocabulary hypothesis follows from the application's attributes and the cached nonce *)
Theorem client_full_voc c is_request app x : prepare c is_request app = inl (Some x) ->
  forallb full_voc app = true ->
  (forall s p, mech_ c = MLT s -> lt_pr s = Some p -> snd (p_nonce p) <= 5) ->
  forallb full_voc (flatten x) = true.
Proof.
  intros Hp Happ Hn. apply forallb_forall. apply (prepare_all _ c is_request app x Hp).
  - apply forallb_forall. exact Happ.
  - intros a Ha. unfold mech_added in Ha. apply in_app_or in Ha as [Ha|[<-|[]]]; [|reflexivity].
    destruct (mech_ c) as [|s|s] eqn:Hm; [destruct Ha| |].
    + cbn [In] in Ha. repeat (destruct Ha as [<-|Ha]; [reflexivity|]). destruct Ha.
    + destruct (lt_pr s) as [p|] eqn:Hpr; [|destruct Ha]. specialize (Hn s p eq_refl Hpr).
      unfold rn_list, algs_list, integ_attr, user_attr in Ha.
      destruct (p_anon p), (p_algs p), (p_alg p), (p_integ p); cbn [option_map opt_list List.app In] in Ha;
        repeat (destruct Ha as [<-|Ha]; [try reflexivity; cbn [full_voc]; apply N.leb_le; exact Hn|]); destruct Ha.
Qed.
