(* Agreement of `padding` (stun-rs/src/common.rs), GENERATED from /repo's current Rust text (Generated/Code.v, tools/rs2v.py), with
   Tlv.pad, for every argument (C01, C02, C14 and, through the TLV walk, C03, C04, C09, C10, C16, C18). Kept in a file of its
   own so that a change of another translated function is not reported against the properties that only need this one. *)
From Coq Require Import List NArith ZArith Lia Bool ZifyBool ZifyN.
Ltac Zify.zify_post_hook ::= Z.div_mod_to_equations.
Import ListNotations.
From Rustun Require Import Base.GRes Base.Tlv Generated.Constants Generated.Code Codec.MsgType.
Open Scope N_scope.

(* ---- padding (usize). The proof does not depend on how the expression is written as long as value_size only enters through
   `& 3` or `% 4`: it splits on the residue and computes *)
Lemma land3 n : N.land n 3 = n mod 4.
Proof. change 3 with (N.ones 2). rewrite N.land_ones. reflexivity. Qed.
Lemma gen_padding_agrees : forall n, gen_padding n = GOk (pad n).
Proof.
  intros n. unfold gen_padding, pad. rewrite ?land3.
  assert (H : n mod 4 = 0 \/ n mod 4 = 1 \/ n mod 4 = 2 \/ n mod 4 = 3) by (pose proof (N.mod_lt n 4 ltac:(lia)); lia).
  destruct H as [H|[H|[H|H]]]; rewrite !H; vm_compute; reflexivity.
Qed.
