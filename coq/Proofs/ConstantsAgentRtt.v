(* ALPHA, BETA and K of rtt.rs as the f32 constants of the estimator model, and the staleness limit of client.rs, equal the
   ones extracted from the CURRENT source of /repo. Used by C15. *)
From Coq Require Import List NArith ZArith Bool.
Import ListNotations.
From Rustun Require Import Generated.Constants Base.Tlv Agent.F32 Agent.Rto Agent.Model Agent.RttExact Agent.AbsGlue.
Open Scope N_scope.

(* ---- the estimator: ALPHA, BETA and K of rtt.rs as the f32 constants of the model, the staleness limit, the defaults *)
Lemma estimator_constants :
  rnd gen_RTT_ALPHA_NUM gen_RTT_ALPHA_DEN 0 = c_0125 /\ rnd (gen_RTT_ALPHA_DEN - gen_RTT_ALPHA_NUM) gen_RTT_ALPHA_DEN 0 = c_0875
  /\ rnd gen_RTT_BETA_NUM gen_RTT_BETA_DEN 0 = c_025 /\ rnd (gen_RTT_BETA_DEN - gen_RTT_BETA_NUM) gen_RTT_BETA_DEN 0 = c_075
  /\ of_nat_f32 gen_RTT_K = c_4.
Proof. vm_compute. repeat split; reflexivity. Qed.
Lemma staleness_limit : forall s l now, e_last s = Some l ->
  est_send s now = {| e_calc := if gen_STALE_SECS * NANOS <? now - l then rtt_reset (e_calc s) else e_calc s; e_last := Some now |}.
Proof. intros s l now H. unfold est_send. rewrite H. reflexivity. Qed.
