(* Credential-mechanism and packet-layout theorems on the full agent model (Agent/Model.v): C07, C08, C13. *)
From Coq Require Import List NArith Lia Bool Arith.
Import ListNotations.
From Rustun Require Import Agent.Rto Agent.Model Agent.Monitors Proofs.AgentInv Proofs.AgentTrace.
Open Scope N_scope.

(* ================================================================== small facts *)
Lemma alg_eqb_refl a : alg_eqb a a = true.
Proof. destruct a; cbn [alg_eqb]; try reflexivity. apply N.eqb_refl. Qed.
Lemma algs_eqb_refl l : algs_eqb l l = true.
Proof. induction l as [|a l IH]; cbn [algs_eqb]; [reflexivity|]. rewrite alg_eqb_refl, IH. reflexivity. Qed.
Lemma keyd_eqb_klt r a : keyd_eqb (KLT r 0 a) (KLT r 0 a) = true.
Proof. cbn [keyd_eqb]. rewrite N.eqb_refl, alg_eqb_refl. reflexivity. Qed.

(* ================================================================== StunAttributes: wire types *)
Definition has_ty (ty:N) (l:list attr) : bool := existsb (fun x => wire_type x =? ty) l.

Lemma has_ty_false_in ty l x : has_ty ty l = false -> In x l -> wire_type x <> ty.
Proof.
  unfold has_ty. intros Hh Hin HE. assert (Ht : existsb (fun y => wire_type y =? ty) l = true).
  { apply existsb_exists. exists x. split; [exact Hin|]. apply N.eqb_eq. exact HE. }
  rewrite Ht in Hh. discriminate.
Qed.
Lemma has_ty_false_intro ty l : (forall x, In x l -> wire_type x <> ty) -> has_ty ty l = false.
Proof.
  intros Hn. unfold has_ty. destruct (existsb (fun x => wire_type x =? ty) l) eqn:He; [|reflexivity].
  apply existsb_exists in He as (x & Hin & Hx). apply N.eqb_eq in Hx. exfalso. exact (Hn x Hin Hx).
Qed.
Lemma has_ty_app ty a b : has_ty ty (a ++ b) = has_ty ty a || has_ty ty b.
Proof. unfold has_ty. apply existsb_app. Qed.

Lemma in_remove_first ty x : forall l, In x (remove_first ty l) -> In x l.
Proof.
  induction l as [|y r IH]; cbn [remove_first]; [auto|]. destruct (wire_type y =? ty).
  - intros Hin. right. exact Hin.
  - intros [HE|Hin]; [left; exact HE|right; apply IH; exact Hin].
Qed.
Lemma in_rop a x : forall l, In x (replace_or_push a l) -> x = a \/ In x l.
Proof.
  induction l as [|y r IH]; cbn [replace_or_push].
  - intros [HE|[]]. left. symmetry. exact HE.
  - destruct (wire_type y =? wire_type a).
    + intros [HE|Hin]; [left; symmetry; exact HE|right; right; exact Hin].
    + intros [HE|Hin]; [right; left; exact HE|]. destruct (IH Hin) as [HE|Hr]; [left; exact HE|right; right; exact Hr].
Qed.

Lemma rf_keep_false t t' l : has_ty t l = false -> has_ty t (remove_first t' l) = false.
Proof.
  intros Hh. apply has_ty_false_intro. intros x Hin. apply (has_ty_false_in t l x Hh). eapply in_remove_first. exact Hin.
Qed.
Lemma rf_nodup t : forall l, types_nodup l = true -> types_nodup (remove_first t l) = true.
Proof.
  induction l as [|y r IH]; cbn [remove_first types_nodup]; [auto|]. intros Hn. apply andb_true_iff in Hn as [Hy Hr].
  destruct (wire_type y =? t); [exact Hr|]. cbn [types_nodup]. apply andb_true_iff. split; [|apply IH; exact Hr].
  apply negb_true_iff. apply negb_true_iff in Hy. exact (rf_keep_false (wire_type y) t r Hy).
Qed.
Lemma rf_gone t : forall l, types_nodup l = true -> has_ty t (remove_first t l) = false.
Proof.
  induction l as [|y r IH]; cbn [remove_first types_nodup]; [reflexivity|]. intros Hn. apply andb_true_iff in Hn as [Hy Hr].
  destruct (N.eqb_spec (wire_type y) t) as [E|E].
  - subst t. apply negb_true_iff in Hy. exact Hy.
  - unfold has_ty. cbn [existsb]. apply orb_false_iff. split; [apply N.eqb_neq; exact E|]. apply IH. exact Hr.
Qed.
(* without the one-per-type hypothesis only the first attribute of the type goes *)
Lemma rf_absent t : forall l, has_ty t l = false -> remove_first t l = l.
Proof.
  induction l as [|y r IH]; cbn [remove_first]; [reflexivity|]. unfold has_ty. cbn [existsb]. intros Hh.
  apply orb_false_iff in Hh as [Hy Hr]. rewrite Hy. f_equal. apply IH. exact Hr.
Qed.

Lemma has_ty_rop a ty : forall l, has_ty ty (replace_or_push a l) = (wire_type a =? ty) || has_ty ty l.
Proof.
  unfold has_ty. induction l as [|y r IH]; cbn [replace_or_push existsb]; [reflexivity|].
  destruct (N.eqb_spec (wire_type y) (wire_type a)) as [E|E]; cbn [existsb].
  - rewrite E. destruct (wire_type a =? ty); reflexivity.
  - rewrite IH. destruct (wire_type y =? ty), (wire_type a =? ty); reflexivity.
Qed.
Lemma rop_nodup a : forall l, types_nodup l = true -> types_nodup (replace_or_push a l) = true.
Proof.
  induction l as [|y r IH]; cbn [replace_or_push types_nodup]; [reflexivity|]. intros Hn. apply andb_true_iff in Hn as [Hy Hr].
  destruct (N.eqb_spec (wire_type y) (wire_type a)) as [E|E]; cbn [types_nodup]; apply andb_true_iff; split.
  - rewrite <- E. exact Hy.
  - exact Hr.
  - apply negb_true_iff. fold (has_ty (wire_type y) (replace_or_push a r)). rewrite has_ty_rop.
    apply negb_true_iff in Hy. apply orb_false_iff. split; [apply N.eqb_neq; intros HE; apply E; symmetry; exact HE|exact Hy].
  - apply IH. exact Hr.
Qed.
Lemma rop_fresh a : forall l, has_ty (wire_type a) l = false -> replace_or_push a l = l ++ [a].
Proof.
  unfold has_ty. induction l as [|y r IH]; cbn [replace_or_push existsb app]; [reflexivity|]. intros Hh.
  apply orb_false_iff in Hh as [Hy Hr]. rewrite Hy. f_equal. apply IH. exact Hr.
Qed.
Lemma rop_app a : forall A l, has_ty (wire_type a) A = false -> replace_or_push a (A ++ l) = A ++ replace_or_push a l.
Proof.
  unfold has_ty. induction A as [|y r IH]; intros l; cbn [replace_or_push existsb app]; [reflexivity|]. intros Hh.
  apply orb_false_iff in Hh as [Hy Hr]. rewrite Hy. f_equal. apply IH. exact Hr.
Qed.

Lemma types_nodup_app a b :
  types_nodup a = true -> types_nodup b = true -> (forall x, In x a -> has_ty (wire_type x) b = false) ->
  types_nodup (a ++ b) = true.
Proof.
  induction a as [|y r IH]; cbn [app types_nodup]; [auto|]. intros Hn Hb Hd. apply andb_true_iff in Hn as [Hy Hr].
  apply andb_true_iff. split.
  - apply negb_true_iff. fold (has_ty (wire_type y) (r ++ b)). rewrite has_ty_app. apply negb_true_iff in Hy.
    apply orb_false_iff. split; [exact Hy|]. apply Hd. left. reflexivity.
  - apply IH; [exact Hr|exact Hb|]. intros x Hx. apply Hd. right. exact Hx.
Qed.

(* ================================================================== the slot structure (C13) *)
Definition slot_ok (f:attr -> bool) (o:option attr) : Prop := match o with Some a => f a = true | None => True end.
(* AInv: the ordinary list holds no integrity / fingerprint attribute, each slot holds its own kind *)
Definition AInv (x:attrs) : Prop :=
  (forall a, In a (ord x) -> is_integ a = false /\ a_is_fp a = false)
  /\ slot_ok a_is_mi (sl_mi x) /\ slot_ok a_is_sha (sl_sha x) /\ slot_ok a_is_fp (sl_fp x).

Lemma ainv_empty : AInv empty_attrs.
Proof. unfold AInv, empty_attrs; cbn [ord sl_mi sl_sha sl_fp slot_ok]. repeat split; try exact I; destruct H. Qed.

Lemma ainv_add a s : AInv s -> AInv (add_attr a s).
Proof.
  intros (Ho & Hm & Hs & Hf).
  assert (Hord : is_integ a = false /\ a_is_fp a = false ->
                 AInv {| ord := replace_or_push a (ord s); sl_mi := sl_mi s; sl_sha := sl_sha s; sl_fp := sl_fp s |}).
  { intros Ha. unfold AInv; cbn [ord sl_mi sl_sha sl_fp]. refine (conj _ (conj Hm (conj Hs Hf))).
    intros x Hx. apply in_rop in Hx as [->|Hx]; [exact Ha|apply Ho; exact Hx]. }
  destruct a; cbn [add_attr]; try (apply Hord; split; reflexivity);
    unfold AInv; cbn [ord sl_mi sl_sha sl_fp slot_ok a_is_mi a_is_sha a_is_fp]; auto.
Qed.
Lemma ainv_remove ty s : AInv s -> AInv (remove ty s).
Proof.
  intros (Ho & Hm & Hs & Hf). unfold remove.
  destruct (ty =? 8); [|destruct (ty =? 28); [|destruct (ty =? 32808)]];
    unfold AInv; cbn [ord sl_mi sl_sha sl_fp slot_ok]; auto.
  refine (conj _ (conj Hm (conj Hs Hf))). intros x Hx. apply Ho. eapply in_remove_first. exact Hx.
Qed.
Lemma ainv_fold : forall l s, AInv s -> AInv (fold_left (fun s a => add_attr a s) l s).
Proof. induction l as [|a l IH]; intros s Hs; cbn [fold_left]; [exact Hs|]. apply IH. apply ainv_add. exact Hs. Qed.
Lemma ainv_of_list app : AInv (of_list app).
Proof. unfold of_list. apply ainv_fold. exact ainv_empty. Qed.

Lemma ainv_st_prepare s a : AInv a -> AInv (st_prepare s a).
Proof.
  intros Ha. unfold st_prepare. destruct (st_agreed s) as [[|]|]; repeat first [apply ainv_add | apply ainv_remove]; exact Ha.
Qed.
Lemma ainv_strip_lt a : AInv a -> AInv (strip_lt a).
Proof. intros Ha. unfold strip_lt. repeat apply ainv_remove. exact Ha. Qed.
Lemma ainv_add_opt o a : AInv a -> AInv (add_opt o a).
Proof. intros Ha. destruct o; cbn [add_opt]; [apply ainv_add|]; exact Ha. Qed.
Lemma ainv_add_rn p a : AInv a -> AInv (add_rn p a).
Proof. intros Ha. unfold add_rn, add_user. repeat apply ainv_add. exact Ha. Qed.
Lemma ainv_add_algs p a : AInv a -> AInv (add_algs p a).
Proof. intros Ha. unfold add_algs. repeat apply ainv_add_opt. exact Ha. Qed.
Lemma ainv_add_integ p a : AInv a -> AInv (add_integ p a).
Proof. intros Ha. unfold add_integ. destruct (p_integ p); apply ainv_add; exact Ha. Qed.
Lemma ainv_lt_prepare s a x : AInv a -> lt_prepare s a = Some x -> AInv x.
Proof.
  intros Ha. apply ainv_strip_lt in Ha. unfold lt_prepare.
  destruct (lt_st s); destruct (lt_pr s) as [p|]; intros HE; try discriminate; injection HE as <-;
    repeat first [apply ainv_add_integ | apply ainv_add_algs | apply ainv_add_rn]; exact Ha.
Qed.

Lemma tail_ok_skip : forall l t, (forall a, In a l -> is_integ a = false /\ a_is_fp a = false) -> tail_ok (l ++ t) = tail_ok t.
Proof.
  induction l as [|a l IH]; intros t Hl; cbn [app tail_ok]; [reflexivity|].
  destruct (Hl a (or_introl eq_refl)) as [Hi Hf]. unfold is_integ in Hi. apply orb_false_iff in Hi as [Hm Hs].
  rewrite Hm, Hs, Hf. apply IH. intros x Hx. apply Hl. right. exact Hx.
Qed.

(* 13: the slot structure of `flatten` puts MI, SHA256, FINGERPRINT last, in this order, each at most once *)
Theorem flatten_tail_ok x : AInv x -> tail_ok (flatten x) = true.
Proof.
  intros (Ho & Hm & Hs & Hf). unfold flatten. rewrite tail_ok_skip by exact Ho.
  destruct (sl_mi x) as [[]|]; cbn [slot_ok a_is_mi] in Hm; try discriminate;
  destruct (sl_sha x) as [[]|]; cbn [slot_ok a_is_sha] in Hs; try discriminate;
  destruct (sl_fp x) as [[]|]; cbn [slot_ok a_is_fp] in Hf; try discriminate; reflexivity.
Qed.

Lemma prepare_ainv c b app x : prepare c b app = inl (Some x) -> AInv x.
Proof.
  unfold prepare. pose proof (ainv_of_list app) as Ha.
  assert (Hfp : forall y, AInv y -> AInv (if use_fp (cfg c) then add_attr (AFP true) y else y))
    by (intros y Hy; destruct (use_fp (cfg c)); [apply ainv_add|]; exact Hy).
  destruct (mech_ c) as [|s|s].
  - intros HE; inversion HE; subst. apply Hfp. exact Ha.
  - intros HE; inversion HE; subst. apply Hfp. apply ainv_st_prepare. exact Ha.
  - destruct b; [|discriminate]. destruct (lt_prepare s (of_list app)) as [y|] eqn:Hl; [|discriminate].
    intros HE; inversion HE; subst. apply Hfp. eapply ainv_lt_prepare; [exact Ha|exact Hl].
Qed.

Theorem prepare_tail_ok c is_request app x : prepare c is_request app = inl (Some x) -> tail_ok (flatten x) = true.
Proof. intros Hp. apply flatten_tail_ok. eapply prepare_ainv. exact Hp. Qed.

(* ================================================================== one attribute per wire type (C13, 14) *)
(* `App ty _` stands for an attribute type the library does not treat specially; the three slot types are not such types.
   (`App 8 0` is a junk value of the model: the Rust attribute enum has exactly one variant per wire type.) *)
Definition attr_wf (a:attr) : Prop := match a with App ty _ => ty <> 8 /\ ty <> 28 /\ ty <> 32808 | _ => True end.
Definition app_wf (app:list attr) : Prop := forall a, In a app -> attr_wf a.
Definition ord_plain (l:list attr) : Prop := has_ty 8 l = false /\ has_ty 28 l = false /\ has_ty 32808 l = false.
Definition OInv (x:attrs) : Prop := types_nodup (ord x) = true /\ ord_plain (ord x).

Lemma nd_add a s : types_nodup (ord s) = true -> types_nodup (ord (add_attr a s)) = true.
Proof. intros Hn. destruct a; cbn [add_attr ord]; try apply rop_nodup; exact Hn. Qed.
Lemma nd_remove ty s : types_nodup (ord s) = true -> types_nodup (ord (remove ty s)) = true.
Proof.
  intros Hn. unfold remove. destruct (ty =? 8); [|destruct (ty =? 28); [|destruct (ty =? 32808)]]; cbn [ord];
    try apply rf_nodup; exact Hn.
Qed.
Lemma nd_fold : forall l s, types_nodup (ord s) = true -> types_nodup (ord (fold_left (fun s a => add_attr a s) l s)) = true.
Proof. induction l as [|a l IH]; intros s Hs; cbn [fold_left]; [exact Hs|]. apply IH. apply nd_add. exact Hs. Qed.

(* 14, first half: replace_or_push keeps one ordinary attribute per wire type, whatever the application supplies *)
Theorem of_list_types_nodup app : types_nodup (ord (of_list app)) = true.
Proof. unfold of_list. apply nd_fold. reflexivity. Qed.

Lemma plain_add a s : attr_wf a -> ord_plain (ord s) -> ord_plain (ord (add_attr a s)).
Proof.
  intros Hw (H8 & H28 & H3). unfold ord_plain.
  destruct a; cbn [add_attr ord attr_wf] in *; rewrite ?has_ty_rop, ?H8, ?H28, ?H3; cbn [wire_type]; auto.
  destruct Hw as (W8 & W28 & W3). apply N.eqb_neq in W8, W28, W3. rewrite W8, W28, W3. auto.
Qed.
Lemma plain_remove ty s : ord_plain (ord s) -> ord_plain (ord (remove ty s)).
Proof.
  intros (H8 & H28 & H3). unfold remove, ord_plain.
  destruct (ty =? 8); [|destruct (ty =? 28); [|destruct (ty =? 32808)]]; cbn [ord]; auto using rf_keep_false.
Qed.
Lemma oinv_add a s : attr_wf a -> OInv s -> OInv (add_attr a s).
Proof. intros Hw [Hn Hp]. split; [apply nd_add; exact Hn|apply plain_add; assumption]. Qed.
Lemma oinv_remove ty s : OInv s -> OInv (remove ty s).
Proof. intros [Hn Hp]. split; [apply nd_remove; exact Hn|apply plain_remove; exact Hp]. Qed.
Lemma oinv_fold : forall l s, app_wf l -> OInv s -> OInv (fold_left (fun s a => add_attr a s) l s).
Proof.
  induction l as [|a l IH]; intros s Hw Hs; cbn [fold_left]; [exact Hs|]. apply IH.
  - intros x Hx. apply Hw. right. exact Hx.
  - apply oinv_add; [apply Hw; left; reflexivity|exact Hs].
Qed.
Lemma oinv_of_list app : app_wf app -> OInv (of_list app).
Proof. intros Hw. unfold of_list. apply oinv_fold; [exact Hw|]. repeat split. Qed.

Lemma oinv_st_prepare s a : OInv a -> OInv (st_prepare s a).
Proof.
  intros Ha. unfold st_prepare.
  destruct (st_agreed s) as [[|]|]; repeat first [apply oinv_add; [exact I|] | apply oinv_remove]; exact Ha.
Qed.
Lemma oinv_strip_lt a : OInv a -> OInv (strip_lt a).
Proof. intros Ha. unfold strip_lt. repeat apply oinv_remove. exact Ha. Qed.
Lemma oinv_add_rn p a : OInv a -> OInv (add_rn p a).
Proof. intros Ha. unfold add_rn, add_user. destruct (p_anon p); repeat (apply oinv_add; [exact I|]); exact Ha. Qed.
Lemma oinv_add_algs p a : OInv a -> OInv (add_algs p a).
Proof.
  intros Ha. unfold add_algs. destruct (p_alg p), (p_algs p); cbn [option_map add_opt];
    repeat (apply oinv_add; [exact I|]); exact Ha.
Qed.
Lemma oinv_add_integ p a : OInv a -> OInv (add_integ p a).
Proof. intros Ha. unfold add_integ. destruct (p_integ p); (apply oinv_add; [exact I|]); exact Ha. Qed.
Lemma oinv_lt_prepare s a x : OInv a -> lt_prepare s a = Some x -> OInv x.
Proof.
  intros Ha. apply oinv_strip_lt in Ha. unfold lt_prepare.
  destruct (lt_st s); destruct (lt_pr s) as [p|]; intros HE; try discriminate; injection HE as <-;
    repeat first [apply oinv_add_integ | apply oinv_add_algs | apply oinv_add_rn]; exact Ha.
Qed.

Lemma slots_has_ty t mi sha fp :
  slot_ok a_is_mi mi -> slot_ok a_is_sha sha -> slot_ok a_is_fp fp -> t <> 8 -> t <> 28 -> t <> 32808 ->
  has_ty t (opt_list mi ++ opt_list sha ++ opt_list fp) = false.
Proof.
  intros Hm Hs Hf N8 N28 N3.
  destruct mi as [[]|]; cbn [slot_ok a_is_mi] in Hm; try discriminate;
  destruct sha as [[]|]; cbn [slot_ok a_is_sha] in Hs; try discriminate;
  destruct fp as [[]|]; cbn [slot_ok a_is_fp] in Hf; try discriminate;
  unfold has_ty; cbn [opt_list app existsb wire_type];
  repeat match goal with |- context [?n =? t] => replace (n =? t) with false by (symmetry; apply N.eqb_neq; congruence) end;
  reflexivity.
Qed.

Theorem flatten_types_nodup x : AInv x -> OInv x -> types_nodup (flatten x) = true.
Proof.
  intros (Ho & Hm & Hs & Hf) (Hn & H8 & H28 & H3). unfold flatten. apply types_nodup_app.
  - exact Hn.
  - destruct (sl_mi x) as [[]|]; cbn [slot_ok a_is_mi] in Hm; try discriminate;
    destruct (sl_sha x) as [[]|]; cbn [slot_ok a_is_sha] in Hs; try discriminate;
    destruct (sl_fp x) as [[]|]; cbn [slot_ok a_is_fp] in Hf; try discriminate; reflexivity.
  - intros y Hy. apply slots_has_ty; try assumption.
    + exact (has_ty_false_in 8 _ y H8 Hy).
    + exact (has_ty_false_in 28 _ y H28 Hy).
    + exact (has_ty_false_in 32808 _ y H3 Hy).
Qed.

Lemma prepare_oinv c b app x : app_wf app -> prepare c b app = inl (Some x) -> OInv x.
Proof.
  intros Hw. unfold prepare. pose proof (oinv_of_list app Hw) as Ha.
  assert (Hfp : forall y, OInv y -> OInv (if use_fp (cfg c) then add_attr (AFP true) y else y))
    by (intros y Hy; destruct (use_fp (cfg c)); [apply oinv_add; [exact I|]|]; exact Hy).
  destruct (mech_ c) as [|s|s].
  - intros HE; inversion HE; subst. apply Hfp. exact Ha.
  - intros HE; inversion HE; subst. apply Hfp. apply oinv_st_prepare. exact Ha.
  - destruct b; [|discriminate]. destruct (lt_prepare s (of_list app)) as [y|] eqn:Hl; [|discriminate].
    intros HE; inversion HE; subst. apply Hfp. eapply oinv_lt_prepare; [exact Ha|exact Hl].
Qed.

(* 14, second half: what the client sends carries at most one attribute per wire type *)
Theorem prepare_types_nodup c is_request app x :
  app_wf app -> prepare c is_request app = inl (Some x) -> types_nodup (flatten x) = true.
Proof.
  intros Hw Hp. apply flatten_types_nodup; [eapply prepare_ainv; exact Hp|eapply prepare_oinv; [exact Hw|exact Hp]].
Qed.
(* the hypothesis on `App` is needed: the junk value `App 8 _` sits in the ordinary list next to the MESSAGE-INTEGRITY slot *)
Example prepare_types_nodup_needs_wf :
  let c := init {| reliable := false; cf_rm := 16; cf_rc := 7; limit := 10; use_fp := false |} (MST {| st_agreed := None |}) in
  match prepare c true [App 8 0] with inl (Some x) => types_nodup (flatten x) | _ => true end = false.
Proof. vm_compute. reflexivity. Qed.

(* 15: with fingerprints on, FINGERPRINT is the last attribute of everything sent *)
Lemma last_attr_snoc l a : last_attr (l ++ [a]) = Some a.
Proof. unfold last_attr. rewrite map_app. cbn [map]. apply last_last. Qed.
Theorem fingerprint_last c is_request app x :
  use_fp (cfg c) = true -> prepare c is_request app = inl (Some x) ->
  last_attr (flatten x) = Some (AFP true) /\ exists l, flatten x = l ++ [AFP true].
Proof.
  intros Hfp. unfold prepare. rewrite Hfp.
  assert (Hl : forall y, exists l, flatten (add_attr (AFP true) y) = l ++ [AFP true]).
  { intros y. exists (ord y ++ opt_list (sl_mi y) ++ opt_list (sl_sha y)). unfold flatten. cbn [add_attr ord sl_mi sl_sha sl_fp opt_list].
    rewrite <- !app_assoc. reflexivity. }
  assert (Hfin : forall y, x = add_attr (AFP true) y -> last_attr (flatten x) = Some (AFP true) /\ exists l, flatten x = l ++ [AFP true]).
  { intros y ->. destruct (Hl y) as (l & HE). split; [rewrite HE; apply last_attr_snoc|exists l; exact HE]. }
  destruct (mech_ c) as [|s|s].
  - intros HE; inversion HE; subst. eapply Hfin. reflexivity.
  - intros HE; inversion HE; subst. eapply Hfin. reflexivity.
  - destruct is_request; [|discriminate]. destruct (lt_prepare s (of_list app)) as [y|]; [|discriminate].
    intros HE; inversion HE; subst. eapply Hfin. reflexivity.
Qed.

(* ================================================================== 7: the first long-term request is bare *)
Lemma strip_lt_eq a : strip_lt a = {| ord := ord (strip_lt a); sl_mi := None; sl_sha := None; sl_fp := sl_fp a |}.
Proof. reflexivity. Qed.
Lemma strip_lt_ord a :
  ord (strip_lt a) = remove_first 32770 (remove_first 29 (remove_first 21 (remove_first 20 (remove_first 30 (remove_first 6 (ord a)))))).
Proof. reflexivity. Qed.

Ltac solve_free :=
  first [ apply rf_gone; repeat apply rf_nodup; assumption | apply rf_keep_false; solve_free ].

(* the wire types a long-term mechanism owns, except the two slot types *)
Definition CF (A:list attr) : Prop := forall t, In t [6; 30; 20; 21; 29; 32770] -> has_ty t A = false.
Lemma strip_lt_CF a : types_nodup (ord a) = true -> CF (ord (strip_lt a)).
Proof.
  intros Hn t Ht. rewrite strip_lt_ord. cbn [In] in Ht.
  repeat (destruct Ht as [<-|Ht]; [solve_free|]). destruct Ht.
Qed.

Lemma memN_types L l x : (forall t, In t L -> has_ty t l = false) -> In x l -> memN (wire_type x) L = false.
Proof.
  intros HL Hx. unfold memN. destruct (existsb (N.eqb (wire_type x)) L) eqn:He; [|reflexivity].
  apply existsb_exists in He as (t & Ht & HE). apply N.eqb_eq in HE. exfalso.
  exact (has_ty_false_in t l x (HL t Ht) Hx HE).
Qed.

Theorem lt_first_request_bare s a : lt_st s = First -> lt_prepare s a = Some (strip_lt a).
Proof. intros Hs. unfold lt_prepare. rewrite Hs. reflexivity. Qed.

(* ... and it carries none of USERNAME, USERHASH, REALM, NONCE, PASSWORD-ALGORITHM(S), MESSAGE-INTEGRITY(-SHA256) *)
Theorem strip_lt_cred_free a : AInv a -> OInv a -> lt_cred_free (flatten (strip_lt a)) = true.
Proof.
  intros (_ & _ & _ & Hf) (Hn & H8 & H28 & _). rewrite strip_lt_eq. unfold flatten, lt_cred_free.
  cbn [ord sl_mi sl_sha sl_fp opt_list app]. rewrite forallb_app. apply andb_true_iff. split.
  - apply forallb_forall. intros x Hx. apply negb_true_iff. apply (memN_types _ (ord (strip_lt a))); [|exact Hx].
    intros t Ht. cbn [In] in Ht. destruct Ht as [<-|[<-|[<-|[<-|[<-|[<-|Ht]]]]]];
      try (apply (strip_lt_CF a Hn); cbn [In]; tauto).
    rewrite strip_lt_ord. destruct Ht as [<-|[<-|[]]]; repeat apply rf_keep_false; assumption.
  - destruct (sl_fp a) as [[]|]; cbn [slot_ok a_is_fp] in Hf; try discriminate; reflexivity.
Qed.
Corollary lt_first_request_bare_client s app :
  app_wf app -> lt_st s = First ->
  exists x, lt_prepare s (of_list app) = Some x /\ lt_cred_free (flatten x) = true.
Proof.
  intros Hw Hs. exists (strip_lt (of_list app)). split; [apply lt_first_request_bare; exact Hs|].
  apply strip_lt_cred_free; [apply ainv_of_list|apply oinv_of_list; exact Hw].
Qed.
(* both hypotheses are needed: `remove` takes out the first attribute of a type only, and `App 8 _` is not in a slot *)
Example strip_lt_not_bare_dup :
  lt_cred_free (flatten (strip_lt {| ord := [UserName 1; UserName 2]; sl_mi := None; sl_sha := None; sl_fp := None |})) = false.
Proof. vm_compute. reflexivity. Qed.
Example strip_lt_not_bare_junk : lt_cred_free (flatten (strip_lt (of_list [App 8 0]))) = false.
Proof. vm_compute. reflexivity. Qed.

(* ================================================================== short term (C07) *)
(* where a scanned integrity attribute comes from: the accumulator, or an attribute of the right kind in the list *)
Definition from_list (f:attr -> bool) (l:list attr) (o o':option attr) : Prop :=
  o' = o \/ exists a, o' = Some a /\ In a l /\ f a = true.

Lemma from_list_cons f a r o o' :
  from_list f r (if f a then Some a else o) o' -> from_list f (a :: r) o o'.
Proof.
  intros [->|(b & -> & Hin & Hb)].
  - destruct (f a) eqn:Ha; [right; exists a; split; [reflexivity|split; [left; reflexivity|exact Ha]]|left; reflexivity].
  - right. exists b. split; [reflexivity|split; [right; exact Hin|exact Hb]].
Qed.
Lemma from_list_none f l a : from_list f l None (Some a) -> In a l /\ f a = true.
Proof. intros [HE|(b & HE & Hin & Hb)]; [discriminate|]. inversion HE; subst. auto. Qed.

Lemma st_scan_spec resp : forall l mi sha mi' sha',
  st_scan resp l mi sha = Some (mi', sha') -> from_list a_is_mi l mi mi' /\ from_list a_is_sha l sha sha'.
Proof.
  induction l as [|a r IH]; intros mi sha mi' sha'; cbn [st_scan].
  - intros HE; inversion HE; subst. split; left; reflexivity.
  - destruct (resp && _ && _); [discriminate|]. intros HE. apply IH in HE as [Hm Hs].
    split; apply from_list_cons; assumption.
Qed.

Lemma compute_mi_none rel mk key i m mk' :
  compute_mi rel mk key i m = (None, mk') -> exists a, i = Some a /\ keyd_eqb (mac_key a) key = true.
Proof.
  unfold compute_mi. destruct i as [a|].
  - destruct (keyd_eqb (mac_key a) key) eqn:Hk.
    + intros _. exists a. auto.
    + destruct (discard_message rel mk m) as [e0 mk0]. discriminate.
  - destruct (discard_message rel mk m) as [e0 mk0]. discriminate.
Qed.

(* the attribute st_recv authenticates with *)
Definition st_pick (s:st_mech) (mi sha:option attr) : option attr :=
  match st_agreed s with
  | Some IMI => mi
  | Some ISHA => sha
  | None => match mi with Some _ => mi | None => sha end
  end.

(* st_recv as a function of the scan result *)
Lemma st_recv_eq rel mk s m :
  st_recv rel mk s m =
  if class_eqb (m_class m) CRequest then (Some EDiscarded, mk, s)
  else match st_scan (negb (class_eqb (m_class m) CIndication)) (rfc_filter (m_attrs m)) None None with
       | None => (Some EDiscarded, mk, s)
       | Some (mi, sha) =>
           let '(e, mk1) := compute_mi rel mk (KST 0) (st_pick s mi sha) m in
           match e with
           | Some _ => (e, mk1, s)
           | None =>
               (None, mk1,
                match st_agreed s, negb (class_eqb (m_class m) CIndication), st_pick s mi sha with
                | None, true, Some a => {| st_agreed := Some (if a_is_mi a then IMI else ISHA) |}
                | _, _, _ => s
                end)
           end
       end.
Proof.
  unfold st_recv, st_pick. destruct (class_eqb (m_class m) CRequest); [reflexivity|].
  destruct (st_scan _ _ None None) as [[mi sha]|]; [|reflexivity].
  destruct (st_agreed s) as [[|]|].
  - destruct (compute_mi rel mk (KST 0) mi m) as [[e|] mk1]; reflexivity.
  - destruct (compute_mi rel mk (KST 0) sha m) as [[e|] mk1]; reflexivity.
  - destruct (compute_mi rel mk (KST 0) _ m) as [[e|] mk1]; [reflexivity|].
    destruct (negb (class_eqb (m_class m) CIndication)); [|reflexivity].
    destruct (match mi with Some _ => mi | None => sha end); reflexivity.
Qed.

Lemma st_pick_from s l mi sha a :
  from_list a_is_mi l None mi -> from_list a_is_sha l None sha -> st_pick s mi sha = Some a ->
  In a l /\ (a_is_mi a = true \/ a_is_sha a = true)
  /\ (st_agreed s = Some IMI -> a_is_mi a = true) /\ (st_agreed s = Some ISHA -> a_is_sha a = true).
Proof.
  intros Hm Hs. unfold st_pick. destruct (st_agreed s) as [[|]|].
  - intros ->. apply from_list_none in Hm as [Hin Ha]. repeat split; auto; discriminate.
  - intros ->. apply from_list_none in Hs as [Hin Ha]. repeat split; auto; discriminate.
  - destruct mi as [b|].
    + intros HE; inversion HE; subst. apply from_list_none in Hm as [Hin Ha]. repeat split; auto; discriminate.
    + intros ->. apply from_list_none in Hs as [Hin Ha]. repeat split; auto; discriminate.
Qed.

(* 1: an accepted message carries an integrity attribute of the agreed kind that verifies under the configured password
   (a request is never accepted, so the hypothesis on the class of the task statement is not needed) *)
Theorem st_accept_sound rel mk s m mk' s' :
  st_recv rel mk s m = (None, mk', s') ->
  exists a, In a (rfc_filter (m_attrs m)) /\ (a_is_mi a = true \/ a_is_sha a = true)
            /\ keyd_eqb (mac_key a) (KST 0) = true
            /\ (st_agreed s = Some IMI -> a_is_mi a = true) /\ (st_agreed s = Some ISHA -> a_is_sha a = true).
Proof.
  rewrite st_recv_eq. destruct (class_eqb (m_class m) CRequest); [discriminate|].
  destruct (st_scan _ _ None None) as [[mi sha]|] eqn:Hscan; [|discriminate].
  apply st_scan_spec in Hscan as [Hm Hs].
  destruct (compute_mi rel mk (KST 0) (st_pick s mi sha) m) as [[e|] mk1] eqn:Hc; [discriminate|].
  apply compute_mi_none in Hc as (a & Hp & Hk). intros _.
  destruct (st_pick_from s _ mi sha a Hm Hs Hp) as (Hin & Hkind & Hi & Hsh).
  exists a. auto.
Qed.
Corollary st_accept_sound_nonrequest rel mk s m mk' s' :
  st_recv rel mk s m = (None, mk', s') -> m_class m <> CRequest ->
  exists a, In a (rfc_filter (m_attrs m)) /\ (a_is_mi a = true \/ a_is_sha a = true)
            /\ keyd_eqb (mac_key a) (KST 0) = true
            /\ (st_agreed s = Some IMI -> a_is_mi a = true) /\ (st_agreed s = Some ISHA -> a_is_sha a = true).
Proof. intros Hr _. eapply st_accept_sound. exact Hr. Qed.
Lemma st_request_refused rel mk s m : m_class m = CRequest -> st_recv rel mk s m = (Some EDiscarded, mk, s).
Proof. intros Hc. rewrite st_recv_eq, Hc. reflexivity. Qed.

(* ================================================================== long term, receiving side (C08) *)
Lemma from_list_weaken f a r o o' : from_list f r o o' -> from_list f (a :: r) o o'.
Proof.
  intros [->|(b & -> & Hin & Hb)]; [left; reflexivity|]. right. exists b. split; [reflexivity|split; [right; exact Hin|exact Hb]].
Qed.
Lemma from_list_head f a r o o' : f a = true -> from_list f r (Some a) o' -> from_list f (a :: r) o o'.
Proof.
  intros Ha [->|(b & -> & Hin & Hb)].
  - right. exists a. split; [reflexivity|split; [left; reflexivity|exact Ha]].
  - right. exists b. split; [reflexivity|split; [right; exact Hin|exact Hb]].
Qed.
Lemma from_list_trans f a r o o1 o' : from_list f [a] o o1 -> from_list f r o1 o' -> from_list f (a :: r) o o'.
Proof.
  intros [->|(b & -> & [<-|[]] & Hb)] H2; [apply from_list_weaken; exact H2|]. apply from_list_head; assumption.
Qed.

Lemma succ_scan_spec i : forall l mi sha mi' sha',
  succ_scan i l mi sha = Some (mi', sha') -> from_list a_is_mi l mi mi' /\ from_list a_is_sha l sha sha'.
Proof.
  induction l as [|a r IH]; intros mi sha mi' sha'; cbn [succ_scan].
  - intros HE; inversion HE; subst. split; left; reflexivity.
  - destruct (a_is_mi a) eqn:Hmi; [|destruct (a_is_sha a) eqn:Hsha].
    + destruct i; [|discriminate]. intros HE. apply IH in HE as [Hm Hs].
      split; [apply from_list_head; assumption|apply from_list_weaken; exact Hs].
    + destruct i; [discriminate|]. intros HE. apply IH in HE as [Hm Hs].
      split; [apply from_list_weaken; exact Hm|apply from_list_head; assumption].
    + intros HE. apply IH in HE as [Hm Hs]. split; apply from_list_weaken; assumption.
Qed.

Lemma harvest1_integ h a h' :
  harvest1 h a = Some h' -> from_list a_is_mi [a] (h_mi h) (h_mi h') /\ from_list a_is_sha [a] (h_sha h) (h_sha h').
Proof.
  unfold harvest1. destruct a; intros HE;
    repeat match type of HE with context [match ?x with _ => _ end] => destruct x end;
    inversion HE; subst; cbn [h_mi h_sha]; split; try (left; reflexivity);
    right; eexists; (split; [reflexivity|split; [left; reflexivity|reflexivity]]).
Qed.
Lemma harvest_all_integ : forall l h h',
  harvest_all h l = Some h' -> from_list a_is_mi l (h_mi h) (h_mi h') /\ from_list a_is_sha l (h_sha h) (h_sha h').
Proof.
  induction l as [|a r IH]; intros h h'; cbn [harvest_all].
  - intros HE; inversion HE; subst. split; left; reflexivity.
  - destruct (harvest1 h a) as [h1|] eqn:H1; [|discriminate]. intros HE.
    apply harvest1_integ in H1 as [Hm1 Hs1]. apply IH in HE as [Hm Hs].
    split; eapply from_list_trans; eassumption.
Qed.

Definition lt_accepts (p:lt_params) (l:list attr) : Prop :=
  exists a, In a l /\ keyd_eqb (mac_key a) (p_key p) = true
            /\ (p_integ p = IMI -> a_is_mi a = true) /\ (p_integ p = ISHA -> a_is_sha a = true).

Lemma lt_auth_sound rel mk p m l mi sha mk' :
  from_list a_is_mi l None mi -> from_list a_is_sha l None sha ->
  authenticate rel mk (p_key p) (p_integ p) m mi sha = (None, mk') -> lt_accepts p l.
Proof.
  intros Hm Hs Ha. unfold authenticate in Ha. apply compute_mi_none in Ha as (a & Hp & Hk). exists a.
  destruct (p_integ p); subst.
  - apply from_list_none in Hm as [Hin Ha]. repeat split; auto; discriminate.
  - apply from_list_none in Hs as [Hin Ha]. repeat split; auto; discriminate.
Qed.

Lemma lt_error_none rel mk s m mk' s' :
  lt_error rel mk s m = (None, mk', s') -> s' = s /\ exists p, lt_pr s = Some p /\ lt_accepts p (rfc_filter (m_attrs m)).
Proof.
  unfold lt_error.
  destruct (harvest_all harvest0 (rfc_filter (m_attrs m))) as [h|] eqn:Hh; [|discriminate].
  apply harvest_all_integ in Hh as [Hm Hs]. cbn [harvest0 h_mi h_sha] in Hm, Hs.
  destruct (h_bit_algs h && _); [discriminate|].
  destruct (h_code h) as [code|]; [|discriminate].
  destruct (code =? 401).
  { destruct (make_params h) as [p|]; [|discriminate]. destruct (has (h_mi h) || has (h_sha h)); [|discriminate].
    destruct (authenticate rel mk (p_key p) (p_integ p) m (h_mi h) (h_sha h)) as [[e0|] mk0]; discriminate. }
  destruct (code =? 438).
  { destruct (h_nonce h) as [n|]; [|discriminate]. destruct (lt_pr s) as [p|]; [|discriminate].
    destruct (has (h_mi h) || has (h_sha h)); [|discriminate].
    destruct (authenticate rel mk (p_key p) (p_integ p) m (h_mi h) (h_sha h)) as [[e0|] mk0]; discriminate. }
  destruct (lt_pr s) as [p|]; [|discriminate].
  destruct (authenticate rel mk (p_key p) (p_integ p) m (h_mi h) (h_sha h)) as [e0 mk0] eqn:Ha.
  intros HE; inversion HE; subst. split; [reflexivity|]. exists p. split; [reflexivity|].
  eapply lt_auth_sound; eassumption.
Qed.
Lemma lt_success_none rel mk s m mk' s' :
  lt_success rel mk s m = (None, mk', s') -> s' = s /\ exists p, lt_pr s = Some p /\ lt_accepts p (rfc_filter (m_attrs m)).
Proof.
  unfold lt_success. destruct (lt_pr s) as [p|]; [|discriminate].
  destruct (succ_scan (p_integ p) (rfc_filter (m_attrs m)) None None) as [[mi sha]|] eqn:Hsc; [|discriminate].
  apply succ_scan_spec in Hsc as [Hm Hs].
  destruct (authenticate rel mk (p_key p) (p_integ p) m mi sha) as [e0 mk0] eqn:Ha.
  intros HE; inversion HE; subst. split; [reflexivity|]. exists p. split; [reflexivity|].
  eapply lt_auth_sound; eassumption.
Qed.

(* 10: an accepted message is a response that carries an integrity attribute of the negotiated kind verifying under the
   cached long-term key; the mechanism is then in the SubsequentRequest state with the same parameters *)
Theorem lt_accept_sound rel mk s m mk' s' :
  lt_recv rel mk s m = (None, mk', s') ->
  (exists p a, lt_pr s = Some p /\ In a (rfc_filter (m_attrs m)) /\ keyd_eqb (mac_key a) (p_key p) = true
               /\ (p_integ p = IMI -> a_is_mi a = true) /\ (p_integ p = ISHA -> a_is_sha a = true))
  /\ lt_st s' = Subsequent /\ lt_pr s' = lt_pr s /\ is_response m = true.
Proof.
  unfold lt_recv, is_response. destruct (m_class m); try discriminate.
  - destruct (lt_success rel mk s m) as [[[e0|] mk0] s0] eqn:Hs; [discriminate|].
    apply lt_success_none in Hs as [-> (p & Hp & a & Ha)]. intros HE; inversion HE; subst. cbn [lt_st lt_pr].
    split; [exists p, a; tauto|auto].
  - destruct (lt_error rel mk s m) as [[[e0|] mk0] s0] eqn:Hs; [discriminate|].
    apply lt_error_none in Hs as [-> (p & Hp & a & Ha)]. intros HE; inversion HE; subst. cbn [lt_st lt_pr].
    split; [exists p, a; tauto|auto].
Qed.

Theorem lt_indication_refused rel mk s m : m_class m = CIndication -> fst (fst (lt_recv rel mk s m)) = Some EDiscarded.
Proof. intros Hc. unfold lt_recv. rewrite Hc. reflexivity. Qed.
Theorem lt_request_refused rel mk s m : m_class m = CRequest -> lt_recv rel mk s m = (Some EDiscarded, mk, s).
Proof. intros Hc. unfold lt_recv. rewrite Hc. reflexivity. Qed.

Theorem lt_send_indication_ignored c s id method app room :
  mech_ c = MLT s -> step c (Indication id method app room) = (c, RIgnored, []).
Proof. intros Hm. cbn [step]. unfold prepare. rewrite Hm. reflexivity. Qed.

(* ================================================================== 5: what the short-term mechanism sends *)
Definition st_tail (s:st_mech) : list attr :=
  match st_agreed s with
  | Some IMI => [AMI (KST 0)]
  | Some ISHA => [ASHA (KST 0)]
  | None => [AMI (KST 0); ASHA (KST 0)]
  end.

(* holds for every `attrs` value *)
Lemma st_prepare_flatten s a :
  flatten (st_prepare s a) = replace_or_push (UserName 0) (remove_first 6 (ord a)) ++ st_tail s ++ opt_list (sl_fp a).
Proof. unfold st_prepare, st_tail. destruct (st_agreed s) as [[|]|]; reflexivity. Qed.

Theorem st_prepare_layout s a :
  types_nodup (ord a) = true ->
  flatten (st_prepare s a) = remove_first 6 (ord a) ++ [UserName 0] ++ st_tail s ++ opt_list (sl_fp a)
  /\ has_ty 6 (remove_first 6 (ord a)) = false.
Proof.
  intros Hn. pose proof (rf_gone 6 (ord a) Hn) as Hg. split; [|exact Hg].
  rewrite st_prepare_flatten. rewrite rop_fresh by exact Hg. rewrite <- app_assoc. reflexivity.
Qed.
Corollary st_prepare_layout_client s app :
  flatten (st_prepare s (of_list app))
  = remove_first 6 (ord (of_list app)) ++ [UserName 0] ++ st_tail s ++ opt_list (sl_fp (of_list app))
  /\ has_ty 6 (remove_first 6 (ord (of_list app))) = false.
Proof. apply st_prepare_layout. apply of_list_types_nodup. Qed.
(* without one attribute per type in `a` the USERNAME replaces a second type-6 attribute in place *)
Example st_prepare_layout_needs_nodup :
  let a := {| ord := [UserName 1; App 7 0; UserName 2]; sl_mi := None; sl_sha := None; sl_fp := None |} in
  flatten (st_prepare {| st_agreed := Some IMI |} a) = [App 7 0; UserName 0; AMI (KST 0)]
  /\ remove_first 6 (ord a) ++ [UserName 0] ++ st_tail {| st_agreed := Some IMI |} ++ opt_list (sl_fp a)
     = [App 7 0; UserName 2; UserName 0; AMI (KST 0)].
Proof. split; reflexivity. Qed.

(* ================================================================== 8: the cached long-term parameters *)
Definition POk (p:lt_params) : Prop :=
  p_key p = KLT (p_realm p) 0 (match p_alg p with Some a => a | None => MD5 end)
  /\ (p_integ p = ISHA <-> p_algs p <> None)
  /\ (forall a, p_alg p = Some a -> exists l, p_algs p = Some l /\ choose_alg l None = Some a)
  /\ (p_algs p <> None -> p_alg p <> None).
Definition PInv (s:lt_mech) : Prop := match lt_pr s with Some p => POk p | None => True end.

Definition HOk (h:harvest) : Prop :=
  (forall a, h_alg h = Some a -> exists l, h_algs h = Some l /\ choose_alg l None = Some a)
  /\ (h_algs h <> None -> h_alg h <> None).

Lemma harvest1_hok h a h' : HOk h -> harvest1 h a = Some h' -> HOk h'.
Proof.
  intros [H1 H2]. unfold harvest1. destruct a; intros HE;
    try (repeat match type of HE with context [match ?x with _ => _ end] => destruct x end;
         inversion HE; subst; split; cbn [h_alg h_algs]; assumption).
  (* PASSWORD-ALGORITHMS *)
  destruct (h_algs h) as [l0|] eqn:El; [inversion HE; subst; split; rewrite ?El; assumption|].
  assert (Hnone : h_alg h = None).
  { destruct (h_alg h) as [x|] eqn:Ex; [|reflexivity]. destruct (H1 x eq_refl) as (l1 & Hl1 & _). discriminate. }
  rewrite Hnone in HE. destruct (choose_alg l None) as [x|] eqn:Hc; [|discriminate].
  inversion HE; subst. split; cbn [h_alg h_algs].
  - intros y Hy. inversion Hy; subst. exists l. auto.
  - intros _. discriminate.
Qed.
Lemma harvest_all_hok : forall l h h', HOk h -> harvest_all h l = Some h' -> HOk h'.
Proof.
  induction l as [|a r IH]; intros h h' Hh; cbn [harvest_all].
  - intros HE; inversion HE; subst. exact Hh.
  - destruct (harvest1 h a) as [h1|] eqn:H1; [|discriminate]. apply IH. eapply harvest1_hok; eassumption.
Qed.
Lemma hok0 : HOk harvest0.
Proof. split; cbn [harvest0 h_alg h_algs]; [discriminate|intros HF; exfalso; apply HF; reflexivity]. Qed.

Lemma make_params_ok h p : HOk h -> make_params h = Some p -> POk p.
Proof.
  intros [H1 H2]. unfold make_params. destruct (h_realm h) as [r|]; [|discriminate]. destruct (h_nonce h) as [n|]; [|discriminate].
  intros HE; inversion HE; subst. unfold POk; cbn [p_key p_realm p_alg p_algs p_integ].
  refine (conj eq_refl (conj _ (conj H1 H2))).
  destruct (h_algs h); split; intros HF; try reflexivity; try discriminate. exfalso. apply HF. reflexivity.
Qed.
Lemma set_nonce_ok p n : POk p -> POk (set_nonce p n).
Proof. intros HP. exact HP. Qed.

Lemma lt_error_pinv rel mk s m e mk' s' : PInv s -> lt_error rel mk s m = (e, mk', s') -> PInv s'.
Proof.
  intros HP. unfold lt_error.
  destruct (harvest_all harvest0 (rfc_filter (m_attrs m))) as [h|] eqn:Hh; [|intros HE; inversion HE; subst; exact HP].
  apply (harvest_all_hok _ _ _ hok0) in Hh.
  destruct (h_bit_algs h && _); [intros HE; inversion HE; subst; exact HP|].
  destruct (h_code h) as [code|]; [|intros HE; inversion HE; subst; exact HP].
  destruct (code =? 401).
  { destruct (make_params h) as [p|] eqn:Hmk; [|intros HE; inversion HE; subst; exact HP].
    apply (make_params_ok h p Hh) in Hmk.
    destruct (has (h_mi h) || has (h_sha h)).
    - destruct (authenticate rel mk (p_key p) (p_integ p) m (h_mi h) (h_sha h)) as [[e0|] mk0];
        intros HE; inversion HE; subst; [exact HP|exact Hmk].
    - intros HE; inversion HE; subst. exact Hmk. }
  destruct (code =? 438).
  { destruct (h_nonce h) as [n|]; [|intros HE; inversion HE; subst; exact HP].
    unfold PInv in HP. destruct (lt_pr s) as [p|] eqn:Hp; [|intros HE; inversion HE; subst; unfold PInv; rewrite Hp; exact I].
    destruct (has (h_mi h) || has (h_sha h)).
    - destruct (authenticate rel mk (p_key p) (p_integ p) m (h_mi h) (h_sha h)) as [[e0|] mk0];
        intros HE; inversion HE; subst; unfold PInv; [rewrite Hp; exact HP|cbn [lt_pr]; exact HP].
    - intros HE; inversion HE; subst. unfold PInv; cbn [lt_pr]. exact HP. }
  destruct (lt_pr s) as [p|] eqn:Hp; [|intros HE; inversion HE; subst; exact HP].
  destruct (authenticate rel mk (p_key p) (p_integ p) m (h_mi h) (h_sha h)) as [e0 mk0].
  intros HE; inversion HE; subst. exact HP.
Qed.
Lemma lt_success_state rel mk s m e mk' s' : lt_success rel mk s m = (e, mk', s') -> s' = s.
Proof.
  unfold lt_success. destruct (lt_pr s) as [p|]; [|intros HE; inversion HE; reflexivity].
  destruct (succ_scan _ _ None None) as [[mi sha]|]; [|intros HE; inversion HE; reflexivity].
  destruct (authenticate rel mk (p_key p) (p_integ p) m mi sha) as [e0 mk0]. intros HE; inversion HE; reflexivity.
Qed.

(* 8: every parameter record the mechanism ever caches is well formed *)
Theorem lt_params_ok rel mk s m e mk' s' : PInv s -> lt_recv rel mk s m = (e, mk', s') -> PInv s'.
Proof.
  intros HP. unfold lt_recv. destruct (m_class m).
  - intros HE; inversion HE; subst. exact HP.
  - intros HE; inversion HE; subst. exact HP.
  - destruct (lt_success rel mk s m) as [[e0 mk0] s0] eqn:Hs. apply lt_success_state in Hs. subst s0.
    destruct e0; intros HE; inversion HE; subst; exact HP.
  - destruct (lt_error rel mk s m) as [[e0 mk0] s0] eqn:Hs. apply (lt_error_pinv _ _ _ _ _ _ _ HP) in Hs.
    destruct e0; intros HE; inversion HE; subst; exact Hs.
Qed.
Lemma pinv_init : PInv {| lt_st := First; lt_pr := None |}.
Proof. exact I. Qed.
(* the same along any sequence of received messages *)
Corollary lt_params_ok_run : forall ms rel mk s,
  PInv s -> PInv (snd (fold_left (fun st m => let '(_, mk1, s1) := lt_recv rel (fst st) (snd st) m in (mk1, s1)) ms (mk, s))).
Proof.
  induction ms as [|m r IH]; intros rel mk s HP; cbn [fold_left]; [exact HP|]. cbn [fst snd].
  destruct (lt_recv rel mk s m) as [[e mk1] s1] eqn:Hr. apply IH. eapply lt_params_ok; eassumption.
Qed.

(* ================================================================== 9: what the long-term mechanism sends, and the server's verdict *)
Definition user_attr (p:lt_params) : attr := if p_anon p then UserHash 0 (p_realm p) else UserName 0.
Definition rn_list (p:lt_params) : list attr := [user_attr p; Realm (p_realm p); Nonce (fst (p_nonce p)) (snd (p_nonce p))].
Definition algs_list (p:lt_params) : list attr :=
  opt_list (option_map PwdAlgs (p_algs p)) ++ opt_list (option_map PwdAlg (p_alg p)).
Definition integ_attr (p:lt_params) : attr := match p_integ p with IMI => AMI (p_key p) | ISHA => ASHA (p_key p) end.
Definition lt_creds (st:lt_state) (p:lt_params) : list attr :=
  match st with
  | First => []
  | Retry401 => rn_list p ++ algs_list p
  | Retry438 => rn_list p ++ [integ_attr p]
  | Subsequent => rn_list p ++ algs_list p ++ [integ_attr p]
  end.

Lemma add_fresh a A l mi sha fp :
  is_integ a = false -> a_is_fp a = false -> has_ty (wire_type a) A = false -> has_ty (wire_type a) l = false ->
  add_attr a {| ord := A ++ l; sl_mi := mi; sl_sha := sha; sl_fp := fp |}
  = {| ord := A ++ (l ++ [a]); sl_mi := mi; sl_sha := sha; sl_fp := fp |}.
Proof.
  intros Hi Hf HA Hl. destruct a; try discriminate; cbn [add_attr ord sl_mi sl_sha sl_fp];
    rewrite rop_app by exact HA; rewrite rop_fresh by exact Hl; reflexivity.
Qed.

Lemma add_rn_layout p A fp : CF A ->
  add_rn p {| ord := A ++ []; sl_mi := None; sl_sha := None; sl_fp := fp |}
  = {| ord := A ++ rn_list p; sl_mi := None; sl_sha := None; sl_fp := fp |}.
Proof.
  intros HCF. unfold add_rn, add_user, rn_list, user_attr.
  destruct (p_anon p);
    repeat (rewrite add_fresh by (first [reflexivity | apply HCF; cbn [In]; tauto]); cbn [app]); reflexivity.
Qed.
Lemma rn_list_types p t : t <> 6 -> t <> 30 -> t <> 20 -> t <> 21 -> has_ty t (rn_list p) = false.
Proof.
  intros N6 N30 N20 N21. apply has_ty_false_intro. intros x Hx HE. unfold rn_list, user_attr in Hx. cbn [In] in Hx.
  destruct Hx as [<-|[<-|[<-|[]]]]; [destruct (p_anon p)|..]; cbn [wire_type] in HE; congruence.
Qed.
Lemma add_algs_layout p A fp : CF A ->
  add_algs p {| ord := A ++ rn_list p; sl_mi := None; sl_sha := None; sl_fp := fp |}
  = {| ord := A ++ (rn_list p ++ algs_list p); sl_mi := None; sl_sha := None; sl_fp := fp |}.
Proof.
  intros HCF. unfold add_algs, algs_list.
  assert (H1 : has_ty 32770 (rn_list p) = false) by (apply rn_list_types; discriminate).
  assert (H2 : has_ty 29 (rn_list p) = false) by (apply rn_list_types; discriminate).
  destruct (p_algs p) as [l|], (p_alg p) as [al|]; cbn [option_map add_opt opt_list app].
  - rewrite add_fresh by (first [reflexivity | apply HCF; cbn [In]; tauto | exact H1]).
    rewrite add_fresh; [rewrite <- app_assoc; reflexivity|reflexivity|reflexivity|apply HCF; cbn [In]; tauto|].
    cbn [wire_type]. rewrite has_ty_app. rewrite H2. reflexivity.
  - rewrite add_fresh by (first [reflexivity | apply HCF; cbn [In]; tauto | exact H1]). reflexivity.
  - rewrite add_fresh by (first [reflexivity | apply HCF; cbn [In]; tauto | exact H2]). reflexivity.
  - rewrite app_nil_r. reflexivity.
Qed.
Lemma add_integ_flatten p A l fp :
  flatten (add_integ p {| ord := A ++ l; sl_mi := None; sl_sha := None; sl_fp := fp |})
  = A ++ (l ++ [integ_attr p]) ++ opt_list fp.
Proof.
  unfold add_integ, integ_attr, flatten. destruct (p_integ p); cbn [add_attr ord sl_mi sl_sha sl_fp opt_list app];
    rewrite <- !app_assoc; reflexivity.
Qed.

Lemma lt_layout_aux st p A fp : CF A ->
  flatten (match st with
           | First => {| ord := A ++ []; sl_mi := None; sl_sha := None; sl_fp := fp |}
           | Retry401 => add_algs p (add_rn p {| ord := A ++ []; sl_mi := None; sl_sha := None; sl_fp := fp |})
           | Retry438 => add_integ p (add_rn p {| ord := A ++ []; sl_mi := None; sl_sha := None; sl_fp := fp |})
           | Subsequent => add_integ p (add_algs p (add_rn p {| ord := A ++ []; sl_mi := None; sl_sha := None; sl_fp := fp |}))
           end) = A ++ lt_creds st p ++ opt_list fp.
Proof.
  intros HCF. destruct st; cbn [lt_creds].
  - unfold flatten. cbn [ord sl_mi sl_sha sl_fp opt_list app]. rewrite app_nil_r. reflexivity.
  - rewrite add_rn_layout by exact HCF. rewrite add_algs_layout by exact HCF.
    unfold flatten. cbn [ord sl_mi sl_sha sl_fp opt_list app]. rewrite <- !app_assoc. reflexivity.
  - rewrite add_rn_layout by exact HCF. rewrite add_integ_flatten. rewrite <- !app_assoc. reflexivity.
  - rewrite add_rn_layout by exact HCF. rewrite add_algs_layout by exact HCF. rewrite add_integ_flatten.
    rewrite <- !app_assoc. reflexivity.
Qed.

(* the layout of every long-term request (C13 for the long-term mechanism) *)
Theorem lt_prepare_layout s a p :
  types_nodup (ord a) = true -> lt_pr s = Some p ->
  exists x, lt_prepare s a = Some x
            /\ flatten x = ord (strip_lt a) ++ lt_creds (lt_st s) p ++ opt_list (sl_fp a).
Proof.
  intros Hn Hp. pose proof (strip_lt_CF a Hn) as HCF. unfold lt_prepare. rewrite Hp.
  pose proof (lt_layout_aux (lt_st s) p (ord (strip_lt a)) (sl_fp a) HCF) as HL. rewrite app_nil_r in HL.
  destruct (lt_st s); eexists; (split; [reflexivity|]); exact HL.
Qed.

Lemma existsb_skip (f:attr -> bool) A r : (forall x, In x A -> f x = false) -> existsb f (A ++ r) = existsb f r.
Proof.
  intros HA. rewrite existsb_app. replace (existsb f A) with false; [reflexivity|]. symmetry.
  destruct (existsb f A) eqn:He; [|reflexivity]. apply existsb_exists in He as (x & Hx & Hf). rewrite (HA x Hx) in Hf. discriminate.
Qed.
Lemma find_skip (f:attr -> bool) : forall A r, (forall x, In x A -> f x = false) -> find f (A ++ r) = find f r.
Proof.
  induction A as [|y A IH]; intros r HA; cbn [app find]; [reflexivity|]. rewrite (HA y (or_introl eq_refl)).
  apply IH. intros x Hx. apply HA. right. exact Hx.
Qed.
Lemma CF_facts A x : CF A -> In x A ->
  wire_type x <> 6 /\ wire_type x <> 30 /\ wire_type x <> 20 /\ wire_type x <> 21 /\ wire_type x <> 29 /\ wire_type x <> 32770.
Proof.
  intros HCF Hx. repeat split; (eapply has_ty_false_in; [apply HCF; cbn [In]; tauto|exact Hx]).
Qed.

(* the server looks at nothing the application may supply *)
Lemma verdict_skip sv A r :
  CF A -> (forall x, In x A -> is_integ x = false) -> server_verdict sv (A ++ r) = server_verdict sv r.
Proof.
  intros HCF HI.
  assert (Hskip : forall f:attr -> bool,
            (forall x, wire_type x <> 6 -> wire_type x <> 30 -> wire_type x <> 20 -> wire_type x <> 21 -> wire_type x <> 29 ->
                       wire_type x <> 32770 -> is_integ x = false -> f x = false) ->
            existsb f (A ++ r) = existsb f r /\ find f (A ++ r) = find f r).
  { intros f Hf. assert (HA : forall x, In x A -> f x = false).
    { intros x Hx. destruct (CF_facts A x HCF Hx) as (W6 & W30 & W20 & W21 & W29 & W32). apply Hf; auto. }
    split; [apply existsb_skip|apply find_skip]; exact HA. }
  unfold server_verdict, get_realm, get_nonce, get_algs, get_alg.
  repeat match goal with
  | |- context [existsb ?f (A ++ r)] =>
      rewrite (proj1 (Hskip f ltac:(intros x W6 W30 W20 W21 W29 W32 WI; destruct x; cbn in *;
                                      try reflexivity; try congruence; apply N.eqb_neq; assumption)))
  | |- context [find ?f (A ++ r)] =>
      rewrite (proj2 (Hskip f ltac:(intros x W6 W30 W20 W21 W29 W32 WI; destruct x; cbn in *;
                                      try reflexivity; try congruence; apply N.eqb_neq; assumption)))
  end.
  reflexivity.
Qed.

Lemma choose_alg_in : forall l acc a, choose_alg l acc = Some a -> acc = Some a \/ existsb (alg_eqb a) l = true.
Proof.
  induction l as [|x r IH]; intros acc a; cbn [choose_alg existsb]; [auto|]. destruct x as [| |n].
  - intros HE. destruct (IH _ _ HE) as [HS|Hex].
    + inversion HS; subst. right. reflexivity.
    + right. rewrite Hex. apply orb_true_r.
  - intros HE; inversion HE; subst. right. reflexivity.
  - intros HE. destruct (IH _ _ HE) as [HS|Hex]; [left; exact HS|right; rewrite Hex; apply orb_true_r].
Qed.

Lemma pok_cases p : POk p ->
  (p_algs p = None /\ p_alg p = None /\ p_integ p = IMI /\ p_key p = KLT (p_realm p) 0 MD5)
  \/ (exists l a, p_algs p = Some l /\ p_alg p = Some a /\ p_integ p = ISHA /\ p_key p = KLT (p_realm p) 0 a
                  /\ existsb (alg_eqb a) l = true).
Proof.
  intros (Hk & Hi & Ha & Hn). destruct (p_algs p) as [l|] eqn:El.
  - right. destruct (p_alg p) as [a|] eqn:Ea; [|exfalso; apply Hn; [discriminate|reflexivity]].
    destruct (Ha a eq_refl) as (l' & Hl' & Hc). inversion Hl'; subst l'.
    exists l, a. repeat split; auto.
    + apply Hi. discriminate.
    + destruct (choose_alg_in l None a Hc) as [HF|Hex]; [discriminate|exact Hex].
  - left. assert (Ea : p_alg p = None).
    { destruct (p_alg p) as [a|] eqn:Ea; [|reflexivity]. destruct (Ha a eq_refl) as (l' & Hl' & _). discriminate. }
    rewrite Ea in Hk. repeat split; auto.
    destruct (p_integ p) eqn:Ei; [reflexivity|]. exfalso. apply (proj1 Hi); reflexivity.
Qed.

(* the server that issued the cached challenge *)
Definition sv_agrees (sv:lt_mon) (p:lt_params) : Prop :=
  lm_realm sv = p_realm p /\ lm_nonce sv = p_nonce p /\ lm_algs sv = p_algs p /\ lm_anon sv = p_anon p.

Ltac verdict_crunch :=
  repeat (progress (rewrite ?N.eqb_refl, ?algs_eqb_refl, ?alg_eqb_refl; cbn)).

Lemma verdict_subsequent sv p fp : POk p -> sv_agrees sv p -> slot_ok a_is_fp fp ->
  server_verdict sv (lt_creds Subsequent p ++ opt_list fp) = 0.
Proof.
  intros HP (Hr & Hn & Ha & Han) Hfp.
  unfold server_verdict, lt_creds, rn_list, algs_list, integ_attr, user_attr. rewrite Hr, Hn, Ha, Han.
  destruct (pok_cases p HP) as [(Ea & Eal & Ei & Ek)|(l & a & Ea & Eal & Ei & Ek & Hex)]; rewrite Ea, Eal, Ei, Ek;
    destruct (p_anon p); destruct fp as [[]|]; cbn [slot_ok a_is_fp] in Hfp; try discriminate;
    cbn; verdict_crunch; rewrite ?Hex; verdict_crunch; reflexivity.
Qed.
Lemma verdict_retry401 sv p fp : sv_agrees sv p -> slot_ok a_is_fp fp ->
  server_verdict sv (lt_creds Retry401 p ++ opt_list fp) = 1.
Proof.
  intros (Hr & Hn & Ha & Han) Hfp.
  unfold server_verdict, lt_creds, rn_list, algs_list, user_attr. rewrite Hr, Hn, Ha, Han.
  destruct (p_algs p), (p_alg p); destruct (p_anon p); destruct fp as [[]|]; cbn [slot_ok a_is_fp] in Hfp; try discriminate;
    cbn; verdict_crunch; reflexivity.
Qed.
Lemma verdict_retry438 sv p fp : POk p -> sv_agrees sv p -> slot_ok a_is_fp fp ->
  server_verdict sv (lt_creds Retry438 p ++ opt_list fp) = match p_algs p with None => 0 | Some _ => 2 end.
Proof.
  intros HP (Hr & Hn & Ha & Han) Hfp.
  unfold server_verdict, lt_creds, rn_list, integ_attr, user_attr. rewrite Hr, Hn, Ha, Han.
  destruct (pok_cases p HP) as [(Ea & Eal & Ei & Ek)|(l & a & Ea & Eal & Ei & Ek & Hex)]; rewrite Ea, Ei, Ek;
    destruct (p_anon p); destruct fp as [[]|]; cbn [slot_ok a_is_fp] in Hfp; try discriminate;
    cbn; verdict_crunch; reflexivity.
Qed.

Lemma lt_prepare_fp s a x : lt_prepare s a = Some x -> sl_fp x = sl_fp a.
Proof.
  unfold lt_prepare, add_integ, add_algs, add_rn, add_user.
  destruct (lt_st s); destruct (lt_pr s) as [p|]; intros HE; try discriminate; injection HE as <-; try reflexivity;
    destruct (p_anon p); try destruct (p_algs p); try destruct (p_alg p); try destruct (p_integ p); reflexivity.
Qed.
Lemma flatten_set_fp x g l : flatten x = l ++ opt_list (sl_fp x) -> flatten (add_attr (AFP g) x) = l ++ [AFP g].
Proof.
  unfold flatten. cbn [add_attr ord sl_mi sl_sha sl_fp opt_list]. intros HE.
  rewrite !app_assoc in HE. apply app_inv_tail in HE. rewrite !app_assoc. rewrite HE. reflexivity.
Qed.

(* what the client puts on the wire for a long-term request, FINGERPRINT included *)
Definition client_fp (c:client) (app:list attr) : option attr :=
  if use_fp (cfg c) then Some (AFP true) else sl_fp (of_list app).
Theorem lt_client_layout c s p app :
  mech_ c = MLT s -> lt_pr s = Some p ->
  exists x, prepare c true app = inl (Some x)
            /\ flatten x = ord (strip_lt (of_list app)) ++ lt_creds (lt_st s) p ++ opt_list (client_fp c app)
            /\ slot_ok a_is_fp (client_fp c app).
Proof.
  intros Hm Hp. destruct (lt_prepare_layout s (of_list app) p (of_list_types_nodup app) Hp) as (y & Hy & Hfl).
  unfold prepare, client_fp. rewrite Hm, Hy. pose proof (lt_prepare_fp _ _ _ Hy) as Hfp.
  destruct (use_fp (cfg c)).
  - eexists. split; [reflexivity|]. split; [|reflexivity]. rewrite <- Hfp in Hfl. rewrite app_assoc in Hfl.
    rewrite (flatten_set_fp y true _ Hfl). rewrite <- app_assoc. reflexivity.
  - exists y. split; [reflexivity|]. split; [exact Hfl|]. destruct (ainv_of_list app) as (_ & _ & _ & Hf). exact Hf.
Qed.

Lemma strip_of_list_skip app : CF (ord (strip_lt (of_list app))) /\ forall x, In x (ord (strip_lt (of_list app))) -> is_integ x = false.
Proof.
  split; [apply strip_lt_CF, of_list_types_nodup|]. destruct (ainv_strip_lt _ (ainv_of_list app)) as (Ho & _).
  intros x Hx. apply (Ho x Hx).
Qed.

(* 9: requests formed in the SubsequentRequest state are accepted by the server that issued the challenge *)
Theorem lt_subsequent_accepted s p sv app :
  lt_st s = Subsequent -> lt_pr s = Some p -> POk p -> sv_agrees sv p ->
  exists x, lt_prepare s (of_list app) = Some x /\ server_verdict sv (flatten x) = 0.
Proof.
  intros Hs Hp HP Hsv. destruct (lt_prepare_layout s (of_list app) p (of_list_types_nodup app) Hp) as (x & Hx & Hfl).
  exists x. split; [exact Hx|]. rewrite Hfl, Hs. destruct (strip_of_list_skip app) as [HCF HI].
  rewrite verdict_skip by assumption. apply verdict_subsequent; try assumption.
  destruct (ainv_of_list app) as (_ & _ & _ & Hf). exact Hf.
Qed.
(* the known findings as theorems about the faithful model: no integrity after a 401 (D6), no algorithm attributes
   after a 438 (D7) *)
Theorem lt_retry401_verdict s p sv app :
  lt_st s = Retry401 -> lt_pr s = Some p -> sv_agrees sv p ->
  exists x, lt_prepare s (of_list app) = Some x /\ server_verdict sv (flatten x) = 1.
Proof.
  intros Hs Hp Hsv. destruct (lt_prepare_layout s (of_list app) p (of_list_types_nodup app) Hp) as (x & Hx & Hfl).
  exists x. split; [exact Hx|]. rewrite Hfl, Hs. destruct (strip_of_list_skip app) as [HCF HI].
  rewrite verdict_skip by assumption. apply verdict_retry401; try assumption.
  destruct (ainv_of_list app) as (_ & _ & _ & Hf). exact Hf.
Qed.
Theorem lt_retry438_verdict s p sv app :
  lt_st s = Retry438 -> lt_pr s = Some p -> POk p -> sv_agrees sv p ->
  exists x, lt_prepare s (of_list app) = Some x
            /\ server_verdict sv (flatten x) = match p_algs p with None => 0 | Some _ => 2 end.
Proof.
  intros Hs Hp HP Hsv. destruct (lt_prepare_layout s (of_list app) p (of_list_types_nodup app) Hp) as (x & Hx & Hfl).
  exists x. split; [exact Hx|]. rewrite Hfl, Hs. destruct (strip_of_list_skip app) as [HCF HI].
  rewrite verdict_skip by assumption. apply verdict_retry438; try assumption.
  destruct (ainv_of_list app) as (_ & _ & _ & Hf). exact Hf.
Qed.

(* the same three on the client, i.e. for the attribute list of the packet actually sent (FINGERPRINT included) *)
Theorem lt_client_verdicts c s p sv app :
  mech_ c = MLT s -> lt_pr s = Some p -> POk p -> sv_agrees sv p ->
  exists x, prepare c true app = inl (Some x) /\
    match lt_st s with
    | First => True
    | Retry401 => server_verdict sv (flatten x) = 1
    | Retry438 => server_verdict sv (flatten x) = match p_algs p with None => 0 | Some _ => 2 end
    | Subsequent => server_verdict sv (flatten x) = 0
    end.
Proof.
  intros Hm Hp HP Hsv. destruct (lt_client_layout c s p app Hm Hp) as (x & Hx & Hfl & Hfp).
  exists x. split; [exact Hx|]. destruct (strip_of_list_skip app) as [HCF HI].
  destruct (lt_st s); [exact I|..]; rewrite Hfl; rewrite verdict_skip by assumption.
  - apply verdict_retry401; assumption.
  - apply verdict_retry438; assumption.
  - apply verdict_subsequent; assumption.
Qed.

(* ================================================================== 2, 3, 4: short term, the remaining cases *)
Lemma response_classes m : is_response m = true ->
  class_eqb (m_class m) CRequest = false /\ negb (class_eqb (m_class m) CIndication) = true.
Proof. unfold is_response. destruct (m_class m); intros HE; try discriminate; split; reflexivity. Qed.

Lemma st_scan_both : forall l mi sha,
  has mi && has sha = false ->
  (has mi || existsb a_is_mi l) && (has sha || existsb a_is_sha l) = true -> st_scan true l mi sha = None.
Proof.
  induction l as [|a r IH]; intros mi sha Hno Hex.
  - cbn [existsb] in Hex. rewrite !orb_false_r in Hex. rewrite Hex in Hno. discriminate.
  - cbn [st_scan existsb] in *.
    destruct (a_is_mi a) eqn:Hm, (a_is_sha a) eqn:Hs, mi as [x|], sha as [y|]; cbn [has andb orb] in *;
      try discriminate; try reflexivity; apply IH; cbn [has andb orb]; auto.
Qed.

(* 2: a response whose protected list carries both a MESSAGE-INTEGRITY and a MESSAGE-INTEGRITY-SHA256 is discarded *)
Theorem st_no_both_in_response rel mk s m :
  is_response m = true ->
  existsb a_is_mi (rfc_filter (m_attrs m)) = true -> existsb a_is_sha (rfc_filter (m_attrs m)) = true ->
  st_recv rel mk s m = (Some EDiscarded, mk, s).
Proof.
  intros Hr Hm Hs. rewrite st_recv_eq. destruct (response_classes m Hr) as [-> ->].
  rewrite st_scan_both; [reflexivity|reflexivity|]. cbn [has orb]. rewrite Hm, Hs. reflexivity.
Qed.

(* 3: the agreed integrity kind is only ever learnt, once, from an accepted response *)
Theorem st_learning rel mk s m e mk' s' :
  st_recv rel mk s m = (e, mk', s') -> st_agreed s' <> st_agreed s ->
  st_agreed s = None /\ is_response m = true /\ e = None
  /\ exists a, In a (rfc_filter (m_attrs m)) /\ (a_is_mi a = true \/ a_is_sha a = true)
               /\ keyd_eqb (mac_key a) (KST 0) = true
               /\ st_agreed s' = Some (if a_is_mi a then IMI else ISHA).
Proof.
  rewrite st_recv_eq. destruct (class_eqb (m_class m) CRequest) eqn:Hreq; [intros HE; inversion HE; subst; intros HF; contradiction|].
  destruct (st_scan _ _ None None) as [[mi sha]|] eqn:Hscan; [|intros HE; inversion HE; subst; intros HF; contradiction].
  apply st_scan_spec in Hscan as [Hm Hs].
  destruct (compute_mi rel mk (KST 0) (st_pick s mi sha) m) as [[e0|] mk1] eqn:Hc;
    [intros HE; inversion HE; subst; intros HF; contradiction|].
  apply compute_mi_none in Hc as (a & Hp & Hk). rewrite Hp.
  destruct (st_agreed s) as [v|] eqn:Hag; [intros HE; inversion HE; subst; intros HF; rewrite Hag in HF; contradiction|].
  destruct (negb (class_eqb (m_class m) CIndication)) eqn:Hind;
    [|intros HE; inversion HE; subst; intros HF; rewrite Hag in HF; contradiction].
  intros HE; inversion HE; subst. intros _. cbn [st_agreed].
  assert (Hag' : st_agreed s = None) by exact Hag.
  destruct (st_pick_from s _ mi sha a Hm Hs Hp) as (Hin & Hkind & _ & _).
  repeat split; auto.
  - unfold is_response. destruct (m_class m); cbn in Hreq, Hind; try discriminate; reflexivity.
  - exists a. auto.
Qed.
(* ... and the kind learnt is MESSAGE-INTEGRITY whenever the response carries one *)
Lemma st_pick_prefers_mi s mi sha a : st_agreed s = None -> mi = Some a -> st_pick s mi sha = Some a.
Proof. intros Hs ->. unfold st_pick. rewrite Hs. reflexivity. Qed.

(* 4: rejection. `st_fails`: the attribute the mechanism authenticates with is absent or does not verify *)
Definition st_fails (s:st_mech) (mi sha:option attr) : Prop :=
  match st_pick s mi sha with Some a => keyd_eqb (mac_key a) (KST 0) = false | None => True end.

Lemma compute_mi_fail rel mk key i m :
  match i with Some a => keyd_eqb (mac_key a) key = false | None => True end ->
  compute_mi rel mk key i m = (Some (fst (discard_message rel mk m)), snd (discard_message rel mk m)).
Proof.
  unfold compute_mi. destruct i as [a|]; [intros ->|intros _]; destruct (discard_message rel mk m) as [e0 mk0]; reflexivity.
Qed.
Lemma st_recv_fail rel mk s m mi sha :
  class_eqb (m_class m) CRequest = false ->
  st_scan (negb (class_eqb (m_class m) CIndication)) (rfc_filter (m_attrs m)) None None = Some (mi, sha) ->
  st_fails s mi sha ->
  st_recv rel mk s m = (Some (fst (discard_message rel mk m)), snd (discard_message rel mk m), s).
Proof.
  intros Hreq Hscan Hf. rewrite st_recv_eq, Hreq, Hscan. rewrite compute_mi_fail by exact Hf. reflexivity.
Qed.

Theorem st_reject_reliable mk s m mi sha :
  is_response m = true -> st_scan true (rfc_filter (m_attrs m)) None None = Some (mi, sha) -> st_fails s mi sha ->
  st_recv true mk s m = (Some EViolated, mk, s).
Proof.
  intros Hr Hscan Hf. destruct (response_classes m Hr) as [Hreq Hind].
  rewrite (st_recv_fail true mk s m mi sha Hreq) by (rewrite ?Hind; assumption).
  unfold discard_message. apply negb_true_iff in Hind. rewrite Hind. reflexivity.
Qed.
Theorem st_reject_unreliable mk s m mi sha :
  is_response m = true -> st_scan true (rfc_filter (m_attrs m)) None None = Some (mi, sha) -> st_fails s mi sha ->
  st_recv false mk s m = (Some EDiscarded, ins (m_id m) mk, s).
Proof.
  intros Hr Hscan Hf. destruct (response_classes m Hr) as [Hreq Hind].
  rewrite (st_recv_fail false mk s m mi sha Hreq) by (rewrite ?Hind; assumption).
  unfold discard_message. apply negb_true_iff in Hind. rewrite Hind. reflexivity.
Qed.
Theorem st_reject_indication rel mk s m mi sha :
  m_class m = CIndication -> st_scan false (rfc_filter (m_attrs m)) None None = Some (mi, sha) -> st_fails s mi sha ->
  st_recv rel mk s m = (Some EDiscarded, mk, s).
Proof.
  intros Hc Hscan Hf.
  rewrite (st_recv_fail rel mk s m mi sha) by (rewrite ?Hc; cbn [class_eqb negb]; first [reflexivity|assumption]).
  unfold discard_message. rewrite Hc. reflexivity.
Qed.
(* an indication is never discarded by the scan itself, so the three cases above with `st_accept_complete` are exhaustive *)
Lemma st_scan_indication : forall l mi sha, exists mi' sha', st_scan false l mi sha = Some (mi', sha').
Proof. induction l as [|a r IH]; intros mi sha; cbn [st_scan andb]; [eauto|apply IH]. Qed.
Theorem st_accept_complete rel mk s m mi sha a :
  class_eqb (m_class m) CRequest = false ->
  st_scan (negb (class_eqb (m_class m) CIndication)) (rfc_filter (m_attrs m)) None None = Some (mi, sha) ->
  st_pick s mi sha = Some a -> keyd_eqb (mac_key a) (KST 0) = true ->
  fst (fst (st_recv rel mk s m)) = None.
Proof.
  intros Hreq Hscan Hp Hk. rewrite st_recv_eq, Hreq, Hscan, Hp. unfold compute_mi. rewrite Hk. reflexivity.
Qed.

(* ================================================================== 11: a stale-nonce (438) retry only switches the nonce *)
Lemma get_code_cons a r : get_code (a :: r) = match a with ErrorCode c => Some c | _ => get_code r end.
Proof. destruct a; reflexivity. Qed.
Lemma get_nonce_cons a r : get_nonce (a :: r) = match a with Nonce n c => Some (n, c) | _ => get_nonce r end.
Proof. destruct a; reflexivity. Qed.

Lemma harvest1_cn h a h' : harvest1 h a = Some h' ->
  h_code h' = match h_code h with Some c => Some c | None => match a with ErrorCode c => Some c | _ => None end end
  /\ h_nonce h' = match h_nonce h with Some n => Some n | None => match a with Nonce n c => Some (n, c) | _ => None end end.
Proof.
  unfold harvest1. destruct a; intros HE;
    repeat match type of HE with context [match ?x with _ => _ end] => destruct x eqn:? end;
    try discriminate; injection HE as HE; subst h'; cbn [h_code h_nonce];
    repeat match goal with H : ?x = _ |- context [?x] => rewrite H end;
    split; try reflexivity; destruct (h_code h); destruct (h_nonce h); reflexivity.
Qed.
Lemma harvest_all_cn : forall l h h', harvest_all h l = Some h' ->
  h_code h' = match h_code h with Some c => Some c | None => get_code l end
  /\ h_nonce h' = match h_nonce h with Some n => Some n | None => get_nonce l end.
Proof.
  induction l as [|a r IH]; intros h h'; cbn [harvest_all].
  - intros HE; inversion HE; subst. split; [destruct (h_code h')|destruct (h_nonce h')]; reflexivity.
  - destruct (harvest1 h a) as [h1|] eqn:H1; [|discriminate]. intros HE.
    apply harvest1_cn in H1 as [Hc1 Hn1]. apply IH in HE as [Hc Hn]. rewrite Hc, Hn, Hc1, Hn1, get_code_cons, get_nonce_cons.
    split; [destruct (h_code h); [reflexivity|destruct a; reflexivity]|destruct (h_nonce h); [reflexivity|destruct a; reflexivity]].
Qed.

Lemma compute_mi_err rel mk key i m e mk' : compute_mi rel mk key i m = (Some e, mk') -> e = EDiscarded \/ e = EViolated.
Proof.
  unfold compute_mi, discard_message.
  destruct i as [a|]; [destruct (keyd_eqb (mac_key a) key); [discriminate|]|];
    destruct (class_eqb (m_class m) CIndication); try destruct rel; intros HE; inversion HE; auto.
Qed.

Theorem lt_438_switches_nonce rel mk s m mk' s' p :
  m_class m = CError -> get_code (rfc_filter (m_attrs m)) = Some 438 -> lt_pr s = Some p ->
  lt_recv rel mk s m = (Some ERetry, mk', s') ->
  exists n, get_nonce (rfc_filter (m_attrs m)) = Some n
            /\ s' = {| lt_st := Retry438; lt_pr := Some (set_nonce p n) |}
            /\ p_nonce (set_nonce p n) = n /\ p_realm (set_nonce p n) = p_realm p /\ p_algs (set_nonce p n) = p_algs p
            /\ p_alg (set_nonce p n) = p_alg p /\ p_key (set_nonce p n) = p_key p /\ p_anon (set_nonce p n) = p_anon p
            /\ p_integ (set_nonce p n) = p_integ p.
Proof.
  intros Hc Hcode Hp. unfold lt_recv. rewrite Hc.
  destruct (lt_error rel mk s m) as [[[e0|] mk0] s0] eqn:He; intros HE; inversion HE; subst; clear HE.
  unfold lt_error in He.
  destruct (harvest_all harvest0 (rfc_filter (m_attrs m))) as [h|] eqn:Hh; [|discriminate].
  apply harvest_all_cn in Hh as [Hhc Hhn]. cbn [harvest0 h_code h_nonce] in Hhc, Hhn. rewrite Hcode in Hhc.
  destruct (h_bit_algs h && _); [discriminate|]. rewrite Hhc in He.
  change (438 =? 401) with false in He. change (438 =? 438) with true in He. cbv iota in He.
  rewrite Hhn in He. destruct (get_nonce (rfc_filter (m_attrs m))) as [n|]; [|discriminate].
  rewrite Hp in He. exists n. split; [reflexivity|].
  destruct (has (h_mi h) || has (h_sha h)).
  - destruct (authenticate rel mk (p_key p) (p_integ p) m (h_mi h) (h_sha h)) as [[e1|] mk1] eqn:Ha; inversion He; subst.
    + unfold authenticate in Ha. apply compute_mi_err in Ha as [HF|HF]; discriminate.
    + repeat split.
  - inversion He; subst. repeat split.
Qed.

(* ================================================================== 6: on the client, `Received` means the mechanism accepted *)
Lemma filter_by_in : forall bs l a, In a (filter_by bs l) -> In a l.
Proof.
  induction bs as [|b bs IH]; intros l a; destruct l as [|x l]; cbn [filter_by]; try (intros []).
  destruct b; [intros [HE|Hin]; [left; exact HE|right; apply IH; exact Hin]|intros Hin; right; apply IH; exact Hin].
Qed.
Lemma rfc_filter_in l a : In a (rfc_filter l) -> In a l.
Proof. unfold rfc_filter. apply filter_by_in. Qed.

Ltac recv_dead Hs Hin :=
  inversion Hs; subst; cbn [In] in Hin; repeat (destruct Hin as [Hin|Hin]); try discriminate; try contradiction.

Lemma client_received_shape c now w c' r evs m :
  step c (Recv now true w) = (c', r, evs) -> In (Received m) evs ->
  m = wmsg w /\ evs = [Received m] /\ r = ROk None
  /\ exists mk' mech', mech_step (reliable (cfg c)) (markers c) (mech_ c) (wmsg w) = (None, mk', mech')
                       /\ mech_ c' = mech' /\ markers c' = mk'.
Proof.
  intros Hs Hin. rewrite step_recv_eq in Hs. cbv zeta in Hs.
  destruct (class_eqb (m_class (wmsg w)) CRequest); [recv_dead Hs Hin|].
  destruct (is_response (wmsg w) && _); [recv_dead Hs Hin|].
  destruct (use_fp (cfg c) && match find a_is_fp (m_attrs (wmsg w)) with None => true | Some _ => false end); [recv_dead Hs Hin|].
  destruct (use_fp (cfg c) && _); [recv_dead Hs Hin|].
  destruct (mech_step (reliable (cfg c)) (markers c) (mech_ c) (wmsg w)) as [[e mk1] mech1] eqn:Hm.
  unfold recv_tail in Hs.
  destruct e as [[| | |]|]; try (destruct (class_eqb (m_class (wmsg w)) CIndication)); recv_dead Hs Hin;
    inversion Hin; subst; (split; [reflexivity|split; [reflexivity|split; [reflexivity|]]]);
    exists mk1, mech1; repeat split.
Qed.

Theorem client_received_st c now w s c' r evs m :
  mech_ c = MST s -> step c (Recv now true w) = (c', r, evs) -> In (Received m) evs ->
  m = wmsg w /\ evs = [Received m] /\ r = ROk None
  /\ exists mk' s', st_recv (reliable (cfg c)) (markers c) s (wmsg w) = (None, mk', s')
       /\ mech_ c' = MST s' /\ markers c' = mk'
       /\ exists a, In a (rfc_filter (m_attrs w)) /\ (a_is_mi a = true \/ a_is_sha a = true)
                    /\ keyd_eqb (mac_key a) (KST 0) = true
                    /\ (st_agreed s = Some IMI -> a_is_mi a = true) /\ (st_agreed s = Some ISHA -> a_is_sha a = true).
Proof.
  intros Hmech Hs Hin. destruct (client_received_shape c now w c' r evs m Hs Hin) as (Hm & Hev & Hr & mk' & mech' & Hstep & Hc' & Hk').
  refine (conj Hm (conj Hev (conj Hr _))). unfold mech_step in Hstep. rewrite Hmech in Hstep.
  destruct (st_recv (reliable (cfg c)) (markers c) s (wmsg w)) as [[e mk1] s1] eqn:Hrecv. injection Hstep as -> -> <-.
  exists mk', s1. refine (conj eq_refl (conj Hc' (conj Hk' _))).
  destruct (st_accept_sound _ _ _ _ _ _ Hrecv) as (a & Hin_a & Hkind & Hkey & Hi & Hsh).
  exists a. split; [apply rfc_filter_in; exact Hin_a|auto].
Qed.

Theorem client_received_lt c now w s c' r evs m :
  mech_ c = MLT s -> step c (Recv now true w) = (c', r, evs) -> In (Received m) evs ->
  m = wmsg w /\ evs = [Received m] /\ r = ROk None /\ is_response w = true
  /\ exists mk' s', lt_recv (reliable (cfg c)) (markers c) s (wmsg w) = (None, mk', s')
       /\ mech_ c' = MLT s' /\ markers c' = mk' /\ lt_st s' = Subsequent /\ lt_pr s' = lt_pr s
       /\ exists p a, lt_pr s = Some p /\ In a (rfc_filter (m_attrs w)) /\ keyd_eqb (mac_key a) (p_key p) = true
                      /\ (p_integ p = IMI -> a_is_mi a = true) /\ (p_integ p = ISHA -> a_is_sha a = true).
Proof.
  intros Hmech Hs Hin. destruct (client_received_shape c now w c' r evs m Hs Hin) as (Hm & Hev & Hr & mk' & mech' & Hstep & Hc' & Hk').
  unfold mech_step in Hstep. rewrite Hmech in Hstep.
  destruct (lt_recv (reliable (cfg c)) (markers c) s (wmsg w)) as [[e mk1] s1] eqn:Hrecv. injection Hstep as -> -> <-.
  destruct (lt_accept_sound _ _ _ _ _ _ Hrecv) as ((p & a & Hp & Hin_a & Hkey & Hi & Hsh) & Hst & Hpr & Hresp).
  refine (conj Hm (conj Hev (conj Hr (conj Hresp _)))).
  exists mk', s1. refine (conj eq_refl (conj Hc' (conj Hk' (conj Hst (conj Hpr _))))).
  exists p, a. split; [exact Hp|]. split; [apply rfc_filter_in; exact Hin_a|auto].
Qed.
(* in particular an indication is never delivered by a long-term client *)
Corollary client_lt_no_indication c now w s c' r evs m :
  mech_ c = MLT s -> step c (Recv now true w) = (c', r, evs) -> In (Received m) evs -> m_class m <> CIndication.
Proof.
  intros Hmech Hs Hin. destruct (client_received_lt c now w s c' r evs m Hmech Hs Hin) as (-> & _ & _ & Hresp & _).
  unfold is_response in Hresp. cbn [wmsg m_class]. destruct (m_class w); discriminate.
Qed.

(* ================================================================== 16: a retransmission is the stored first transmission *)
Lemma lookup_update_some j id v : forall t x', lookup j (update_t id v t) = Some x' ->
  exists x, lookup j t = Some x /\ (x' = x \/ (j = id /\ x' = v)).
Proof.
  induction t as [|[k y] t IH]; intros x'; cbn [update_t lookup]; [discriminate|].
  destruct (N.eqb_spec k id) as [E|E]; cbn [lookup].
  - destruct (N.eqb_spec k j) as [E2|E2].
    + intros HE; inversion HE; subst. exists y. split; [reflexivity|right; auto].
    + intros HE. exists x'. auto.
  - destruct (k =? j).
    + intros HE; inversion HE; subst. exists x'. auto.
    + apply IH.
Qed.
Lemma lookup_remove_self id : forall t, lookup id (remove_t id t) = None.
Proof.
  unfold remove_t. induction t as [|[k y] t IH]; cbn [filter lookup fst]; [reflexivity|].
  destruct (N.eqb_spec k id) as [E|E]; cbn [negb lookup]; [exact IH|]. destruct (N.eqb_spec k id); [contradiction|exact IH].
Qed.
Lemma lookup_remove_some j id : forall t x, lookup j (remove_t id t) = Some x -> lookup j t = Some x.
Proof.
  induction t as [|[k y] t IH]; intros x; [discriminate|]. unfold remove_t. cbn [filter lookup fst]. fold (remove_t id t).
  destruct (N.eqb_spec k id) as [E|E]; cbn [negb lookup].
  - intros HE. destruct (N.eqb_spec k j) as [E2|E2]; [|apply IH; exact HE].
    exfalso. subst k j. rewrite lookup_remove_self in HE. discriminate.
  - destruct (k =? j); [auto|apply IH].
Qed.

(* every entry of the later table carries the packet it had in the earlier table *)
Definition pkt_from (t t':list (txid*txn)) : Prop :=
  forall j x', lookup j t' = Some x' -> exists x, lookup j t = Some x /\ pkt x' = pkt x.
(* what on_timeout may emit: a retransmission of the stored packet, never a first transmission *)
Definition tmo_ev (t:list (txid*txn)) (e:event) : Prop :=
  match e with Out j f p => f = false /\ exists x, lookup j t = Some x /\ pkt x = p | _ => True end.

Lemma tmo_one_pkt now t0 t h mk ev id :
  pkt_from t0 t -> (forall e, In e ev -> tmo_ev t0 e) ->
  let '(t', _, _, ev') := tmo_one now (t, h, mk, ev) id in pkt_from t0 t' /\ forall e, In e ev' -> tmo_ev t0 e.
Proof.
  intros Hfrom Hev. unfold tmo_one. destruct (lookup id t) as [x|] eqn:Hl; [|split; assumption].
  destruct (next_rto (tm x) now) as [[d|] m'].
  - destruct (Hfrom id x Hl) as (x0 & Hl0 & Hp0). split.
    + intros j x' Hj. apply lookup_update_some in Hj as (x1 & Hl1 & [->|[-> ->]]).
      * apply Hfrom. exact Hl1.
      * exists x0. split; [exact Hl0|exact Hp0].
    + intros e Hin. apply in_app_or in Hin as [Hin|[<-|[]]]; [apply Hev; exact Hin|].
      cbn [tmo_ev]. split; [reflexivity|]. exists x0. split; [exact Hl0|symmetry; exact Hp0].
  - split.
    + intros j x' Hj. apply lookup_remove_some in Hj. apply Hfrom. exact Hj.
    + intros e Hin. apply in_app_or in Hin as [Hin|[<-|[]]]; [apply Hev; exact Hin|exact I].
Qed.
Lemma tmo_fold_pkt now t0 : forall pending t h mk ev,
  pkt_from t0 t -> (forall e, In e ev -> tmo_ev t0 e) ->
  let '(t', _, _, ev') := fold_left (tmo_one now) pending (t, h, mk, ev) in pkt_from t0 t' /\ forall e, In e ev' -> tmo_ev t0 e.
Proof.
  induction pending as [|id pending IH]; intros t h mk ev Hfrom Hev; cbn [fold_left]; [split; assumption|].
  pose proof (tmo_one_pkt now t0 t h mk ev id Hfrom Hev) as H1.
  destruct (tmo_one now (t, h, mk, ev) id) as [[[t1 h1] mk1] ev1]. destruct H1 as [Hf1 He1]. apply IH; assumption.
Qed.
Lemma pkt_from_refl t : pkt_from t t.
Proof. intros j x Hj. exists x. auto. Qed.

(* 16, one step: retransmissions carry the stored packet; a stored packet never changes; a new entry is announced by its
   first transmission *)
Theorem retransmission_identical_step c o c' r evs :
  step c o = (c', r, evs) ->
  (forall j p, In (Out j false p) evs -> exists x, lookup j (T c) = Some x /\ pkt x = p)
  /\ (forall j x', lookup j (T c') = Some x' ->
        (exists x, lookup j (T c) = Some x /\ pkt x' = pkt x) \/ In (Out j true (pkt x')) evs).
Proof.
  intros Hs. destruct o as [now id rr method app room|id method app room|now d w|now].
  - destruct (step_send_cases c now id rr method app room) as [(rep & He & _)|(a & d & m1 & _ & _ & _ & He)];
      rewrite He in Hs; inversion Hs; subst; clear Hs.
    + split; [intros j p []|]. intros j x' Hj. left. exists x'. auto.
    + split.
      * intros j p [HE|Hin]; [discriminate|]. apply notif_ids in Hin as (e & _ & HE). discriminate.
      * intros j x'. unfold with_TH. cbn [T lookup]. destruct (N.eqb_spec id j) as [E|E].
        -- intros HE; inversion HE; subst. right. left. reflexivity.
        -- intros Hj. left. exists x'. auto.
  - destruct (step_indication_cases c id method app room) as [(rep & He)|(a & He)]; rewrite He in Hs; inversion Hs; subst; clear Hs.
    + split; [intros j p []|]. intros j x' Hj. left. exists x'. auto.
    + split; [intros j p [HE|[]]; discriminate|]. intros j x' Hj. left. exists x'. auto.
  - destruct (step_recv_cases c now d w) as [(rep & He & _)|[(mk & He & _)|[(_ & mech' & mk & He)|(_ & _ & mech' & mk & ev & He & Hev)]]];
      rewrite He in Hs; inversion Hs; subst; clear Hs.
    + split; [intros j p []|]. intros j x' Hj. left. exists x'. auto.
    + split; [intros j p []|]. intros j x' Hj. left. exists x'. auto.
    + split; [intros j p [HE|[]]; discriminate|]. intros j x' Hj. left. exists x'. auto.
    + split.
      * intros j p [HE|[]]. destruct Hev as [->|[->|(rs & ->)]]; discriminate.
      * intros j x'. unfold with_TH, with_mech. cbn [T]. intros Hj. apply lookup_remove_some in Hj. left. exists x'. auto.
  - cbn [step] in Hs.
    pose proof (tmo_fold_pkt now (T c) (map h_id (filter (fun e => h_exp e <=? now) (H c))) (T c)
                  (filter (fun e => negb (h_exp e <=? now)) (H c)) (markers c) [] (pkt_from_refl (T c))
                  (fun e (HF:In e []) => match HF with end)) as Hf.
    destruct (fold_left (tmo_one now) _ _) as [[[t' h'] mk'] ev]. destruct Hf as [Hfrom Hev]. inversion Hs; subst; clear Hs. split.
    + intros j p Hin. apply in_app_or in Hin as [Hin|Hin].
      * destruct (Hev _ Hin) as [_ Hx]. exact Hx.
      * apply notif_ids in Hin as (e & _ & HE). discriminate.
    + cbn [T]. intros j x' Hj. left. apply Hfrom. exact Hj.
Qed.

(* along a run: every retransmission is preceded by the first transmission of the same packet under the same id *)
Fixpoint retx_ok (seen evs:list event) : Prop :=
  match evs with
  | [] => True
  | e :: r => match e with Out j false p => In (Out j true p) seen | _ => True end /\ retx_ok (seen ++ [e]) r
  end.
Lemma retx_ok_all : forall evs seen,
  (forall j p, In (Out j false p) evs -> In (Out j true p) seen) -> retx_ok seen evs.
Proof.
  induction evs as [|e r IH]; intros seen Hall; cbn [retx_ok]; [exact I|]. split.
  - destruct e as [j f p| | | |]; try exact I. destruct f; [exact I|]. apply Hall. left. reflexivity.
  - apply IH. intros j p Hin. apply in_or_app. left. apply Hall. right. exact Hin.
Qed.
Lemma retx_ok_app : forall a seen b, retx_ok seen a -> retx_ok (seen ++ a) b -> retx_ok seen (a ++ b).
Proof.
  induction a as [|x a IH]; intros seen b Ha Hb; cbn [app retx_ok] in *.
  - rewrite app_nil_r in Hb. exact Hb.
  - destruct Ha as [Hx Ha]. split; [exact Hx|]. apply IH; [exact Ha|]. rewrite <- app_assoc. exact Hb.
Qed.
Lemma retx_ok_split : forall pre seen evs j p post,
  retx_ok seen evs -> evs = pre ++ Out j false p :: post -> In (Out j true p) (seen ++ pre).
Proof.
  induction pre as [|x pre IH]; intros seen evs j p post Hok ->; cbn [app retx_ok] in Hok.
  - rewrite app_nil_r. exact (proj1 Hok).
  - destruct Hok as [_ Hok]. pose proof (IH _ _ j p post Hok eq_refl) as Hin. rewrite <- app_assoc in Hin. exact Hin.
Qed.

Definition SentInv (c:client) (tr:list event) : Prop :=
  forall j x, lookup j (T c) = Some x -> In (Out j true (pkt x)) tr.

Lemma run_retx : forall ops c tr, SentInv c tr ->
  let '(c', evs) := run c ops in SentInv c' (tr ++ evs) /\ retx_ok tr evs.
Proof.
  induction ops as [|o r IH]; intros c tr Hinv; cbn [run].
  - rewrite app_nil_r. split; [exact Hinv|exact I].
  - destruct (step c o) as [[c1 rep] ev] eqn:Hs. destruct (retransmission_identical_step c o c1 rep ev Hs) as [HA HB].
    assert (Hinv1 : SentInv c1 (tr ++ ev)).
    { intros j x' Hj. destruct (HB j x' Hj) as [(x & Hl & Hp)|Hin]; apply in_or_app; [left|right; exact Hin].
      rewrite Hp. apply Hinv. exact Hl. }
    assert (Hok1 : retx_ok tr ev).
    { apply retx_ok_all. intros j p Hin. destruct (HA j p Hin) as (x & Hl & <-). apply Hinv. exact Hl. }
    pose proof (IH c1 (tr ++ ev) Hinv1) as Hr. destruct (run c1 r) as [c2 evs]. destruct Hr as [Hinv2 Hok2].
    split; [rewrite app_assoc; exact Hinv2|apply retx_ok_app; assumption].
Qed.

Theorem retransmission_identical c ops pre j p post :
  T c = [] -> snd (run c ops) = pre ++ Out j false p :: post -> In (Out j true p) pre.
Proof.
  intros HT Hev. assert (Hinv : SentInv c []) by (intros k x Hk; rewrite HT in Hk; discriminate).
  pose proof (run_retx ops c [] Hinv) as Hr. destruct (run c ops) as [c' evs]. destruct Hr as [_ Hok]. cbn [snd] in Hev.
  exact (retx_ok_split pre [] evs j p post Hok Hev).
Qed.
Corollary retransmission_identical_init cf m ops pre j p post :
  snd (run (init cf m) ops) = pre ++ Out j false p :: post -> In (Out j true p) pre.
Proof. apply retransmission_identical. reflexivity. Qed.

(* ================================================================== 12: credentials on the wire
   In this model the password occurs only inside the key descriptor of an `AMI` / `ASHA` attribute (by the type `attr`:
   no other constructor carries a `keyd`), so "the password never appears on the wire" has no content beyond the type.
   What can be stated: every integrity attribute the client sends is the mechanism's own, made with the configured
   credentials; whatever integrity attribute the application supplied is dropped. *)
Theorem st_prepare_integrity s x a :
  AInv x -> In a (flatten (st_prepare s x)) -> is_integ a = true -> In a (st_tail s) /\ mac_key a = KST 0.
Proof.
  intros (Ho & _ & _ & Hf) Hin Hi. rewrite st_prepare_flatten in Hin.
  apply in_app_or in Hin as [Hin|Hin]; [|apply in_app_or in Hin as [Hin|Hin]].
  - exfalso. apply in_rop in Hin as [->|Hin]; [discriminate|]. apply in_remove_first in Hin.
    destruct (Ho a Hin) as [HF _]. rewrite HF in Hi. discriminate.
  - split; [exact Hin|]. unfold st_tail in Hin. destruct (st_agreed s) as [[|]|]; cbn [In] in Hin;
      repeat (destruct Hin as [<-|Hin]; [reflexivity|]); destruct Hin.
  - exfalso. destruct (sl_fp x) as [b|]; cbn [opt_list In slot_ok] in *; [|destruct Hin]. destruct Hin as [->|[]].
    destruct a; try discriminate.
Qed.
Theorem lt_prepare_integrity s x p y a :
  AInv x -> types_nodup (ord x) = true -> lt_pr s = Some p -> lt_prepare s x = Some y ->
  In a (flatten y) -> is_integ a = true ->
  a = integ_attr p /\ (lt_st s = Retry438 \/ lt_st s = Subsequent).
Proof.
  intros Hx Hn Hp Hy Hin Hi. destruct (lt_prepare_layout s x p Hn Hp) as (y' & Hy' & Hfl).
  rewrite Hy in Hy'. injection Hy' as <-. rewrite Hfl in Hin.
  destruct (ainv_strip_lt x Hx) as (Ho & _). destruct Hx as (_ & _ & _ & Hf).
  apply in_app_or in Hin as [Hin|Hin]; [|apply in_app_or in Hin as [Hin|Hin]].
  - exfalso. destruct (Ho a Hin) as [HF _]. rewrite HF in Hi. discriminate.
  - assert (Hrn : In a (rn_list p) -> False).
    { unfold rn_list, user_attr. cbn [In]. intros [<-|[<-|[<-|[]]]]; [destruct (p_anon p)|..]; discriminate. }
    assert (Hal : In a (algs_list p) -> False).
    { unfold algs_list. destruct (p_algs p), (p_alg p); cbn [option_map opt_list app In];
        intros HF; repeat (destruct HF as [<-|HF]; [discriminate|]); destruct HF. }
    destruct (lt_st s); cbn [lt_creds] in Hin.
    + destruct Hin.
    + exfalso. apply in_app_or in Hin as [Hin|Hin]; auto.
    + apply in_app_or in Hin as [Hin|[<-|[]]]; [exfalso; auto|auto].
    + apply in_app_or in Hin as [Hin|Hin]; [exfalso; auto|].
      apply in_app_or in Hin as [Hin|[<-|[]]]; [exfalso; auto|auto].
  - exfalso. destruct (sl_fp x) as [b|]; cbn [opt_list In slot_ok] in *; [|destruct Hin]. destruct Hin as [->|[]].
    destruct a; try discriminate.
Qed.

(* ================================================================== the hypothesis of 9 is what a 401 / 438 establishes
   `sv_agrees`: the server monitor of Monitors.v (mon_C08) records realm, nonce, algorithm list and the anonymity bit of
   the challenge exactly as the client caches them. *)
Lemma get_realm_cons a r : get_realm (a :: r) = match a with Realm x => Some x | _ => get_realm r end.
Proof. destruct a; reflexivity. Qed.
Lemma get_algs_cons a r : get_algs (a :: r) = match a with PwdAlgs x => Some x | _ => get_algs r end.
Proof. destruct a; reflexivity. Qed.

Definition nonce_decodable (c:N) : bool := (1 <=? c) && (c <=? 4).
Lemma harvest1_first h a h' : harvest1 h a = Some h' ->
  h_realm h' = match h_realm h with Some r => Some r | None => match a with Realm r => Some r | _ => None end end
  /\ h_algs h' = match h_algs h with Some x => Some x | None => match a with PwdAlgs l => Some l | _ => None end end
  /\ h_bit_anon h' = match h_nonce h, a with
                     | None, Nonce n c => if nonce_decodable c then cookie_bit_anon c else h_bit_anon h
                     | _, _ => h_bit_anon h
                     end.
Proof.
  unfold harvest1, nonce_decodable, cookie_bit_anon. destruct a; intros HE;
    repeat match type of HE with context [match ?x with _ => _ end] => destruct x eqn:? end;
    try discriminate; injection HE as HE; subst h'; cbn [h_realm h_algs h_bit_anon h_nonce];
    repeat match goal with H : ?x = _ |- context [?x] => rewrite H end;
    repeat split; try reflexivity;
    repeat match goal with |- context [match ?x with _ => _ end] => destruct x end; reflexivity.
Qed.
Lemma harvest_all_first : forall l h h', harvest_all h l = Some h' ->
  h_realm h' = match h_realm h with Some r => Some r | None => get_realm l end
  /\ h_algs h' = match h_algs h with Some x => Some x | None => get_algs l end
  /\ h_bit_anon h' = match h_nonce h with
                     | Some _ => h_bit_anon h
                     | None => match get_nonce l with
                               | Some n => if nonce_decodable (snd n) then cookie_bit_anon (snd n) else h_bit_anon h
                               | None => h_bit_anon h
                               end
                     end.
Proof.
  induction l as [|a r IH]; intros h h'; cbn [harvest_all].
  - intros HE; inversion HE; subst. repeat split; [destruct (h_realm h')|destruct (h_algs h')|destruct (h_nonce h')]; reflexivity.
  - destruct (harvest1 h a) as [h1|] eqn:H1; [|discriminate]. intros HE.
    pose proof (harvest1_cn _ _ _ H1) as [_ Hn1]. apply harvest1_first in H1 as (Hr1 & Ha1 & Hb1).
    apply IH in HE as (Hr & Ha & Hb). rewrite Hr, Ha, Hb, Hr1, Ha1, Hb1, Hn1, get_realm_cons, get_algs_cons, get_nonce_cons.
    repeat split.
    + destruct (h_realm h); [reflexivity|destruct a; reflexivity].
    + destruct (h_algs h); [reflexivity|destruct a; reflexivity].
    + destruct (h_nonce h); [reflexivity|destruct a; reflexivity].
Qed.
Lemma undecodable_no_anon c : nonce_decodable c = false -> cookie_bit_anon c = false.
Proof.
  unfold nonce_decodable, cookie_bit_anon. intros Hd. apply andb_false_iff in Hd.
  apply orb_false_iff. split; apply N.eqb_neq; intros ->; destruct Hd as [Hd|Hd]; discriminate.
Qed.

(* the monitor's record of a 401 challenge whose protected attribute list is P *)
Definition sv_of_401 (P:list attr) (r:N) (n:N*N) : lt_mon :=
  {| lm_challenged := true; lm_realm := r; lm_nonce := n; lm_algs := get_algs P; lm_anon := cookie_bit_anon (snd n); lm_last := 1 |}.
Definition sv_of_438 (sv:lt_mon) (n:N*N) : lt_mon :=
  {| lm_challenged := lm_challenged sv; lm_realm := lm_realm sv; lm_nonce := n; lm_algs := lm_algs sv; lm_anon := lm_anon sv; lm_last := 2 |}.

Theorem lt_401_agrees rel mk s m mk' s' :
  m_class m = CError -> get_code (rfc_filter (m_attrs m)) = Some 401 ->
  lt_recv rel mk s m = (Some ERetry, mk', s') ->
  exists p r n, get_realm (rfc_filter (m_attrs m)) = Some r /\ get_nonce (rfc_filter (m_attrs m)) = Some n
                /\ s' = {| lt_st := Retry401; lt_pr := Some p |} /\ POk p
                /\ sv_agrees (sv_of_401 (rfc_filter (m_attrs m)) r n) p.
Proof.
  intros Hc Hcode. unfold lt_recv. rewrite Hc.
  destruct (lt_error rel mk s m) as [[[e0|] mk0] s0] eqn:He; intros HE; inversion HE; subst; clear HE.
  unfold lt_error in He.
  destruct (harvest_all harvest0 (rfc_filter (m_attrs m))) as [h|] eqn:Hh; [|discriminate].
  pose proof (harvest_all_hok _ _ _ hok0 Hh) as Hok.
  pose proof (harvest_all_cn _ _ _ Hh) as [Hhc Hhn]. apply harvest_all_first in Hh as (Hhr & Hha & Hhb).
  cbn [harvest0 h_code h_nonce h_realm h_algs h_bit_anon] in *. rewrite Hcode in Hhc.
  destruct (h_bit_algs h && _); [discriminate|]. rewrite Hhc in He.
  change (401 =? 401) with true in He. cbv iota in He.
  destruct (make_params h) as [p|] eqn:Hmk; [|discriminate].
  pose proof (make_params_ok h p Hok Hmk) as HP. unfold make_params in Hmk.
  rewrite Hhr, Hhn in Hmk.
  destruct (get_realm (rfc_filter (m_attrs m))) as [r|]; [|discriminate].
  destruct (get_nonce (rfc_filter (m_attrs m))) as [n|]; [|discriminate].
  injection Hmk as Hmk.
  assert (Hag : sv_agrees (sv_of_401 (rfc_filter (m_attrs m)) r n) p).
  { subst p. unfold sv_agrees, sv_of_401; cbn [lm_realm lm_nonce lm_algs lm_anon p_realm p_nonce p_algs p_anon].
    repeat split; [symmetry; exact Hha|]. rewrite Hhb.
    destruct (nonce_decodable (snd n)) eqn:Hd; [reflexivity|apply undecodable_no_anon; exact Hd]. }
  exists p, r, n. split; [reflexivity|]. split; [reflexivity|].
  destruct (has (h_mi h) || has (h_sha h)).
  - destruct (authenticate rel mk (p_key p) (p_integ p) m (h_mi h) (h_sha h)) as [[e1|] mk1] eqn:Ha; inversion He; subst.
    + unfold authenticate in Ha. apply compute_mi_err in Ha as [HF|HF]; discriminate.
    + auto.
  - inversion He; subst. auto.
Qed.
Theorem lt_438_agrees rel mk s m mk' s' p sv :
  m_class m = CError -> get_code (rfc_filter (m_attrs m)) = Some 438 -> lt_pr s = Some p -> POk p -> sv_agrees sv p ->
  lt_recv rel mk s m = (Some ERetry, mk', s') ->
  exists n p', get_nonce (rfc_filter (m_attrs m)) = Some n /\ s' = {| lt_st := Retry438; lt_pr := Some p' |}
               /\ POk p' /\ sv_agrees (sv_of_438 sv n) p'.
Proof.
  intros Hc Hcode Hp HP (Hr & Hn & Ha & Han) Hrecv.
  destruct (lt_438_switches_nonce rel mk s m mk' s' p Hc Hcode Hp Hrecv) as (n & Hgn & -> & _).
  exists n, (set_nonce p n). repeat split; try assumption; apply HP.
Qed.
(* acceptance keeps the parameters, so the agreement persists into the SubsequentRequest state *)
Theorem lt_accept_agrees rel mk s m mk' s' p sv :
  lt_pr s = Some p -> sv_agrees sv p -> lt_recv rel mk s m = (None, mk', s') ->
  lt_st s' = Subsequent /\ lt_pr s' = Some p.
Proof.
  intros Hp _ Hrecv. destruct (lt_accept_sound _ _ _ _ _ _ Hrecv) as (_ & Hst & Hpr & _). rewrite Hpr. auto.
Qed.

(* ================================================================== C13: the application's attributes are kept, in order
   `app_expected` (Monitors.v) is what the packet-layout monitor expects to find at the front of every first transmission:
   the application's attributes, one per type in first-insertion order, minus the types the mechanism owns. *)
Definition plainf (a:attr) : bool := negb (is_integ a || a_is_fp a).

Lemma filter_all {A} (f:A -> bool) : forall l, (forall x, In x l -> f x = true) -> filter f l = l.
Proof.
  induction l as [|y l IH]; intros Hl; cbn [filter]; [reflexivity|]. rewrite (Hl y (or_introl eq_refl)). f_equal.
  apply IH. intros x Hx. apply Hl. right. exact Hx.
Qed.
Lemma filter_none {A} (f:A -> bool) : forall l, (forall x, In x l -> f x = false) -> filter f l = [].
Proof.
  induction l as [|y l IH]; intros Hl; cbn [filter]; [reflexivity|]. rewrite (Hl y (or_introl eq_refl)).
  apply IH. intros x Hx. apply Hl. right. exact Hx.
Qed.
Lemma filter_filter {A} (f g:A -> bool) : forall l, filter f (filter g l) = filter (fun x => g x && f x) l.
Proof.
  induction l as [|y l IH]; cbn [filter]; [reflexivity|]. destruct (g y); cbn [filter andb]; [destruct (f y)|]; rewrite IH; reflexivity.
Qed.

Lemma slots_not_plain x a : AInv x -> In a (opt_list (sl_mi x) ++ opt_list (sl_sha x) ++ opt_list (sl_fp x)) -> plainf a = false.
Proof.
  intros (_ & Hm & Hs & Hf) Hin. unfold plainf, is_integ.
  apply in_app_or in Hin as [Hin|Hin]; [|apply in_app_or in Hin as [Hin|Hin]].
  - destruct (sl_mi x) as [b|]; cbn [opt_list In slot_ok] in *; [|destruct Hin]. destruct Hin as [->|[]]. rewrite Hm. reflexivity.
  - destruct (sl_sha x) as [b|]; cbn [opt_list In slot_ok] in *; [|destruct Hin]. destruct Hin as [->|[]]. rewrite Hs.
    rewrite orb_true_r. reflexivity.
  - destruct (sl_fp x) as [b|]; cbn [opt_list In slot_ok] in *; [|destruct Hin]. destruct Hin as [->|[]]. rewrite Hf.
    rewrite orb_true_r. reflexivity.
Qed.
Lemma ord_plainf x a : AInv x -> In a (ord x) -> plainf a = true.
Proof. intros (Ho & _) Hin. destruct (Ho a Hin) as [Hi Hf]. unfold plainf. rewrite Hi, Hf. reflexivity. Qed.

(* what the monitor compares: the sent attributes without the integrity / fingerprint tail are the ordinary list *)
Lemma filter_plain_flatten x : AInv x -> filter plainf (flatten x) = ord x.
Proof.
  intros Hx. unfold flatten. rewrite filter_app. rewrite (filter_all plainf (ord x)) by (intros a Ha; eapply ord_plainf; eassumption).
  rewrite (filter_none plainf (opt_list (sl_mi x) ++ _)) by (intros a Ha; eapply slots_not_plain; eassumption).
  apply app_nil_r.
Qed.

Lemma app_expected_ord k fp app : app_wf app ->
  app_expected k fp app = filter (fun x => negb (memN (wire_type x) (cred_types k))) (ord (of_list app)).
Proof.
  intros Hw. pose proof (ainv_of_list app) as Ha. destruct (oinv_of_list app Hw) as (_ & _ & _ & H3).
  unfold app_expected, flatten. rewrite filter_app. rewrite (filter_none _ (opt_list (sl_mi (of_list app)) ++ _)).
  - rewrite app_nil_r. apply filter_ext_in. intros x Hx.
    pose proof (ord_plainf _ _ Ha Hx) as Hp. unfold plainf in Hp. apply negb_true_iff, orb_false_iff in Hp as [Hi Hf].
    pose proof (has_ty_false_in 32808 _ x H3 Hx) as Hn. apply N.eqb_neq in Hn.
    rewrite Hi, Hf, Hn, andb_false_r. cbn [negb]. rewrite !andb_true_r. reflexivity.
  - intros x Hx. pose proof (slots_not_plain _ _ Ha Hx) as Hp. unfold plainf in Hp. apply negb_false_iff, orb_true_iff in Hp as [Hi|Hf].
    + rewrite Hi. cbn [negb]. rewrite andb_false_r. reflexivity.
    + rewrite Hf. cbn [negb]. apply andb_false_r.
Qed.

Lemma filter_absent t : forall l, has_ty t l = false -> filter (fun x => negb (wire_type x =? t)) l = l.
Proof.
  intros l Hh. apply filter_all. intros x Hx. apply negb_true_iff, N.eqb_neq. exact (has_ty_false_in t l x Hh Hx).
Qed.
(* with one attribute per type, removing the first of a type removes the type *)
Lemma rf_filter t : forall l, types_nodup l = true -> remove_first t l = filter (fun x => negb (wire_type x =? t)) l.
Proof.
  induction l as [|y r IH]; cbn [remove_first types_nodup filter]; [reflexivity|]. intros Hn. apply andb_true_iff in Hn as [Hy Hr].
  destruct (N.eqb_spec (wire_type y) t) as [E|E]; cbn [negb].
  - subst t. apply negb_true_iff in Hy. symmetry. apply filter_absent. exact Hy.
  - f_equal. apply IH. exact Hr.
Qed.

Lemma attr_eqb_refl a : attr_eqb a a = true.
Proof.
  destruct a; cbn [attr_eqb]; rewrite ?N.eqb_refl, ?algs_eqb_refl, ?alg_eqb_refl; try reflexivity.
  - destruct k as [|pw|r pw al]; cbn [keyd_same keyd_eqb]; rewrite ?N.eqb_refl, ?alg_eqb_refl; reflexivity.
  - destruct k as [|pw|r pw al]; cbn [keyd_same keyd_eqb]; rewrite ?N.eqb_refl, ?alg_eqb_refl; reflexivity.
  - destruct good; reflexivity.
Qed.
Lemma is_prefix_app : forall l r, is_prefix l (l ++ r) attr_eqb = true.
Proof. induction l as [|y l IH]; intros r; cbn [app is_prefix]; [reflexivity|]. rewrite attr_eqb_refl, IH. reflexivity. Qed.

Definition mech_code_ok (m:mech) (k:N) : Prop :=
  match m with MNone => k = 0 | MST _ => k = 1 \/ k = 2 \/ k = 3 | MLT _ => k = 4 end.

Theorem prepare_app_prefix c is_request app x k :
  app_wf app -> mech_code_ok (mech_ c) k -> prepare c is_request app = inl (Some x) ->
  is_prefix (app_expected k (use_fp (cfg c)) app) (filter (fun a => negb (is_integ a || a_is_fp a)) (flatten x)) attr_eqb = true.
Proof.
  intros Hw Hk Hp. fold plainf. rewrite (filter_plain_flatten x (prepare_ainv _ _ _ _ Hp)).
  rewrite (app_expected_ord k _ app Hw). pose proof (of_list_types_nodup app) as Hn.
  destruct (oinv_of_list app Hw) as (_ & H8 & H28 & _).
  assert (Hfp : forall y, @inl (option attrs) reply (Some (if use_fp (cfg c) then add_attr (AFP true) y else y)) = inl (Some x) ->
                          ord x = ord y)
    by (intros y HE; injection HE as <-; destruct (use_fp (cfg c)); reflexivity).
  pose proof (prepare_ainv _ _ _ _ Hp) as Hx. unfold prepare in Hp.
  destruct (mech_ c) as [|s|s] eqn:Hm; cbn [mech_code_ok] in Hk.
  - (* no mechanism: everything is kept *)
    subst k. rewrite (Hfp _ Hp).
    cbn [cred_types N.eqb memN existsb negb]. rewrite filter_all by reflexivity.
    rewrite <- (app_nil_r (ord (of_list app))) at 2. apply is_prefix_app.
  - (* short term: USERNAME is replaced *)
    assert (Hc : cred_types k = [6; 8; 28]) by (destruct Hk as [->|[->| ->]]; reflexivity). rewrite Hc.
    rewrite (Hfp _ Hp).
    assert (Ho : ord (st_prepare s (of_list app)) = replace_or_push (UserName 0) (remove_first 6 (ord (of_list app))))
      by (unfold st_prepare; destruct (st_agreed s) as [[|]|]; reflexivity).
    rewrite Ho. rewrite rop_fresh by (apply rf_gone; exact Hn). rewrite (rf_filter 6) by exact Hn.
    rewrite (filter_ext_in (fun x => negb (memN (wire_type x) [6; 8; 28])) (fun x => negb (wire_type x =? 6))); [apply is_prefix_app|].
    intros a Ha. cbn [memN existsb].
    pose proof (has_ty_false_in 8 _ a H8 Ha) as N8. pose proof (has_ty_false_in 28 _ a H28 Ha) as N28.
    apply N.eqb_neq in N8, N28. rewrite N8, N28, !orb_false_r. reflexivity.
  - (* long term: the eight credential types are removed *)
    subst k. destruct is_request; [|discriminate].
    change (cred_types 4) with [6; 30; 20; 21; 29; 32770; 8; 28].
    assert (HA : filter (fun x => negb (memN (wire_type x) [6; 30; 20; 21; 29; 32770; 8; 28])) (ord (of_list app))
                 = ord (strip_lt (of_list app))).
    { rewrite strip_lt_ord.
      rewrite (rf_filter 32770) by (repeat apply rf_nodup; exact Hn). rewrite (rf_filter 29) by (repeat apply rf_nodup; exact Hn).
      rewrite (rf_filter 21) by (repeat apply rf_nodup; exact Hn). rewrite (rf_filter 20) by (repeat apply rf_nodup; exact Hn).
      rewrite (rf_filter 30) by (repeat apply rf_nodup; exact Hn). rewrite (rf_filter 6) by exact Hn.
      rewrite !filter_filter. apply filter_ext_in. intros a Ha. cbn [memN existsb].
      pose proof (has_ty_false_in 8 _ a H8 Ha) as N8. pose proof (has_ty_false_in 28 _ a H28 Ha) as N28.
      apply N.eqb_neq in N8, N28. rewrite N8, N28.
      destruct (wire_type a =? 6), (wire_type a =? 30), (wire_type a =? 20), (wire_type a =? 21), (wire_type a =? 29),
        (wire_type a =? 32770); reflexivity. }
    rewrite HA. destruct (lt_prepare s (of_list app)) as [y|] eqn:Hy; [|discriminate].
    rewrite (Hfp _ Hp).
    pose proof (ainv_lt_prepare _ _ _ (ainv_of_list app) Hy) as Hay. rewrite <- (filter_plain_flatten y Hay).
    destruct (lt_pr s) as [p|] eqn:Hpr.
    + destruct (lt_prepare_layout s (of_list app) p Hn Hpr) as (y' & Hy' & Hfl). rewrite Hy in Hy'. injection Hy' as <-.
      rewrite Hfl, filter_app. rewrite (filter_all plainf (ord (strip_lt (of_list app)))).
      * apply is_prefix_app.
      * intros a Ha. eapply ord_plainf; [apply ainv_strip_lt, ainv_of_list|exact Ha].
    + (* no parameters: only the first request can be formed *)
      unfold lt_prepare in Hy. rewrite Hpr in Hy. destruct (lt_st s); try discriminate. injection Hy as <-.
      rewrite (filter_plain_flatten _ (ainv_strip_lt _ (ainv_of_list app))).
      rewrite <- (app_nil_r (ord (strip_lt (of_list app)))) at 2. apply is_prefix_app.
Qed.
(* the hypothesis on `App` is needed here too: the client sends the junk attribute, the monitor does not expect it *)
Example prepare_app_prefix_needs_wf :
  let c := init {| reliable := false; cf_rm := 16; cf_rc := 7; limit := 10; use_fp := false |} (MST {| st_agreed := None |}) in
  match prepare c true [App 8 0; App 7 0] with
  | inl (Some x) => is_prefix (app_expected 1 false [App 8 0; App 7 0]) (filter (fun a => negb (is_integ a || a_is_fp a)) (flatten x)) attr_eqb
  | _ => true end = false.
Proof. vm_compute. reflexivity. Qed.

(* ================================================================== 8 on the client: the cached parameters are well formed along every run *)
Corollary lt_params_stored_ok rel mk s m e mk' s' p :
  PInv s -> lt_recv rel mk s m = (e, mk', s') -> lt_pr s' = Some p -> POk p.
Proof. intros HP Hr Hp. pose proof (lt_params_ok _ _ _ _ _ _ _ HP Hr) as HP'. unfold PInv in HP'. rewrite Hp in HP'. exact HP'. Qed.

Definition CPInv (c:client) : Prop := match mech_ c with MLT s => PInv s | _ => True end.

Lemma recv_tail_mech c m e mk mech' : mech_ (fst (fst (recv_tail c m (e, mk, mech')))) = mech'.
Proof. unfold recv_tail. destruct e as [[| | |]|]; try destruct (class_eqb (m_class m) CIndication); reflexivity. Qed.

Theorem client_pinv_step c o : CPInv c -> CPInv (fst (fst (step c o))).
Proof.
  intros HP. destruct o as [now id rr method app room|id method app room|now d w|now].
  - destruct (step_send_cases c now id rr method app room) as [(rep & -> & _)|(a & d & m1 & _ & _ & _ & ->)]; exact HP.
  - rewrite indication_state. exact HP.
  - destruct d; [|exact HP]. rewrite step_recv_eq. cbv zeta.
    destruct (class_eqb (m_class (wmsg w)) CRequest); [exact HP|].
    destruct (is_response (wmsg w) && _); [exact HP|].
    destruct (use_fp (cfg c) && match find a_is_fp (m_attrs (wmsg w)) with None => true | Some _ => false end); [exact HP|].
    destruct (use_fp (cfg c) && _); [exact HP|].
    destruct (mech_step (reliable (cfg c)) (markers c) (mech_ c) (wmsg w)) as [[e mk] mech'] eqn:Hm.
    unfold CPInv. rewrite recv_tail_mech. unfold mech_step in Hm. unfold CPInv in HP. destruct (mech_ c) as [|s|s].
    + injection Hm as <- <- <-. exact I.
    + destruct (st_recv (reliable (cfg c)) (markers c) s (wmsg w)) as [[e0 mk0] s0]. injection Hm as <- <- <-. exact I.
    + destruct (lt_recv (reliable (cfg c)) (markers c) s (wmsg w)) as [[e0 mk0] s0] eqn:Hr. injection Hm as <- <- <-.
      eapply lt_params_ok; eassumption.
  - cbn [step]. destruct (fold_left (tmo_one now) _ _) as [[[t' h'] mk'] ev]. exact HP.
Qed.
Theorem client_pinv_run : forall ops c, CPInv c -> CPInv (fst (run c ops)).
Proof.
  induction ops as [|o r IH]; intros c HP; cbn [run]; [exact HP|].
  pose proof (client_pinv_step c o HP) as H1. destruct (step c o) as [[c1 rep] ev]. cbn [fst] in H1.
  specialize (IH c1 H1). destruct (run c1 r) as [c2 evs]. exact IH.
Qed.
Corollary client_params_ok cf ops s p :
  mech_ (fst (run (init cf (MLT {| lt_st := First; lt_pr := None |})) ops)) = MLT s -> lt_pr s = Some p -> POk p.
Proof.
  intros Hm Hp. pose proof (client_pinv_run ops (init cf (MLT {| lt_st := First; lt_pr := None |})) I) as HP.
  unfold CPInv in HP. rewrite Hm in HP. unfold PInv in HP. rewrite Hp in HP. exact HP.
Qed.

(* ================================================================== audit *)
Print Assumptions flatten_tail_ok.
Print Assumptions prepare_tail_ok.
Print Assumptions of_list_types_nodup.
Print Assumptions flatten_types_nodup.
Print Assumptions prepare_types_nodup.
Print Assumptions fingerprint_last.
Print Assumptions lt_first_request_bare.
Print Assumptions strip_lt_cred_free.
Print Assumptions lt_first_request_bare_client.
Print Assumptions st_accept_sound.
Print Assumptions st_accept_sound_nonrequest.
Print Assumptions lt_accept_sound.
Print Assumptions lt_indication_refused.
Print Assumptions lt_request_refused.
Print Assumptions lt_send_indication_ignored.
Print Assumptions st_prepare_layout.
Print Assumptions st_prepare_layout_client.
Print Assumptions lt_params_ok.
Print Assumptions lt_params_ok_run.
Print Assumptions lt_prepare_layout.
Print Assumptions lt_client_layout.
Print Assumptions lt_subsequent_accepted.
Print Assumptions lt_retry401_verdict.
Print Assumptions lt_retry438_verdict.
Print Assumptions lt_client_verdicts.
Print Assumptions st_no_both_in_response.
Print Assumptions st_learning.
Print Assumptions st_reject_reliable.
Print Assumptions st_reject_unreliable.
Print Assumptions st_reject_indication.
Print Assumptions st_accept_complete.
Print Assumptions lt_438_switches_nonce.
Print Assumptions client_received_st.
Print Assumptions client_received_lt.
Print Assumptions client_lt_no_indication.
Print Assumptions retransmission_identical_step.
Print Assumptions retransmission_identical.
Print Assumptions retransmission_identical_init.
Print Assumptions st_prepare_integrity.
Print Assumptions lt_prepare_integrity.
Print Assumptions lt_401_agrees.
Print Assumptions lt_438_agrees.
Print Assumptions lt_accept_agrees.
Print Assumptions prepare_app_prefix.
Print Assumptions lt_params_stored_ok.
Print Assumptions client_pinv_step.
Print Assumptions client_pinv_run.
Print Assumptions client_params_ok.
