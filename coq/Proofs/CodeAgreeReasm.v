(* Agreement of the stream reassembler GENERATED from /repo's current stun-agent/src/lib.rs (Generated/Code.v:
   StunPacketDecoder::new / StunPacketDecoder::decode, StunPacket::new, with MessageHeader::try_from of raw.rs; translated by
   tools/rs2v.py: every slice, copy_from_slice, checked subtraction and usize addition is an explicit GPanic branch) with the
   hand-written models the C16 / C03 theorems are about: Agent/Reasm.v (feed) and Agent/ReasmRs.v (slices_ok, feed_rs, new_rs).

   Rep g d            the generated decoder state g (caller's buffer, current_size, expected_size) represents the model state d
                      (buffer length, bytes accumulated so far = the first current_size bytes of the buffer, expected size)
   code_ok g L        the EXACT condition under which the translated decode does not panic on a chunk of L bytes
   gen_decode_agrees  under code_ok: decode g data = GOk r and r is, constructor for constructor and field for field, the
                      model's outcome feed d data (Corr), with the new state again represented (so the statement iterates)
   gen_decode_panics  code_ok false: decode g data = GPanic
   slices_ok_code_ok  the model's panic guard slices_ok implies code_ok for every chunk length; the converse is FALSE (the model's
                      guard is coarser, see the slices_ok_coarser examples): the model calls a state with expected_size > len buffer (or a
                      buffer shorter than a header) a panic for every chunk, the code panics only once a chunk reaches the
                      missing room.  Such states are not reachable from new (DInv excludes them).
   Hypotheses, stated explicitly: elements of buffer and data are bytes (header bits), len buffer + len data < 2^64 (usize
   additions; Rust guarantees len < 2^63 of every slice). *)
From Coq Require Import List NArith ZArith Lia Bool Arith.
Import ListNotations.
From Rustun Require Import Base.GRes Base.Tlv Generated.Constants Generated.Code Codec.Wire
                           Agent.Reasm Agent.ReasmDrive Agent.ReasmRs Proofs.ReasmRsProofs.
From Rustun Require Proofs.CodeAgreeRaw.
Open Scope N_scope.
Arguments N.add : simpl never. Arguments N.sub : simpl never. Arguments N.mul : simpl never.
Arguments N.eqb : simpl never. Arguments N.ltb : simpl never. Arguments N.leb : simpl never.

Definition usize_lim : N := 18446744073709551616.   (* 2^64 *)

(* ---- the abstraction relation *)
Definition Rep (g:StunPacketDecoder) (d:dec) : Prop :=
  bufsz d = len (StunPacketDecoder_buffer g)
  /\ acc d = take (StunPacketDecoder_current_size g) (StunPacketDecoder_buffer g)
  /\ expd d = StunPacketDecoder_expected_size g
  /\ StunPacketDecoder_current_size g <= len (StunPacketDecoder_buffer g).

(* the decoder state a model state stands for, given the buffer contents beyond the accumulated bytes *)
Definition conc (d:dec) (tail:bytes) : StunPacketDecoder :=
  {| StunPacketDecoder_buffer := acc d ++ tail; StunPacketDecoder_current_size := len (acc d);
     StunPacketDecoder_expected_size := expd d |}.

(* result correspondence: generated Result<StunPacketDecodedValue, StunPacketDecodedError> vs the model's outcome.
   B = length of the caller's buffer (every returned buffer has that length) *)
Definition Corr (B:N) (r:gresult StunPacketDecodedValue StunPacketDecodedError) (o:outcome) : Prop :=
  match o with
  | Decoded p c =>
      exists b', r = ROk (StunPacketDecodedValue_Decoded ({| StunPacketInternal_buffer := b'; StunPacketInternal_size := len p |}, c))
                 /\ take (len p) b' = p /\ len b' = B /\ bytes_ok b' = true
  | More d' m =>
      exists g', r = ROk (StunPacketDecodedValue_MoreBytesNeeded (g', m))
                 /\ Rep g' d' /\ bufsz d' = B /\ bytes_ok (StunPacketDecoder_buffer g') = true
  | EInvalid c =>
      exists b', r = RErr {| StunPacketDecodedError_error_type := 1; StunPacketDecodedError_buffer := b';
                             StunPacketDecodedError_size := 20; StunPacketDecodedError_consumed := c |} /\ len b' = B
  | ESmall c =>
      exists b', r = RErr {| StunPacketDecodedError_error_type := 0; StunPacketDecodedError_buffer := b';
                             StunPacketDecodedError_size := 20; StunPacketDecodedError_consumed := c |} /\ len b' = B
  end.

(* the exact no-panic condition of the translated decode for a chunk of L bytes *)
Definition code_ok (g:StunPacketDecoder) (L:N) : bool :=
  let B := len (StunPacketDecoder_buffer g) in
  let cs := StunPacketDecoder_current_size g in
  match StunPacketDecoder_expected_size g with
  | Some size => (cs <=? size) && (if size - cs <=? L then size <=? B else cs + L <=? B)
  | None => if 20 <=? cs + L then (cs <=? 20) && (20 <=? B) else cs + L <=? B
  end.

(* the three definitions above, restated as equivalences so that Props/C16.v can show them in full *)
Lemma Rep_unfold g d : Rep g d <->
  (bufsz d = len (StunPacketDecoder_buffer g)
   /\ acc d = take (StunPacketDecoder_current_size g) (StunPacketDecoder_buffer g)
   /\ expd d = StunPacketDecoder_expected_size g
   /\ StunPacketDecoder_current_size g <= len (StunPacketDecoder_buffer g)).
Proof. apply iff_refl. Qed.
Lemma Corr_unfold B r o : Corr B r o <->
  match o with
  | Decoded p c =>
      exists b', r = ROk (StunPacketDecodedValue_Decoded ({| StunPacketInternal_buffer := b'; StunPacketInternal_size := len p |}, c))
                 /\ take (len p) b' = p /\ len b' = B /\ bytes_ok b' = true
  | More d' m =>
      exists g', r = ROk (StunPacketDecodedValue_MoreBytesNeeded (g', m))
                 /\ Rep g' d' /\ bufsz d' = B /\ bytes_ok (StunPacketDecoder_buffer g') = true
  | EInvalid c =>
      exists b', r = RErr {| StunPacketDecodedError_error_type := 1; StunPacketDecodedError_buffer := b';
                             StunPacketDecodedError_size := 20; StunPacketDecodedError_consumed := c |} /\ len b' = B
  | ESmall c =>
      exists b', r = RErr {| StunPacketDecodedError_error_type := 0; StunPacketDecodedError_buffer := b';
                             StunPacketDecodedError_size := 20; StunPacketDecodedError_consumed := c |} /\ len b' = B
  end.
Proof. apply iff_refl. Qed.
Lemma code_ok_unfold g L : code_ok g L =
  match StunPacketDecoder_expected_size g with
  | Some size => (StunPacketDecoder_current_size g <=? size)
                 && (if size - StunPacketDecoder_current_size g <=? L then size <=? len (StunPacketDecoder_buffer g)
                     else StunPacketDecoder_current_size g + L <=? len (StunPacketDecoder_buffer g))
  | None => if 20 <=? StunPacketDecoder_current_size g + L
            then (StunPacketDecoder_current_size g <=? 20) && (20 <=? len (StunPacketDecoder_buffer g))
            else StunPacketDecoder_current_size g + L <=? len (StunPacketDecoder_buffer g)
  end.
Proof. reflexivity. Qed.

(* ---- lists *)
Lemma len_take_min n (l:bytes) : len (take n l) = N.min n (len l).
Proof. unfold len, take. rewrite firstn_length. lia. Qed.
Lemma len_take_le n (l:bytes) : n <= len l -> len (take n l) = n.
Proof. intros H. rewrite len_take_min. lia. Qed.
Lemma bytes_ok_app a b : bytes_ok (a ++ b) = bytes_ok a && bytes_ok b.
Proof. unfold bytes_ok. apply forallb_app. Qed.
Lemma bytes_ok_firstn n (l:bytes) : bytes_ok l = true -> bytes_ok (firstn n l) = true.
Proof.
  unfold bytes_ok. intros H. rewrite forallb_forall in *. intros x Hx. apply H.
  rewrite <- (firstn_skipn n l). apply in_or_app. left. exact Hx.
Qed.
Lemma bytes_ok_skipn n (l:bytes) : bytes_ok l = true -> bytes_ok (skipn n l) = true.
Proof.
  unfold bytes_ok. intros H. rewrite forallb_forall in *. intros x Hx. apply H.
  rewrite <- (firstn_skipn n l). apply in_or_app. right. exact Hx.
Qed.
Lemma firstn_app_exact (a b:bytes) : firstn (length a) (a ++ b) = a.
Proof. rewrite firstn_app, Nat.sub_diag, firstn_all. cbn [firstn]. apply app_nil_r. Qed.

(* dst[a .. a + len src].copy_from_slice(src) *)
Lemma splice_len dst a src : a + len src <= len dst -> len (list_splice dst a src) = len dst.
Proof.
  unfold list_splice, len. intros H. rewrite !app_length, firstn_length, skipn_length. lia.
Qed.
Lemma splice_take dst a src n : a <= len dst -> n = a + len src -> take n (list_splice dst a src) = take a dst ++ src.
Proof.
  unfold list_splice, len, take. intros H ->.
  assert (E : N.to_nat (a + N.of_nat (length src)) = (length (firstn (N.to_nat a) dst ++ src))%nat)
    by (rewrite app_length, firstn_length; lia).
  rewrite E, app_assoc. apply firstn_app_exact.
Qed.
Lemma splice_bytes_ok dst a src : bytes_ok dst = true -> bytes_ok src = true -> bytes_ok (list_splice dst a src) = true.
Proof.
  intros Hd Hs. unfold list_splice. rewrite !bytes_ok_app, Hs, bytes_ok_firstn, bytes_ok_skipn by exact Hd. reflexivity.
Qed.
Lemma bytes_ok_take n l : bytes_ok l = true -> bytes_ok (take n l) = true.
Proof. apply bytes_ok_firstn. Qed.
Lemma bytes_ok_drop n l : bytes_ok l = true -> bytes_ok (drop n l) = true.
Proof. apply bytes_ok_skipn. Qed.

(* ---- the header gate: the model of the reassembler (hdr_ok, msg_len over the 20 collected bytes) is the codec model's
   (Wire.hdr_valid, Wire.msg_length), which Proofs/CodeAgreeRaw.v proves equal to the translated MessageHeader::decode *)
Lemma hdr_valid_is_hdr_ok h : 20 <= len h -> hdr_valid h = hdr_ok h.
Proof.
  intros H. destruct h as [|a0 [|a1 [|l1 [|l2 [|c0 [|c1 [|c2 [|c3 r]]]]]]]]; try reflexivity.
  cbn [hdr_valid hdr_ok]. rewrite !CodeAgreeRaw.len_cons in H.
  assert ((12 <=? len r) = true) as -> by (apply N.leb_le; lia). apply andb_true_r.
Qed.
Lemma msg_length_is_msg_len h : msg_length h = msg_len h.
Proof. reflexivity. Qed.

Lemma gen_try_from_agrees h : bytes_ok h = true -> 20 <= len h ->
  gen_MessageHeader_try_from h = GOk (if hdr_ok h then Some (CodeAgreeRaw.hdr_of h) else None).
Proof.
  intros Hok H. unfold gen_MessageHeader_try_from. rewrite CodeAgreeRaw.gen_header_agrees by exact Hok.
  rewrite hdr_valid_is_hdr_ok by exact H. destruct (hdr_ok h); reflexivity.
Qed.

(* ---- 1. StunPacketDecoder::new *)
Definition new_err (buf:bytes) : StunPacketDecodedError :=
  {| StunPacketDecodedError_error_type := 0; StunPacketDecodedError_buffer := buf;
     StunPacketDecodedError_size := 0; StunPacketDecodedError_consumed := 0 |}.
Definition new_dec (buf:bytes) : StunPacketDecoder :=
  {| StunPacketDecoder_buffer := buf; StunPacketDecoder_current_size := 0; StunPacketDecoder_expected_size := None |}.

Theorem gen_new_agrees : forall buf,
  gen_StunPacketDecoder_new buf
  = match new_rs (len buf) with None => RErr (new_err buf) | Some _ => ROk (new_dec buf) end
  /\ (new_rs (len buf) = None <-> len buf < 20)
  /\ (forall d, new_rs (len buf) = Some d -> d = fresh (len buf) /\ Rep (new_dec buf) d /\ DInv d /\ slices_ok d = true).
Proof.
  intros buf. unfold gen_StunPacketDecoder_new, new_rs. destruct (N.ltb_spec (len buf) 20) as [H|H].
  - split; [reflexivity|]. split; [tauto|]. discriminate.
  - split; [reflexivity|]. split; [split; [discriminate|lia]|].
    intros d E. injection E as <-. split; [reflexivity|]. split.
    + unfold Rep, new_dec, fresh. cbn [bufsz acc expd StunPacketDecoder_buffer StunPacketDecoder_current_size StunPacketDecoder_expected_size].
      repeat split. lia.
    + split; [apply DInv_fresh|]. apply slices_ok_inv; [apply DInv_fresh|exact H].
Qed.

(* ---- 2. StunPacketDecoder::decode *)
Ltac guard_true :=
  match goal with
  | |- context [if negb ?c then GPanic else _] =>
      let G := fresh "G" in
      assert (G : c = true)
        by (timeout 30 (repeat (apply andb_true_intro; split);
            first [reflexivity | apply N.leb_le; lia | apply N.ltb_lt; lia | apply N.eqb_eq; lia]));
      rewrite G; clear G; cbn [negb]
  end.

Theorem gen_decode_agrees : forall g d data,
  Rep g d -> bytes_ok (StunPacketDecoder_buffer g) = true -> bytes_ok data = true ->
  len (StunPacketDecoder_buffer g) + len data < usize_lim ->
  code_ok g (len data) = true ->
  exists r, gen_StunPacketDecoder_decode g data = GOk r /\ Corr (len (StunPacketDecoder_buffer g)) r (feed d data).
Proof.
  intros [buf cs es] [B ac e] data (HB & Hacc & He & Hcs) Hbuf Hdata Hov Hok.
  cbn [bufsz acc expd StunPacketDecoder_buffer StunPacketDecoder_current_size StunPacketDecoder_expected_size] in *.
  subst B ac e. unfold usize_lim in Hov. unfold code_ok in Hok.
  cbn [StunPacketDecoder_buffer StunPacketDecoder_current_size StunPacketDecoder_expected_size] in Hok.
  unfold gen_StunPacketDecoder_decode, feed, gen_StunPacket_new.
  cbn [bufsz acc expd StunPacketDecoder_buffer StunPacketDecoder_current_size StunPacketDecoder_expected_size].
  assert (Hla : len (take cs buf) = cs) by (apply len_take_le; exact Hcs).
  rewrite Hla. cbv zeta.
  destruct es as [size|].
  - (* the size is known *)
    apply andb_prop in Hok as [H1 H2]. apply N.leb_le in H1.
    repeat guard_true.
    destruct (N.leb_spec (size - cs) (len data)) as [Hr|Hr].
    + apply N.leb_le in H2.
      assert (Ht : len (take (size - cs) data) = size - cs) by (apply len_take_le; exact Hr).
      rewrite Ht. repeat guard_true.
      eexists. split; [reflexivity|]. cbn [Corr].
      assert (Hlp : len (take cs buf ++ take (size - cs) data) = size) by (rewrite len_app, Hla, Ht; lia).
      exists (list_splice buf cs (take (size - cs) data)). rewrite Hlp.
      split; [reflexivity|]. split; [apply splice_take; [exact Hcs|rewrite Ht; lia]|].
      split; [apply splice_len; rewrite Ht; lia|]. apply splice_bytes_ok; [exact Hbuf|apply bytes_ok_take; exact Hdata].
    + apply N.leb_le in H2.
      assert (Ht : take (len data) data = data) by (apply take_all; lia).
      rewrite Ht. repeat guard_true.
      eexists. split; [reflexivity|]. cbn [Corr].
      eexists. split; [reflexivity|]. unfold Rep.
      cbn [bufsz acc expd StunPacketDecoder_buffer StunPacketDecoder_current_size StunPacketDecoder_expected_size].
      rewrite splice_len by lia. rewrite (splice_take buf cs data (cs + len data) Hcs eq_refl).
      repeat split; try lia. apply splice_bytes_ok; assumption.
  - (* the header is not complete yet *)
    repeat guard_true.
    destruct (N.leb_spec 20 (cs + len data)) as [Hh|Hh].
    + apply andb_prop in Hok as [K1 K2]. apply N.leb_le in K1, K2.
      assert (Ht : len (take (20 - cs) data) = 20 - cs) by (apply len_take_le; lia).
      rewrite Ht. repeat guard_true.
      set (b1 := list_splice buf cs (take (20 - cs) data)).
      assert (Hb1 : len b1 = len buf) by (apply splice_len; rewrite Ht; lia).
      assert (Hh1 : take 20 b1 = take cs buf ++ take (20 - cs) data) by (apply splice_take; [exact Hcs|rewrite Ht; lia]).
      assert (Hok1 : bytes_ok b1 = true) by (apply splice_bytes_ok; [exact Hbuf|apply bytes_ok_take; exact Hdata]).
      assert (Hl20 : len (take 20 b1) = 20) by (apply len_take_le; lia).
      rewrite Hb1, Hl20. repeat guard_true.
      rewrite gen_try_from_agrees by (try apply bytes_ok_take; try exact Hok1; lia).
      assert (Hokh : bytes_ok (take 20 b1) = true) by (apply bytes_ok_take; exact Hok1).
      rewrite Hh1 in *. set (hdr := take cs buf ++ take (20 - cs) data) in *.
      destruct (hdr_ok hdr) eqn:Ehdr; cbn [negb].
      2:{ eexists. split; [reflexivity|]. cbn [Corr]. eexists. split; [reflexivity|exact Hb1]. }
      unfold CodeAgreeRaw.hdr_of. cbn [MessageHeader_msg_length].
      pose proof (CodeAgreeRaw.msg_length_lt hdr Hokh) as HL.
      change (msg_length hdr) with (msg_len hdr) in *. set (ml := msg_len hdr) in *.
      repeat guard_true.
      destruct (N.ltb_spec (len buf) (ml + 20)) as [Hs|Hs].
      { eexists. split; [reflexivity|]. cbn [Corr]. eexists. split; [reflexivity|exact Hb1]. }
      repeat guard_true.
      assert (Hld : len (drop (20 - cs) data) = len data - (20 - cs)) by apply ReasmDrive.len_drop.
      destruct (N.leb_spec (ml + (20 - cs)) (len data)) as [Hd|Hd].
      * replace (20 - cs + ml - (20 - cs)) with ml by lia.
        assert (Htd : len (take ml (drop (20 - cs) data)) = ml) by (apply len_take_le; lia).
        rewrite Htd. repeat guard_true.
        eexists. split; [reflexivity|]. cbn [Corr].
        assert (Hlp : len (hdr ++ take ml (drop (20 - cs) data)) = ml + 20) by (rewrite len_app, Hl20, Htd; lia).
        rewrite Hlp. eexists. split; [reflexivity|].
        split; [rewrite <- Hh1; apply splice_take; [lia|rewrite Htd; lia]|].
        split; [rewrite splice_len; [exact Hb1|rewrite Htd; lia]|].
        apply splice_bytes_ok; [exact Hok1|apply bytes_ok_take, bytes_ok_drop; exact Hdata].
      * assert (Htd : take (len data - (20 - cs)) (drop (20 - cs) data) = drop (20 - cs) data) by (apply take_all; lia).
        rewrite Htd, Hld. repeat guard_true.
        eexists. split; [reflexivity|]. cbn [Corr].
        eexists. split; [reflexivity|]. unfold Rep.
        cbn [bufsz acc expd StunPacketDecoder_buffer StunPacketDecoder_current_size StunPacketDecoder_expected_size].
        rewrite splice_len by (rewrite Hld; lia).
        split; [|split; [reflexivity|apply splice_bytes_ok; [exact Hok1|apply bytes_ok_drop; exact Hdata]]].
        split; [symmetry; exact Hb1|].
        split; [rewrite <- Hh1; symmetry; apply splice_take; [lia|rewrite Hld; lia]|].
        split; [reflexivity|lia].
    + apply N.leb_le in Hok.
      assert (Ht : take (len data) data = data) by (apply take_all; lia).
      rewrite Ht. repeat guard_true.
      eexists. split; [reflexivity|]. cbn [Corr].
      eexists. split; [reflexivity|]. unfold Rep.
      cbn [bufsz acc expd StunPacketDecoder_buffer StunPacketDecoder_current_size StunPacketDecoder_expected_size].
      rewrite splice_len by lia. rewrite (splice_take buf cs data (cs + len data) Hcs eq_refl).
      repeat split; try lia. apply splice_bytes_ok; assumption.
Qed.

(* ---- 3. outside code_ok the translated decode panics: no hypothesis at all *)
Theorem gen_decode_panics : forall g data, code_ok g (len data) = false -> gen_StunPacketDecoder_decode g data = GPanic.
Proof.
  intros [buf cs es] data Hok. unfold code_ok in Hok.
  cbn [StunPacketDecoder_buffer StunPacketDecoder_current_size StunPacketDecoder_expected_size] in Hok.
  unfold gen_StunPacketDecoder_decode.
  cbn [StunPacketDecoder_buffer StunPacketDecoder_current_size StunPacketDecoder_expected_size]. cbv zeta.
  destruct es as [size|].
  - destruct (cs <=? size) eqn:E1; [|reflexivity]. cbn [andb negb] in *.
    destruct (size - cs <=? len data) eqn:E2.
    + rewrite Hok. cbn [andb negb]. reflexivity.
    + rewrite Hok, ?andb_false_r. cbn [andb negb]. reflexivity.
  - destruct (cs + len data <? 18446744073709551616) eqn:E0; [|reflexivity]. cbn [negb].
    destruct (20 <=? cs + len data) eqn:E1.
    + destruct (cs <=? 20) eqn:E2; [|reflexivity]. cbn [andb negb] in *.
      apply N.leb_le in E2. replace (cs + (20 - cs)) with 20 by lia.
      rewrite Hok, ?andb_false_r. cbn [andb negb]. reflexivity.
    + rewrite Hok, ?andb_false_r. cbn [andb negb]. reflexivity.
Qed.

(* hence code_ok is exact: GOk inside, GPanic outside, never out of fuel (there is no loop) *)
Corollary gen_decode_panic_iff : forall g d data,
  Rep g d -> bytes_ok (StunPacketDecoder_buffer g) = true -> bytes_ok data = true ->
  len (StunPacketDecoder_buffer g) + len data < usize_lim ->
  (gen_StunPacketDecoder_decode g data = GPanic <-> code_ok g (len data) = false)
  /\ gen_StunPacketDecoder_decode g data <> GFuel.
Proof.
  intros g d data HR Hb Hd Hov. destruct (code_ok g (len data)) eqn:E.
  - destruct (gen_decode_agrees g d data HR Hb Hd Hov E) as (r & Hr & _). rewrite Hr.
    split; [split; discriminate|discriminate].
  - rewrite (gen_decode_panics g data E). split; [tauto|discriminate].
Qed.

(* ---- the model's guard slices_ok against the code's *)
Lemma Rep_len_acc g d : Rep g d -> len (acc d) = StunPacketDecoder_current_size g.
Proof. intros (_ & Ha & _ & Hc). rewrite Ha. apply len_take_le. exact Hc. Qed.

Lemma slices_ok_code_ok : forall g d L, Rep g d -> slices_ok d = true -> code_ok g L = true.
Proof.
  intros g d L HR Hs. pose proof (Rep_len_acc g d HR) as Hl. destruct HR as (HB & _ & He & Hc).
  unfold slices_ok in Hs. unfold code_ok. rewrite <- He, <- HB, <- Hl. cbv zeta.
  destruct (expd d) as [size|]; apply andb_prop in Hs as [S1 S2]; apply N.leb_le in S1, S2.
  - apply andb_true_intro. split; [apply N.leb_le; exact S1|].
    destruct (N.leb_spec (size - len (acc d)) L) as [H|H]; apply N.leb_le; lia.
  - destruct (N.leb_spec 20 (len (acc d) + L)) as [H|H].
    + apply andb_true_intro. split; apply N.leb_le; assumption.
    + apply N.leb_le. lia.
Qed.

(* where the model says panic the code panics as soon as the chunk reaches the missing room *)
Definition reaches (d:dec) (L:N) : Prop :=
  match expd d with
  | Some size => size < len (acc d) \/ size - len (acc d) <= L
  | None => 20 <= len (acc d) + L
  end.
Lemma slices_bad_code_bad : forall g d L, Rep g d -> slices_ok d = false -> reaches d L -> code_ok g L = false.
Proof.
  intros g d L HR Hs HL. pose proof (Rep_len_acc g d HR) as Hl. destruct HR as (HB & _ & He & Hc).
  unfold slices_ok in Hs. unfold reaches in HL. unfold code_ok. rewrite <- He, <- HB, <- Hl. cbv zeta.
  destruct (expd d) as [size|]; apply andb_false_iff in Hs.
  - destruct (N.leb_spec (len (acc d)) size) as [H1|H1]; [|reflexivity]. cbn [andb].
    destruct HL as [HL|HL]; [lia|].
    assert ((size - len (acc d) <=? L) = true) as -> by (apply N.leb_le; exact HL).
    destruct Hs as [Hs|Hs]; [discriminate|exact Hs].
  - assert ((20 <=? len (acc d) + L) = true) as -> by (apply N.leb_le; exact HL).
    apply andb_false_iff. exact Hs.
Qed.
Theorem slices_bad_panics : forall g d data, Rep g d -> slices_ok d = false -> reaches d (len data) ->
  gen_StunPacketDecoder_decode g data = GPanic /\ feed_rs d data = PanicO.
Proof.
  intros g d data HR Hs HL. split; [apply gen_decode_panics, (slices_bad_code_bad g d); assumption|].
  unfold feed_rs. rewrite Hs. reflexivity.
Qed.

(* ... and not before: the model's guard is coarser than the code's.  Two states that cannot be built through the public
   API (new refuses a 10-byte buffer; expected_size is only ever set to a value <= len buffer): the model calls both a
   panic for every chunk, the translated code stores a 1-byte chunk and asks for more *)
Example slices_ok_coarser_size :
  let g := {| StunPacketDecoder_buffer := repeat 0 30; StunPacketDecoder_current_size := 20; StunPacketDecoder_expected_size := Some 40 |} in
  let d := {| bufsz := 30; acc := repeat 0 20; expd := Some 40 |} in
  Rep g d /\ slices_ok d = false /\ feed_rs d [7] = PanicO
  /\ exists g', gen_StunPacketDecoder_decode g [7] = GOk (ROk (StunPacketDecodedValue_MoreBytesNeeded (g', Some 19))).
Proof.
  cbv zeta. split; [unfold Rep; cbn; repeat split; vm_compute; discriminate|].
  split; [reflexivity|]. split; [reflexivity|]. eexists. vm_compute. reflexivity.
Qed.
Example slices_ok_coarser_small_buffer :
  let g := {| StunPacketDecoder_buffer := repeat 0 10; StunPacketDecoder_current_size := 0; StunPacketDecoder_expected_size := None |} in
  let d := {| bufsz := 10; acc := []; expd := None |} in
  Rep g d /\ slices_ok d = false /\ feed_rs d [7] = PanicO
  /\ exists g', gen_StunPacketDecoder_decode g [7] = GOk (ROk (StunPacketDecodedValue_MoreBytesNeeded (g', None))).
Proof.
  cbv zeta. split; [unfold Rep; cbn; repeat split; vm_compute; discriminate|].
  split; [reflexivity|]. split; [reflexivity|]. eexists. vm_compute. reflexivity.
Qed.

(* ---- the forms the property files quote *)
(* decode = the guarded model feed_rs, for every state the model does not call a panic *)
Theorem gen_decode_is_model : forall g d data,
  Rep g d -> slices_ok d = true ->
  bytes_ok (StunPacketDecoder_buffer g) = true -> bytes_ok data = true ->
  len (StunPacketDecoder_buffer g) + len data < usize_lim ->
  feed_rs d data = Fine (feed d data)
  /\ exists r, gen_StunPacketDecoder_decode g data = GOk r /\ Corr (len (StunPacketDecoder_buffer g)) r (feed d data).
Proof.
  intros g d data HR Hs Hb Hd Hov. split; [unfold feed_rs; rewrite Hs; reflexivity|].
  apply gen_decode_agrees; try assumption. apply (slices_ok_code_ok g d); assumption.
Qed.

(* ... in particular for every state satisfying the invariant of the model proofs (every decoder the public API can produce) *)
Theorem gen_decode_inv : forall g d data,
  Rep g d -> DInv d -> 20 <= bufsz d ->
  bytes_ok (StunPacketDecoder_buffer g) = true -> bytes_ok data = true ->
  len (StunPacketDecoder_buffer g) + len data < usize_lim ->
  exists r, gen_StunPacketDecoder_decode g data = GOk r /\ Corr (bufsz d) r (feed d data)
            /\ (forall d' m, feed d data = More d' m -> DInv d').
Proof.
  intros g d data HR Hinv H20 Hb Hd Hov.
  destruct (gen_decode_is_model g d data HR (slices_ok_inv d Hinv H20) Hb Hd Hov) as (_ & r & Hr & HC).
  exists r. split; [exact Hr|]. destruct HR as (HB & _). rewrite HB. split; [exact HC|].
  intros d' m E. pose proof (feed_spec d data Hinv) as FS.
  destruct (parse (bufsz d) (acc d ++ data)) as [p rest|mm| |].
  - destruct FS as (F & _). rewrite F in E. discriminate.
  - destruct FS as (d'' & F & _ & _ & I). rewrite F in E. injection E as <- _. exact I.
  - rewrite FS in E. discriminate.
  - rewrite FS in E. discriminate.
Qed.

(* ---- 4. the caller's loop over the TRANSLATED functions (the loop of harness/src/bin/reasm.rs and of ReasmRs.chunk_log:
   one logged outcome per decode() call; after a packet the rest of the chunk goes to a decoder made by new from a buffer
   `fb`; the packet the caller reads is buffer[..size], `impl Deref for StunPacket`, lib.rs:131-137, not translated) *)
Definition packet_bytes (p:StunPacketInternal) : bytes := take (StunPacketInternal_size p) (StunPacketInternal_buffer p).

Fixpoint gen_chunk_log (fuel:nat) (fb:bytes) (g:StunPacketDecoder) (chunk:bytes) : list call * option StunPacketDecoder :=
  match fuel with
  | O => ([], Some g)
  | S f =>
      match gen_StunPacketDecoder_decode g chunk with
      | GOk (ROk (StunPacketDecodedValue_Decoded (pkt, consumed))) =>
          let p := packet_bytes pkt in
          match gen_StunPacketDecoder_new fb with
          | RErr _ => ([CDecoded p consumed; CNewRefused], None)
          | ROk g0 =>
              let rest := drop consumed chunk in
              match rest with
              | [] => ([CDecoded p consumed], Some g0)
              | _ => let '(cs, og) := gen_chunk_log f fb g0 rest in (CDecoded p consumed :: cs, og)
              end
          end
      | GOk (ROk (StunPacketDecodedValue_MoreBytesNeeded (g', m))) => ([CMore m], Some g')
      | GOk (RErr e) =>
          ([if StunPacketDecodedError_error_type e =? 1 then CInvalid (StunPacketDecodedError_consumed e)
            else CSmall (StunPacketDecodedError_consumed e)], None)
      | GPanic | GFuel => ([CPanic], None)
      end
  end.

Fixpoint gen_drive_log (fb:bytes) (og:option StunPacketDecoder) (chunks:list bytes) : list (list call) :=
  match chunks with
  | [] => []
  | c :: r =>
      match og with
      | None => []
      | Some g => let '(cs, og') := gen_chunk_log (S (length c)) fb g c in cs :: gen_drive_log fb og' r
      end
  end.

Definition gen_run_log (fb:bytes) (chunks:list bytes) : list (list call) :=
  match gen_StunPacketDecoder_new fb with RErr _ => [[CNewRefused]] | ROk g => gen_drive_log fb (Some g) chunks end.

(* the decoder handed on represents the model's, with everything the next call needs *)
Definition opt_rep (B:N) (og:option StunPacketDecoder) (od:option dec) : Prop :=
  match og, od with
  | Some g, Some d => Rep g d /\ DInv d /\ bufsz d = B /\ bytes_ok (StunPacketDecoder_buffer g) = true
  | None, None => True
  | _, _ => False
  end.
Definition chunk_fits (fb chunk:bytes) : Prop := bytes_ok chunk = true /\ len fb + len chunk < usize_lim.

Lemma Rep_new fb : 20 <= len fb -> bytes_ok fb = true ->
  gen_StunPacketDecoder_new fb = ROk (new_dec fb) /\ new_rs (len fb) = Some (fresh (len fb))
  /\ opt_rep (len fb) (Some (new_dec fb)) (Some (fresh (len fb))).
Proof.
  intros H20 Hfb. destruct (gen_new_agrees fb) as (E & _ & HN). rewrite (new_rs_some (len fb) H20) in E, HN.
  destruct (HN _ eq_refl) as (_ & HR & HI & _). split; [exact E|]. split; [apply new_rs_some; exact H20|].
  cbn [opt_rep]. split; [exact HR|]. split; [exact HI|]. split; [reflexivity|exact Hfb].
Qed.

Lemma gen_chunk_log_is_model : forall fuel fb g d chunk,
  20 <= len fb -> bytes_ok fb = true -> opt_rep (len fb) (Some g) (Some d) -> chunk_fits fb chunk ->
  fst (gen_chunk_log fuel fb g chunk) = fst (chunk_log fuel (len fb) d chunk)
  /\ opt_rep (len fb) (snd (gen_chunk_log fuel fb g chunk)) (snd (chunk_log fuel (len fb) d chunk)).
Proof.
  induction fuel as [|fuel IH]; intros fb g d chunk H20 Hfb HO [Hck Hov].
  - cbn [gen_chunk_log chunk_log fst snd]. split; [reflexivity|exact HO].
  - pose proof HO as (HR & HI & HB & Hgb). cbn [gen_chunk_log chunk_log].
    assert (H20d : 20 <= bufsz d) by (rewrite HB; exact H20).
    assert (Hov' : len (StunPacketDecoder_buffer g) + len chunk < usize_lim)
      by (destruct HR as (HBg & _); rewrite <- HBg, HB; exact Hov).
    destruct (gen_decode_inv g d chunk HR HI H20d Hgb Hck Hov') as (r & Hr & HC & HD).
    rewrite Hr, (feed_rs_fine d chunk HI H20d). rewrite HB in HC.
    destruct (feed d chunk) as [p c|d' m|c|c]; cbn [Corr] in HC.
    + destruct HC as (b' & -> & Hp & _ & _). cbv zeta.
      unfold packet_bytes. cbn [StunPacketInternal_size StunPacketInternal_buffer]. rewrite Hp.
      destruct (Rep_new fb H20 Hfb) as (-> & -> & HO0).
      destruct (drop c chunk) as [|x rest] eqn:Ed; [split; [reflexivity|exact HO0]|].
      rewrite <- Ed in *.
      assert (Hfit : chunk_fits fb (drop c chunk)).
      { split; [apply bytes_ok_drop; exact Hck|]. rewrite ReasmDrive.len_drop. lia. }
      specialize (IH fb (new_dec fb) (fresh (len fb)) (drop c chunk) H20 Hfb HO0 Hfit).
      destruct (gen_chunk_log fuel fb (new_dec fb) (drop c chunk)) as [cs og].
      destruct (chunk_log fuel (len fb) (fresh (len fb)) (drop c chunk)) as [cs' od]. cbn [fst snd] in *.
      destruct IH as [-> IH2]. split; [reflexivity|exact IH2].
    + destruct HC as (g' & -> & HR' & HB' & Hgb'). cbn [fst snd opt_rep].
      split; [reflexivity|]. split; [exact HR'|]. split; [exact (HD d' m eq_refl)|]. split; assumption.
    + destruct HC as (b' & -> & _). cbn [StunPacketDecodedError_error_type StunPacketDecodedError_consumed fst snd opt_rep].
      split; [reflexivity|exact I].
    + destruct HC as (b' & -> & _). cbn [StunPacketDecodedError_error_type StunPacketDecodedError_consumed fst snd opt_rep].
      split; [reflexivity|exact I].
Qed.

Lemma gen_drive_log_is_model : forall chunks fb og od,
  20 <= len fb -> bytes_ok fb = true -> opt_rep (len fb) og od -> Forall (chunk_fits fb) chunks ->
  gen_drive_log fb og chunks = drive_log (len fb) od chunks.
Proof.
  induction chunks as [|c r IH]; intros fb og od H20 Hfb HO HF; [reflexivity|].
  inversion HF as [|? ? Hc Hr]; subst. cbn [gen_drive_log drive_log].
  destruct og as [g|], od as [d|]; cbn [opt_rep] in HO; try contradiction; [|reflexivity].
  pose proof (gen_chunk_log_is_model (S (length c)) fb g d c H20 Hfb HO Hc) as [E1 E2].
  destruct (gen_chunk_log (S (length c)) fb g c) as [cs og'].
  destruct (chunk_log (S (length c)) (len fb) d c) as [cs' od']. cbn [fst snd] in *. subst cs'.
  f_equal. apply IH; assumption.
Qed.

(* the per-call log of the translated code, for every buffer and every chunking, IS the model's run_log ... *)
Theorem gen_run_log_is_model : forall fb chunks, bytes_ok fb = true -> Forall (chunk_fits fb) chunks ->
  gen_run_log fb chunks = run_log (len fb) chunks.
Proof.
  intros fb chunks Hfb HF. unfold gen_run_log, run_log. destruct (N.lt_ge_cases (len fb) 20) as [H|H].
  - destruct (gen_new_agrees fb) as (E & (_ & HN) & _). rewrite (HN H) in E. rewrite E, (HN H). reflexivity.
  - destruct (Rep_new fb H Hfb) as (-> & -> & HO). apply gen_drive_log_is_model; assumption.
Qed.

(* ... hence the unchunked reading of the property text, accepted by the monitor that judges the implementation, and
   without a single panicking call *)
Theorem gen_run_log_is_unchunked_reading : forall fb chunks, 20 <= len fb -> bytes_ok fb = true -> Forall (chunk_fits fb) chunks ->
  gen_run_log fb chunks = spec_log (len fb) (Some []) chunks.
Proof. intros fb chunks H20 Hfb HF. rewrite gen_run_log_is_model by assumption. apply run_log_spec. exact H20. Qed.

Theorem gen_run_log_meets_C16 : forall fb chunks, bytes_ok fb = true -> Forall (chunk_fits fb) chunks ->
  monitor_C16 (len fb) chunks (gen_run_log fb chunks) = true.
Proof. intros fb chunks Hfb HF. rewrite gen_run_log_is_model by assumption. apply model_meets_C16. Qed.

Theorem gen_run_log_no_panic : forall fb chunks cs, bytes_ok fb = true -> Forall (chunk_fits fb) chunks ->
  In cs (gen_run_log fb chunks) -> ~ In CPanic cs.
Proof.
  intros fb chunks cs Hfb HF. rewrite gen_run_log_is_model by assumption.
  destruct (N.lt_ge_cases (len fb) 20) as [H|H].
  - unfold run_log, new_rs. assert ((len fb <? 20) = true) as -> by (apply N.ltb_lt; exact H).
    intros [<-|[]] [E|[]]. discriminate.
  - apply run_log_no_panic. exact H.
Qed.

(* non-vacuity: the example of Props/C16.v run through the translated code (a 24-byte packet cut into three chunks,
   the second and third chunk carrying the start of the next packet / garbage) *)
Example gen_run_log_example :
  let p := [0;1;0;4; 33;18;164;66; 1;2;3;4;5;6;7;8;9;10;11;12; 128;34;0;0] in
  gen_run_log (repeat 255 24) [firstn 7 p; skipn 7 p ++ firstn 3 p; skipn 3 p ++ [255]]
  = [[CMore None]; [CDecoded p 17; CMore None]; [CDecoded p 21; CMore None]].
Proof. vm_compute. reflexivity. Qed.
