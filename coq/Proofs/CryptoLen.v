(* Output lengths of the Gallina hash functions: 20 bytes for (HMAC-)SHA-1, 32 for (HMAC-)SHA-256, whatever the input *)
From Coq Require Import List NArith Lia Bool Arith.
Import ListNotations.
From Rustun Require Import Base.Tlv Crypto.Sha256 Crypto.Sha1Md5.

Lemma flat_map_const_length {A B} (f:A -> list B) n : (forall x, length (f x) = n) -> forall l, length (flat_map f l) = (n * length l)%nat.
Proof. intros H. induction l as [|a l IH]; cbn [flat_map length]; [lia|]. rewrite app_length, H, IH. lia. Qed.

(* ---- SHA-256 *)
Lemma round256_len st kw : length (Sha256.round st kw) = length st.
Proof. unfold Sha256.round. destruct st as [|a [|b [|c [|d [|e [|f [|g [|h [|i r]]]]]]]]]; reflexivity. Qed.
Lemma fold_round256_len l : forall st, length (fold_left Sha256.round l st) = length st.
Proof. induction l as [|x l IH]; intros st; cbn [fold_left]; [reflexivity|]. rewrite IH. apply round256_len. Qed.
Lemma compress256_len h blk : length (Sha256.compress h blk) = length h.
Proof. unfold Sha256.compress. rewrite map_length, combine_length, fold_round256_len. lia. Qed.
Lemma fold_compress256_len l : forall h, length (fold_left Sha256.compress l h) = length h.
Proof. induction l as [|x l IH]; intros h; cbn [fold_left]; [reflexivity|]. rewrite IH. apply compress256_len. Qed.
Lemma be_bytes256_len n x : length (Sha256.be_bytes n x) = n.
Proof. unfold Sha256.be_bytes. rewrite map_length, rev_length, seq_length. reflexivity. Qed.
Lemma sha256_length m : length (sha256 m) = 32%nat.
Proof.
  unfold sha256. rewrite (flat_map_const_length _ 4) by (intros; apply be_bytes256_len).
  rewrite fold_compress256_len. reflexivity.
Qed.
Lemma hmac_sha256_length k m : length (hmac_sha256 k m) = 32%nat.
Proof. unfold hmac_sha256. apply sha256_length. Qed.

(* ---- SHA-1 *)
Lemma round1_len st tw : length (round1 st tw) = length st.
Proof.
  unfold round1. destruct st as [|a [|b [|c [|d [|e [|f r]]]]]]; try reflexivity.
  destruct (f1 (fst tw) b c d). reflexivity.
Qed.
Lemma fold_round1_len l : forall st, length (fold_left round1 l st) = length st.
Proof. induction l as [|x l IH]; intros st; cbn [fold_left]; [reflexivity|]. rewrite IH. apply round1_len. Qed.
Lemma compress1_len h blk : length (compress1 h blk) = length h.
Proof. unfold compress1. rewrite map_length, combine_length, fold_round1_len. lia. Qed.
Lemma fold_compress1_len l : forall h, length (fold_left compress1 l h) = length h.
Proof. induction l as [|x l IH]; intros h; cbn [fold_left]; [reflexivity|]. rewrite IH. apply compress1_len. Qed.
Lemma be_bytes1_len n x : length (Sha1Md5.be_bytes n x) = n.
Proof. unfold Sha1Md5.be_bytes. rewrite map_length, rev_length, seq_length. reflexivity. Qed.
Lemma sha1_length m : length (sha1 m) = 20%nat.
Proof.
  unfold sha1. rewrite (flat_map_const_length _ 4) by (intros; apply be_bytes1_len).
  rewrite fold_compress1_len. reflexivity.
Qed.
Lemma hmac_sha1_length k m : length (hmac_sha1 k m) = 20%nat.
Proof. unfold hmac_sha1. apply sha1_length. Qed.

Lemma len_hmac_sha1 k m : len (hmac_sha1 k m) = 20%N.
Proof. unfold len. rewrite hmac_sha1_length. reflexivity. Qed.
Lemma len_hmac_sha256 k m : len (hmac_sha256 k m) = 32%N.
Proof. unfold len. rewrite hmac_sha256_length. reflexivity. Qed.
