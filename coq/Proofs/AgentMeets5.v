(* The client model satisfies the two extra monitors mon_C07_reject (C07, the IF direction: a response without acceptable
   integrity MUST be rejected) and mon_C06_initial (C06: an accepted request is transmitted in that call, and while nothing
   has been measured the timeout in effect and the armed timer are the configured RTO) on every step of every well-formed
   history. ocaml/driver.ml runs both on every observed call of the IMPLEMENTATION with the monitor states BEFORE the call
   (`mon_C07_reject cc st.ma_core st.ma_st mo o`, `mon_C06_initial mc cc st.ma_rtt mo o`); here they are run in exactly that
   form in lockstep with the model, through the observation `obs_of` of Proofs/AgentMeets.v and the run machinery
   run_state / run_state_inv of Proofs/AgentMeets3.v / AgentMeets4.v (the template of this file).

   C07. Proofs/AgentReject.v has the single-step model theorem (bad_st_response_is_rejected) with the premise read off the
   model's own state. The coupling invariants carried along the run give
     (1) memN id (live (ma_core s)) = true  ->  lookup id (T c) is Some            (R_live; AgentMeets4.live_lookup)
     (2) sm_agreed (ma_st s) = st_agreed st for the mechanism MST st                 (CI_mech, second component)
     (3) cc_fp cc = use_fp (cfg c), cc_reliable cc = reliable (cfg c)                (CI_fp, CI_rel)
     (4) cc_mech cc is 1, 2 or 3 exactly for MST                                     (CI_mech)
   bad_st_response is monotone in its `outstanding` flag, so the monitor's premise implies the model theorem's premise; its
   conclusion is rendered by obs_of as [EFail id ProtectionViolated] (reliable) / no event and id in ob_K = markers c'
   (unreliable; obs_K shows the markers for every mechanism but MNone, and the mechanism is unchanged).

   C06. On the model the interval r of `Send now id r ..` is an INPUT of the history. The first conjunct of the clause (an
   accepted request is transmitted in that call) is unconditional: model_accepted_send_is_transmitted. The second conjunct
   is proved under the hypothesis `hands_configured`: while the C15 monitor state before the call holds no estimate (and is
   not poisoned) the history hands the request r = cc_rto. Then the timer armed by the model is
   next_rto (new_mgr c r) now = r (Rc > 1), Rm * r (Rc = 1), no request at all (Rc = 0), which is what the clause demands.
   On reliable transport the clause has no second conjunct and no hypothesis is needed. *)
From Coq Require Import List NArith Lia Bool.
Import ListNotations.
From Rustun Require Import Agent.Rto Agent.Model Agent.Monitors Proofs.AgentInv Proofs.AgentTrace Proofs.AgentSched
  Proofs.AgentMech Proofs.AgentMeets Proofs.AgentMeets2 Proofs.AgentMeets3 Proofs.AgentMeets4 Proofs.AgentReject.
Open Scope N_scope.

Lemma bad_st_response_mono fp ag out out' w :
  (out = true -> out' = true) -> bad_st_response fp ag out w = true -> bad_st_response fp ag out' w = true.
Proof.
  intros Hout. unfold bad_st_response. cbv zeta.
  destruct out; [intros Hb; rewrite (Hout eq_refl); exact Hb|cbn [andb]; discriminate].
Qed.

Lemma not_st_reject cc core sv op ob : ~ (cc_mech cc = 1 \/ cc_mech cc = 2 \/ cc_mech cc = 3) -> mon_C07_reject cc core sv op ob = true.
Proof.
  intros Hk. unfold mon_C07_reject.
  destruct ((1 <=? cc_mech cc) && (cc_mech cc <=? 3)) eqn:Hc; [|reflexivity].
  exfalso. apply Hk. apply andb_true_iff in Hc as [H1 H3]. apply N.leb_le in H1. apply N.leb_le in H3. lia.
Qed.

Theorem step_C07_reject_st mc cc c core sv used o c' rep evs st :
  mech_ c = MST st -> cc_fp cc = use_fp (cfg c) -> cc_reliable cc = reliable (cfg c) -> sm_agreed sv = st_agreed st ->
  R mc c core used -> step c o = (c', rep, evs) ->
  mon_C07_reject cc core sv (mop_of o rep) (obs_of c c' o rep evs) = true.
Proof.
  intros Hm Hfp Hrel Hag HR Hs.
  destruct o as [now id r method app room|id method app room|now d w|now]; cbn [mop_of];
    try (unfold mon_C07_reject; destruct (negb ((1 <=? cc_mech cc) && (cc_mech cc <=? 3))); reflexivity).
  destruct d.
  2:{ unfold mon_C07_reject. cbv zeta. cbn [andb]. destruct (negb ((1 <=? cc_mech cc) && (cc_mech cc <=? 3))); reflexivity. }
  rewrite mon_C07_reject_premise.
  destruct (negb ((1 <=? cc_mech cc) && (cc_mech cc <=? 3))); [reflexivity|].
  destruct (bad_st_response (cc_fp cc) (sm_agreed sv) (memN (m_id w) (live core)) w) eqn:Hb; [|reflexivity].
  rewrite Hfp, Hag in Hb.
  apply (bad_st_response_mono _ _ _ (match lookup (m_id w) (T c) with Some _ => true | None => false end) w
           (live_lookup mc c core used (m_id w) HR)) in Hb.
  pose proof (bad_st_response_is_rejected c st now w Hm Hb) as Hrej. rewrite Hs in Hrej.
  rewrite Hrel. destruct (reliable (cfg c)).
  - destruct Hrej as (_ & -> & _). cbn [obs_of ob_events map oev_of existsb]. rewrite N.eqb_refl. reflexivity.
  - destruct Hrej as (_ & -> & Hmem & _ & _ & Hmech'). cbn [obs_of ob_events ob_K map andb]. unfold obs_K.
    rewrite Hmech', Hm. exact Hmem.
Qed.

Theorem step_C07_reject mc cc c s used o c' rep evs :
  R mc c (ma_core s) used -> CInv cc c s -> step c o = (c', rep, evs) ->
  mon_C07_reject cc (ma_core s) (ma_st s) (mop_of o rep) (obs_of c c' o rep evs) = true.
Proof.
  intros HR HC Hs. pose proof (CI_mech _ _ _ HC) as Hm. destruct (mech_ c) as [|st|lt] eqn:Hmc.
  - apply not_st_reject. rewrite Hm. intros [H|[H|H]]; discriminate H.
  - destruct Hm as (_ & Hag & _).
    exact (step_C07_reject_st mc cc c (ma_core s) (ma_st s) used o c' rep evs st Hmc (CI_fp _ _ _ HC) (CI_rel _ _ _ HC) Hag HR Hs).
  - destruct Hm as (Hk & _). apply not_st_reject. rewrite Hk. intros [H|[H|H]]; discriminate H.
Qed.

(* ------------------------------------------------------------------ the lockstep run *)
Definition premise07_of (cc:ccfg) (s:mall) (op:mop) : bool :=
  (1 <=? cc_mech cc) && (cc_mech cc <=? 3) &&
  match op with
  | MRecv _ true m => bad_st_response (cc_fp cc) (sm_agreed (ma_st s)) (memN (m_id m) (live (ma_core s))) m
  | _ => false
  end.

Record rjv := { jv_before : mall; jv_premise : bool; jv_reject : bool }.

Fixpoint run_mon_reject (cf:mcfg) (cc:ccfg) (c:client) (s:mall) (ops:list op) : list rjv :=
  match ops with
  | [] => []
  | o :: rest =>
      let '(c', rep, evs) := step c o in
      let '(s', vs) := monitor_step cf cc s (mop_of o rep) (obs_of c c' o rep evs) in
      {| jv_before := s; jv_premise := premise07_of cc s (mop_of o rep);
         jv_reject := mon_C07_reject cc (ma_core s) (ma_st s) (mop_of o rep) (obs_of c c' o rep evs) |}
      :: run_mon_reject cf cc c' s' rest
  end.

Lemma run_mon_reject_before cf cc : forall ops c s,
  map jv_before (run_mon_reject cf cc c s ops) = map lv_before (run_mon_lt cf cc c s ops).
Proof.
  induction ops as [|o ops IH]; intros c s; cbn [run_mon_reject run_mon_lt map]; [reflexivity|].
  destruct (step c o) as [[c' rep] evs].
  destruct (monitor_step cf cc s (mop_of o rep) (obs_of c c' o rep evs)) as [s' vs].
  cbn [map jv_before lv_before]. rewrite IH. reflexivity.
Qed.
Lemma run_mon_reject_length cf cc ops c s : length (run_mon_reject cf cc c s ops) = length ops.
Proof.
  rewrite <- (run_mon_lt_length cf cc ops c s), <- (map_length jv_before), run_mon_reject_before. apply map_length.
Qed.

Lemma run_mon_reject_ok mc cc : forall ops c s used,
  R mc c (ma_core s) used -> CInv cc c s -> fresh_trace used ops ->
  forall x, In x (run_mon_reject mc cc c s ops) -> jv_reject x = true.
Proof.
  induction ops as [|o ops IH]; intros c s used HR HC Hfr x Hin; cbn [run_mon_reject] in Hin; [destruct Hin|].
  destruct Hfr as [Hfo Hfr].
  destruct (step c o) as [[c' rep] evs] eqn:Hs.
  pose proof (monitor_step_core mc cc s (mop_of o rep) (obs_of c c' o rep evs)) as Hcore.
  pose proof (step_CInv mc cc c s used o c' rep evs HR HC Hs) as HC'.
  destruct (monitor_step mc cc s (mop_of o rep) (obs_of c c' o rep evs)) as [s' vs0]. cbn [fst snd] in *.
  destruct Hin as [<-|Hin].
  - cbn [jv_reject]. exact (step_C07_reject mc cc c s used o c' rep evs HR HC Hs).
  - assert (HR' : R mc c' (ma_core s') (used_step used o)) by (rewrite Hcore; apply (step_R mc c (ma_core s) used o c' rep evs HR Hfo Hs)).
    exact (IH c' s' (used_step used o) HR' HC' Hfr x Hin).
Qed.

(* ------------------------------------------------------------------ the theorems (C07) *)
Theorem model_meets_C07_reject : forall (cf:config) (m:mech) (mc:mcfg) (cc:ccfg) (ops:list op),
  consistent mc cf -> consistent_cc cc cf m -> well_formed_history ops ->
  forall a o b, ops = a ++ o :: b ->
    let c := fst (run_state mc cc (init cf m) (mall0 cc) a) in
    let s := snd (run_state mc cc (init cf m) (mall0 cc) a) in
    let '(c', rep, evs) := step c o in
    mon_C07_reject cc (ma_core s) (ma_st s) (mop_of o rep) (obs_of c c' o rep evs) = true.
Proof.
  intros cf m mc cc ops Hc Hcc Hwf a o b ->. cbv zeta.
  destruct (run_state_inv mc cc a (o :: b) (init cf m) (mall0 cc) [] (R_init mc cf m Hc) (CInv_init cc cf m Hcc)
              (wf_fresh _ _ _ Hwf)) as (used' & HR & HC & _).
  destruct (step (fst (run_state mc cc (init cf m) (mall0 cc) a)) o) as [[c' rep] evs] eqn:Hs.
  exact (step_C07_reject mc cc _ _ used' o c' rep evs HR HC Hs).
Qed.

Definition reject_true (l:list rjv) : Prop := forall x, In x l -> jv_reject x = true.
Theorem model_meets_C07_reject_run cf m mc cc ops :
  consistent mc cf -> consistent_cc cc cf m -> well_formed_history ops ->
  reject_true (run_mon_reject mc cc (init cf m) (mall0 cc) ops).
Proof.
  intros Hc Hcc Hwf x Hin.
  exact (run_mon_reject_ok mc cc ops (init cf m) (mall0 cc) [] (R_init mc cf m Hc) (CInv_init cc cf m Hcc) (wf_fresh _ _ _ Hwf) x Hin).
Qed.

Corollary model_rejects_when_monitor_demands : forall (cf:config) (m:mech) (mc:mcfg) (cc:ccfg) (a:list op) (now:N) (w:msg) (b:list op),
  consistent mc cf -> consistent_cc cc cf m -> well_formed_history (a ++ Recv now true w :: b) ->
  let c := fst (run_state mc cc (init cf m) (mall0 cc) a) in
  let s := snd (run_state mc cc (init cf m) (mall0 cc) a) in
  1 <= cc_mech cc <= 3 ->
  bad_st_response (cc_fp cc) (sm_agreed (ma_st s)) (memN (m_id w) (live (ma_core s))) w = true ->
  let '(c', rep, evs) := step c (Recv now true w) in
  if cc_reliable cc
  then rep = ROk None /\ evs = [Failed (m_id w) ProtectionViolated] /\ lookup (m_id w) (T c') = None /\ markers c' = markers c
  else rep = RDiscarded /\ evs = [] /\ mem (m_id w) (markers c') = true /\ T c' = T c /\ H c' = H c.
Proof.
  intros cf m mc cc a now w b Hc Hcc Hwf. cbv zeta. intros Hk Hb.
  destruct (run_state_inv mc cc a (Recv now true w :: b) (init cf m) (mall0 cc) [] (R_init mc cf m Hc) (CInv_init cc cf m Hcc)
              (wf_fresh _ _ _ Hwf)) as (used' & HR & HC & _).
  set (c := fst (run_state mc cc (init cf m) (mall0 cc) a)) in *.
  set (s := snd (run_state mc cc (init cf m) (mall0 cc) a)) in *.
  pose proof (CI_mech _ _ _ HC) as Hm. destruct (mech_ c) as [|st|lt] eqn:Hmc.
  - rewrite Hm in Hk. lia.
  - destruct Hm as (_ & Hag & _).
    rewrite (CI_fp _ _ _ HC), Hag in Hb.
    apply (bad_st_response_mono _ _ _ (match lookup (m_id w) (T c) with Some _ => true | None => false end) w
             (live_lookup mc c (ma_core s) used' (m_id w) HR)) in Hb.
    pose proof (bad_st_response_is_rejected c st now w Hmc Hb) as Hrej.
    destruct (step c (Recv now true w)) as [[c' rep] evs].
    rewrite (CI_rel _ _ _ HC). destruct (reliable (cfg c)).
    + destruct Hrej as (H1 & H2 & H3 & _ & H5). auto.
    + destruct Hrej as (H1 & H2 & H3 & H4 & H5 & _). auto.
  - destruct Hm as (Hk4 & _). rewrite Hk4 in Hk. lia.
Qed.

(* ================================================================== C06: mon_C06_initial *)
Definition est_before (s:rtt_mon) (now:N) : option (N*N) :=
  match rm_last s with
  | Some l => if 600000000000 <? now - l then None else rm_est s
  | None => rm_est s end.

Lemma mon_C06_initial_eq mc c s op o :
  mon_C06_initial mc c s op o =
  (match op, ob_ret o with
   | MSend _ _ _ _ _, OOk => match first_out o with Some _ => true | None => false end
   | _, _ => true end) &&
  if cc_reliable c then true else
  match op, ob_ret o with
  | MSend now id r _ _, OOk =>
      match est_before s now with
      | None =>
          let armed := match find (fun e => h_ident e =? id) (ob_H o) with Some e => snd e | None => r end in
          rm_poisoned s || ((r =? cc_rto c) && (armed =? (if mc_rc mc =? 1 then mc_rm mc else 1) * cc_rto c))
      | Some _ => true
      end
  | _, _ => true
  end.
Proof. reflexivity. Qed.

(* first half, unconditional *)
Theorem model_accepted_send_is_transmitted : forall (c:client) (now:N) (id:txid) (r method:N) (app:list attr) (room:bool)
    (c':client) (rep:reply) (evs:list event),
  step c (Send now id r method app room) = (c', rep, evs) ->
  oret_of rep = OOk ->
  exists p rest, rep = ROk (Some id) /\ evs = Out id true p :: rest
    /\ m_class p = CRequest /\ m_id p = id /\ m_method p = method
    /\ (exists x, lookup id (T c') = Some x /\ pkt x = p)
    /\ first_out (obs_of c c' (Send now id r method app room) rep evs) = Some (Some p).
Proof.
  intros c now id r method app room c' rep evs Hs Hok.
  destruct (step_send_cases c now id r method app room) as [(rep0 & Hst & Hno & _)|(a & d & m1 & _ & _ & _ & Hst)];
    rewrite Hs in Hst; inversion Hst; subst.
  - exfalso. destruct rep0; try discriminate Hok. exact (Hno id0 eq_refl).
  - eexists. eexists. split; [reflexivity|]. split; [reflexivity|]. cbn [m_class m_id m_method].
    repeat (split; [reflexivity|]). split; [|reflexivity].
    eexists. cbn [with_TH T lookup]. rewrite N.eqb_refl. split; reflexivity.
Qed.

Corollary model_refused_send_is_silent : forall c now id r method app room c' rep evs,
  step c (Send now id r method app room) = (c', rep, evs) -> oret_of rep <> OOk -> evs = [] /\ c' = c.
Proof.
  intros c now id r method app room c' rep evs Hs Hno.
  destruct (step_send_cases c now id r method app room) as [(rep0 & Hst & _)|(a & d & m1 & _ & _ & _ & Hst)];
    rewrite Hs in Hst; inversion Hst; subst; [split; reflexivity|].
  exfalso. apply Hno. reflexivity.
Qed.

(* the hypothesis on the history: while the C15 monitor state holds no estimate (and judging has not stopped), the
   interval handed to the request is the configured RTO *)
Definition hands_configured (cc:ccfg) (s:rtt_mon) (o:op) : Prop :=
  match o with
  | Send now _ r _ _ _ => est_before s now = None -> rm_poisoned s = false -> r = cc_rto cc
  | _ => True
  end.

Theorem step_C06_initial mc cc c rs o c' rep evs :
  consistent mc (cfg c) -> cc_reliable cc = reliable (cfg c) ->
  (cc_reliable cc = false -> hands_configured cc rs o) ->
  step c o = (c', rep, evs) ->
  mon_C06_initial mc cc rs (mop_of o rep) (obs_of c c' o rep evs) = true.
Proof.
  intros Hc Hrel Hh Hs. rewrite mon_C06_initial_eq.
  destruct o as [now id r method app room|id method app room|now d w|now]; cbn [mop_of];
    try (destruct (cc_reliable cc); reflexivity).
  destruct (step_send_cases c now id r method app room) as [(rep0 & Hst & Hno & _)|(a & d & m1 & _ & _ & Hn & Hst)];
    rewrite Hs in Hst; inversion Hst; subst.
  - destruct rep0; cbn [obs_of ob_ret oret_of]; try (destruct (cc_reliable cc); reflexivity).
    exfalso. exact (Hno id0 eq_refl).
  - set (p := {| m_class := CRequest; m_method := method; m_id := id; m_attrs := flatten a |}).
    set (c1 := with_TH c _ _).
    set (ob := obs_of c c1 _ _ _).
    assert (Hret : ob_ret ob = OOk) by reflexivity.
    assert (Hfo : first_out ob = Some (Some p)) by reflexivity.
    assert (HH : find (fun e => h_ident e =? id) (ob_H ob) = Some (id, now, d)).
    { unfold ob, c1. cbn [obs_of ob_H with_TH H obs_H map find h_id h_ident fst snd]. rewrite N.eqb_refl. reflexivity. }
    rewrite Hret, Hfo, HH. cbn [andb snd].
    destruct (cc_reliable cc) eqn:Hr; [reflexivity|].
    destruct (est_before rs now) eqn:He; [reflexivity|].
    destruct (rm_poisoned rs) eqn:Hp; [reflexivity|]. cbn [orb].
    pose proof (Hh eq_refl He Hp) as Hrr. cbn [hands_configured] in Hrr.
    destruct Hc as (_ & Hrm & Hrc & _).
    unfold next_rto, new_mgr in Hn. rewrite <- Hrel in Hn. cbn [latest mcalc] in Hn.
    unfold calc_next in Hn. cbn [c_rc c_rtt c_rm c_last] in Hn.
    destruct (cf_rc (cfg c) =? 0); [discriminate Hn|].
    rewrite Hrm, Hrc, <- Hrr, N.eqb_refl. cbn [andb].
    destruct (cf_rc (cfg c) =? 1); inversion Hn; subst; apply N.eqb_eq; lia.
Qed.

Theorem model_meets_C06_initial : forall (cf:config) (m:mech) (mc:mcfg) (cc:ccfg) (ops:list op),
  consistent mc cf -> consistent_cc cc cf m -> well_formed_history ops ->
  forall a o b, ops = a ++ o :: b ->
    let c := fst (run_state mc cc (init cf m) (mall0 cc) a) in
    let s := snd (run_state mc cc (init cf m) (mall0 cc) a) in
    (cc_reliable cc = false -> hands_configured cc (ma_rtt s) o) ->
    let '(c', rep, evs) := step c o in
    mon_C06_initial mc cc (ma_rtt s) (mop_of o rep) (obs_of c c' o rep evs) = true.
Proof.
  intros cf m mc cc ops Hc Hcc Hwf a o b ->. cbv zeta. intros Hh.
  destruct (run_state_inv mc cc a (o :: b) (init cf m) (mall0 cc) [] (R_init mc cf m Hc) (CInv_init cc cf m Hcc)
              (wf_fresh _ _ _ Hwf)) as (used' & HR & HC & _).
  destruct (step (fst (run_state mc cc (init cf m) (mall0 cc) a)) o) as [[c' rep] evs] eqn:Hs.
  exact (step_C06_initial mc cc _ _ o c' rep evs (R_cfg _ _ _ _ HR) (CI_rel _ _ _ HC) Hh Hs).
Qed.

(* on reliable transport the clause carries no hypothesis at all *)
Corollary model_meets_C06_initial_reliable : forall (cf:config) (m:mech) (mc:mcfg) (cc:ccfg) (ops:list op),
  consistent mc cf -> consistent_cc cc cf m -> well_formed_history ops -> cc_reliable cc = true ->
  forall a o b, ops = a ++ o :: b ->
    let c := fst (run_state mc cc (init cf m) (mall0 cc) a) in
    let s := snd (run_state mc cc (init cf m) (mall0 cc) a) in
    let '(c', rep, evs) := step c o in
    mon_C06_initial mc cc (ma_rtt s) (mop_of o rep) (obs_of c c' o rep evs) = true.
Proof.
  intros cf m mc cc ops Hc Hcc Hwf Hrel a o b Heq.
  apply (model_meets_C06_initial cf m mc cc ops Hc Hcc Hwf a o b Heq).
  intros Hf. rewrite Hrel in Hf. discriminate Hf.
Qed.

(* the recorded run, with the hypothesis stated once for the whole history *)
Fixpoint history_hands_configured (cf:mcfg) (cc:ccfg) (c:client) (s:mall) (ops:list op) : Prop :=
  match ops with
  | [] => True
  | o :: rest =>
      let '(c', rep, evs) := step c o in
      let '(s', vs) := monitor_step cf cc s (mop_of o rep) (obs_of c c' o rep evs) in
      hands_configured cc (ma_rtt s) o /\ history_hands_configured cf cc c' s' rest
  end.

(* a decidable form of the hypothesis, for concrete histories *)
Definition hands_configuredb (cc:ccfg) (s:rtt_mon) (o:op) : bool :=
  match o with
  | Send now _ r _ _ _ => match est_before s now with None => rm_poisoned s || (r =? cc_rto cc) | Some _ => true end
  | _ => true
  end.
Lemma hands_configuredb_spec cc s o : hands_configuredb cc s o = true -> hands_configured cc s o.
Proof.
  destruct o as [now id r method app room| | |]; cbn [hands_configuredb hands_configured]; try (intros _; exact I).
  intros Hb He Hp. rewrite He, Hp in Hb. cbn [orb] in Hb. apply N.eqb_eq in Hb. exact Hb.
Qed.
Fixpoint history_hands_configuredb (cf:mcfg) (cc:ccfg) (c:client) (s:mall) (ops:list op) : bool :=
  match ops with
  | [] => true
  | o :: rest =>
      let '(c', rep, evs) := step c o in
      let '(s', vs) := monitor_step cf cc s (mop_of o rep) (obs_of c c' o rep evs) in
      hands_configuredb cc (ma_rtt s) o && history_hands_configuredb cf cc c' s' rest
  end.
Lemma history_hands_configuredb_spec cf cc : forall ops c s,
  history_hands_configuredb cf cc c s ops = true -> history_hands_configured cf cc c s ops.
Proof.
  induction ops as [|o ops IH]; intros c s; cbn [history_hands_configuredb history_hands_configured]; [intros _; exact I|].
  destruct (step c o) as [[c' rep] evs].
  destruct (monitor_step cf cc s (mop_of o rep) (obs_of c c' o rep evs)) as [s' vs].
  intros Hb. apply andb_true_iff in Hb as [H1 H2]. split; [apply hands_configuredb_spec; exact H1|apply IH; exact H2].
Qed.

Record inv_ := { iv_before : mall;
                 iv_fresh : bool;      (* the step is a Send while the C15 monitor state holds no estimate *)
                 iv_initial : bool }.  (* mon_C06_initial on (ma_rtt iv_before) *)
Definition fresh_of (s:mall) (o:op) : bool :=
  match o with
  | Send now _ _ _ _ _ => match est_before (ma_rtt s) now with None => negb (rm_poisoned (ma_rtt s)) | Some _ => false end
  | _ => false end.
Fixpoint run_mon_initial (cf:mcfg) (cc:ccfg) (c:client) (s:mall) (ops:list op) : list inv_ :=
  match ops with
  | [] => []
  | o :: rest =>
      let '(c', rep, evs) := step c o in
      let '(s', vs) := monitor_step cf cc s (mop_of o rep) (obs_of c c' o rep evs) in
      {| iv_before := s; iv_fresh := fresh_of s o;
         iv_initial := mon_C06_initial cf cc (ma_rtt s) (mop_of o rep) (obs_of c c' o rep evs) |}
      :: run_mon_initial cf cc c' s' rest
  end.

Lemma run_mon_initial_ok mc cc : forall ops c s used,
  R mc c (ma_core s) used -> CInv cc c s -> fresh_trace used ops ->
  (cc_reliable cc = false -> history_hands_configured mc cc c s ops) ->
  forall x, In x (run_mon_initial mc cc c s ops) -> iv_initial x = true.
Proof.
  induction ops as [|o ops IH]; intros c s used HR HC Hfr Hh x Hin; cbn [run_mon_initial history_hands_configured] in Hin, Hh;
    [destruct Hin|].
  destruct Hfr as [Hfo Hfr].
  destruct (step c o) as [[c' rep] evs] eqn:Hs.
  pose proof (monitor_step_core mc cc s (mop_of o rep) (obs_of c c' o rep evs)) as Hcore.
  pose proof (step_CInv mc cc c s used o c' rep evs HR HC Hs) as HC'.
  destruct (monitor_step mc cc s (mop_of o rep) (obs_of c c' o rep evs)) as [s' vs0]. cbn [fst snd] in *.
  destruct Hin as [<-|Hin].
  - cbn [iv_initial].
    exact (step_C06_initial mc cc c (ma_rtt s) o c' rep evs (R_cfg _ _ _ _ HR) (CI_rel _ _ _ HC) (fun Hf => proj1 (Hh Hf)) Hs).
  - assert (HR' : R mc c' (ma_core s') (used_step used o)) by (rewrite Hcore; apply (step_R mc c (ma_core s) used o c' rep evs HR Hfo Hs)).
    exact (IH c' s' (used_step used o) HR' HC' Hfr (fun Hf => proj2 (Hh Hf)) x Hin).
Qed.

Definition initial_true (l:list inv_) : Prop := forall x, In x l -> iv_initial x = true.
Theorem model_meets_C06_initial_run cf m mc cc ops :
  consistent mc cf -> consistent_cc cc cf m -> well_formed_history ops ->
  (cc_reliable cc = false -> history_hands_configured mc cc (init cf m) (mall0 cc) ops) ->
  initial_true (run_mon_initial mc cc (init cf m) (mall0 cc) ops).
Proof.
  intros Hc Hcc Hwf Hh x Hin.
  exact (run_mon_initial_ok mc cc ops (init cf m) (mall0 cc) [] (R_init mc cf m Hc) (CInv_init cc cf m Hcc) (wf_fresh _ _ _ Hwf) Hh x Hin).
Qed.

(* ================================================================== non-vacuity *)
(* a short-term client (nothing agreed yet, fingerprints on), reliable or unreliable transport: a request, a success response
   whose MESSAGE-INTEGRITY was made with another password (KST 1; the configured one is KST 0), a timer call, the same
   response with the right key, another request *)
Definition st_cf (rel:bool) : config := {| reliable := rel; cf_rm := 16; cf_rc := 7; limit := 4; use_fp := true |}.
Definition st_mc (rel:bool) : mcfg := {| mc_reliable := rel; mc_rm := 16; mc_rc := 7; mc_limit := 4 |}.
Definition st_cc (rel:bool) : ccfg := {| cc_mech := 1; cc_fp := true; cc_reliable := rel; cc_rto := 500; cc_gran := 1 |}.
Definition st_m0 : mech := MST {| st_agreed := None |}.
Definition st_bad : msg := ex_resp CSuccess 1 [AMI (KST 1); AFP true].
Definition st_history : list op :=
  [ Send 0 1 500 1 [] true;
    Recv 10 true st_bad;
    Tmo 20;
    Recv 30 true (ex_resp CSuccess 1 [AMI (KST 0); AFP true]);
    Send 40 2 500 1 [] true ].
Example st_history_wf : well_formed_history st_history.
Proof.
  unfold well_formed_history, st_history.
  repeat (first [ apply wf_nil
                | apply wf_send; [cbn [In]; intros Hin; repeat (destruct Hin as [Hin|Hin]; [discriminate Hin|]); exact Hin | lia | lia | ]
                | apply wf_ind
                | apply wf_recv; [lia|]
                | apply wf_tmo; [lia|] ]).
Qed.
Example st_consistent : forall rel, consistent (st_mc rel) (st_cf rel) /\ consistent_cc (st_cc rel) (st_cf rel) st_m0.
Proof. intros rel. unfold consistent, consistent_cc. cbn. repeat split; reflexivity. Qed.

(* the premise of mon_C07_reject holds at the response step (step 1), on both transports; the monitor answers true everywhere *)
Example st_history_reject_reliable :
  map (fun x => (jv_premise x, jv_reject x)) (run_mon_reject (st_mc true) (st_cc true) (init (st_cf true) st_m0) (mall0 (st_cc true)) st_history)
  = [(false, true); (true, true); (false, true); (false, true); (false, true)].
Proof. vm_compute. reflexivity. Qed.
Example st_history_reject_unreliable :
  map (fun x => (jv_premise x, jv_reject x)) (run_mon_reject (st_mc false) (st_cc false) (init (st_cf false) st_m0) (mall0 (st_cc false)) st_history)
  = [(false, true); (true, true); (false, true); (false, true); (false, true)].
Proof. vm_compute. reflexivity. Qed.
(* the premise spelled out on the states run_state reaches after the request *)
Example st_history_premise : forall rel,
  let s := snd (run_state (st_mc rel) (st_cc rel) (init (st_cf rel) st_m0) (mall0 (st_cc rel)) [Send 0 1 500 1 [] true]) in
  bad_st_response (cc_fp (st_cc rel)) (sm_agreed (ma_st s)) (memN (m_id st_bad) (live (ma_core s))) st_bad = true.
Proof. intros [|]; vm_compute; reflexivity. Qed.
(* what the model does there *)
Example st_history_outcome : forall rel,
  let c := fst (run_state (st_mc rel) (st_cc rel) (init (st_cf rel) st_m0) (mall0 (st_cc rel)) [Send 0 1 500 1 [] true]) in
  (snd (fst (step c (Recv 10 true st_bad))), snd (step c (Recv 10 true st_bad)), markers (fst (fst (step c (Recv 10 true st_bad)))))
  = if rel then (ROk None, [Failed 1 ProtectionViolated], []) else (RDiscarded, [], [1]).
Proof. intros [|]; vm_compute; reflexivity. Qed.
(* the monitor can fail: the same step observed with other outcomes *)
Example reject_monitor_rejects_reliable :
  let s := snd (run_state (st_mc true) (st_cc true) (init (st_cf true) st_m0) (mall0 (st_cc true)) [Send 0 1 500 1 [] true]) in
  map (fun evs => mon_C07_reject (st_cc true) (ma_core s) (ma_st s) (MRecv 10 true st_bad)
                    {| ob_ret := OOk; ob_events := evs; ob_T := []; ob_H := []; ob_K := []; ob_same := false |})
      [ []; [ERecv CSuccess 1]; [EFail 2 ProtectionViolated]; [EFail 1 TimedOut]; [EFail 1 ProtectionViolated] ]
  = [false; false; false; false; true].
Proof. vm_compute. reflexivity. Qed.
Example reject_monitor_rejects_unreliable :
  let s := snd (run_state (st_mc false) (st_cc false) (init (st_cf false) st_m0) (mall0 (st_cc false)) [Send 0 1 500 1 [] true]) in
  map (fun ek => mon_C07_reject (st_cc false) (ma_core s) (ma_st s) (MRecv 10 true st_bad)
                    {| ob_ret := ODiscarded; ob_events := fst ek; ob_T := [1]; ob_H := [(1, 0, 500)]; ob_K := snd ek; ob_same := false |})
      [ ([], []); ([], [2]); ([ERecv CSuccess 1], [1]); ([EFail 1 ProtectionViolated], [1]); ([], [1]) ]
  = [false; false; false; false; true].
Proof. vm_compute. reflexivity. Qed.

(* C06: along st_history the history hands both requests 500 = cc_rto; the first is sent while nothing has been measured
   (iv_fresh), on unreliable transport the second after the sample of request 1 (30 ms) *)
Example st_history_hands_configured : forall rel,
  history_hands_configured (st_mc rel) (st_cc rel) (init (st_cf rel) st_m0) (mall0 (st_cc rel)) st_history.
Proof. intros [|]; apply history_hands_configuredb_spec; vm_compute; reflexivity. Qed.
Example st_history_initial_unreliable :
  map (fun x => (iv_fresh x, iv_initial x)) (run_mon_initial (st_mc false) (st_cc false) (init (st_cf false) st_m0) (mall0 (st_cc false)) st_history)
  = [(true, true); (false, true); (false, true); (false, true); (false, true)].
Proof. vm_compute. reflexivity. Qed.
Example st_history_initial_reliable :
  map (fun x => (iv_fresh x, iv_initial x)) (run_mon_initial (st_mc true) (st_cc true) (init (st_cf true) st_m0) (mall0 (st_cc true)) st_history)
  = [(true, true); (false, true); (false, true); (false, true); (true, true)].
Proof. vm_compute. reflexivity. Qed.
(* the hypothesis is needed: the interval of a Send is an input of the history, and a fresh unreliable client handed 700
   where 500 is configured is (rightly) rejected by the clause; so is an accepted request observed without its transmission *)
Example initial_needs_hypothesis :
  map (fun x => iv_initial x) (run_mon_initial (st_mc false) (st_cc false) (init (st_cf false) st_m0) (mall0 (st_cc false))
                                 [Send 0 1 700 1 [] true]) = [false].
Proof. vm_compute. reflexivity. Qed.
Example initial_monitor_rejects :
  map (fun o => mon_C06_initial (st_mc false) (st_cc false) rtt_mon0 (MSend 0 1 500 1 []) o)
      [ {| ob_ret := OOk; ob_events := []; ob_T := [1]; ob_H := [(1, 0, 500)]; ob_K := []; ob_same := false |};
        {| ob_ret := OOk; ob_events := [EOut 1 true true None]; ob_T := [1]; ob_H := [(1, 0, 600)]; ob_K := []; ob_same := false |};
        {| ob_ret := OOk; ob_events := [EOut 1 true true None]; ob_T := [1]; ob_H := [(1, 0, 500)]; ob_K := []; ob_same := false |};
        {| ob_ret := OMaxOut; ob_events := []; ob_T := []; ob_H := []; ob_K := []; ob_same := true |} ]
  = [false; false; true; true].
Proof. vm_compute. reflexivity. Qed.

Print Assumptions model_meets_C07_reject.
Print Assumptions model_meets_C07_reject_run.
Print Assumptions model_rejects_when_monitor_demands.
Print Assumptions model_accepted_send_is_transmitted.
Print Assumptions model_refused_send_is_silent.
Print Assumptions model_meets_C06_initial.
Print Assumptions model_meets_C06_initial_reliable.
Print Assumptions model_meets_C06_initial_run.

(* ---- C17, undecodable bytes: the model rejects them and changes nothing at all (Monitors.mon_C17_undecodable is the clause the
   implementation is judged by) *)
Lemma undecodable_changes_nothing (c:client) (now:N) (w:msg) : step c (Recv now false w) = (c, RInternal, []).
Proof. reflexivity. Qed.
Lemma step_C17_undecodable mc c s used o c' rep evs :
  R mc c s used -> step c o = (c', rep, evs) ->
  mon_C17_undecodable s (mop_of o rep) (obs_of c c' o rep evs) = true.
Proof.
  intros HR Hs. unfold mon_C17_undecodable.
  destruct o as [now id r method app room|id method app room|now d w|now]; cbn [mop_of]; try reflexivity.
  destruct d; [reflexivity|]. rewrite undecodable_changes_nothing in Hs. inversion Hs; subst c' rep evs.
  cbn [obs_of ob_ret ob_events ob_same ob_K oret_of].
  assert (Hsame : snap_eqb (snap c) (snap c) = true) by apply snap_eqb_refl.
  rewrite Hsame. rewrite (R_K _ _ _ _ HR). rewrite !subsetb_refl. reflexivity.
Qed.
