(* C01 at message level: encoding a message built from documented-limit values into a large enough buffer succeeds and
   decoding the produced bytes (default decoder) returns the same values in the same order, with equal sizes. *)
From Coq Require Import List NArith Lia Bool Arith.
Import ListNotations.
From Rustun Require Import Base.Tlv Codec.Filter Codec.DecodeLoop Codec.InputText Codec.EncodeInto Codec.EncodeMsg
                           Codec.Wire Codec.AttrValue Codec.WireFull Codec.Message Proofs.AttrValueProofs.
Open Scope N_scope.

(* ---- headers *)
Lemma header_len typ L txid : length txid = 12%nat -> len (EncodeInto.header typ L txid) = 20.
Proof. apply len_header. Qed.

Lemma av_dec_header_header typ L txid : typ < 16384 -> L < 65536 -> length txid = 12%nat ->
  av_dec_header (EncodeInto.header typ L txid) = VOk txid.
Proof.
  intros Ht HL Htx.
  destruct txid as [|t0 [|t1 [|t2 [|t3 [|t4 [|t5 [|t6 [|t7 [|t8 [|t9 [|t10 [|t11 [|x r]]]]]]]]]]]]]; try discriminate.
  unfold EncodeInto.header, EncodeInto.cookie_bytes, be16. cbn [app].
  set (m := typ / 256 :: typ mod 256 :: L / 256 :: L mod 256 :: 33 :: 18 :: 164 :: 66 :: t0 :: t1 :: t2 :: t3 :: t4 :: t5 :: t6 :: t7 :: t8 :: t9 :: t10 :: [t11]).
  assert (A : av_dec_header m = if negb (rd16 (typ / 256) (typ mod 256) / 16384 =? 0) then VErr
                                 else VOk [t0; t1; t2; t3; t4; t5; t6; t7; t8; t9; t10; t11]) by reflexivity.
  rewrite A. rewrite rd16_be16 by lia.
  assert (E2 : (typ / 16384 =? 0) = true) by (apply N.eqb_eq; apply N.div_small; exact Ht).
  rewrite E2. reflexivity.
Qed.

(* the typed codecs depend on the header only through the transaction id it carries *)
Lemma av_enc_attr_hdr_ext h1 h2 ty a room : av_dec_header h1 = av_dec_header h2 -> av_enc_attr h1 ty a room = av_enc_attr h2 ty a room.
Proof.
  intros E. unfold av_enc_attr. destruct (av_registry ty) as [k|]; [|reflexivity].
  destruct k; try reflexivity. destruct a; try reflexivity. unfold av_enc_kind. rewrite E. reflexivity.
Qed.
Lemma av_dec_attr_hdr_ext h1 h2 ud ty v : av_dec_header h1 = av_dec_header h2 -> av_dec_attr ud h1 ty v = av_dec_attr ud h2 ty v.
Proof.
  intros E. unfold av_dec_attr. destruct (av_registry ty) as [k|]; [|reflexivity].
  destruct k; try reflexivity. unfold av_dec_kind. rewrite E. reflexivity.
Qed.

(* ---- typed values and their encodings *)
Definition tvals (l:list (N * aval)) : list tattr := map (fun x => TVal (fst x) (snd x)) l.
Definition plains (t:list tlv) : list eattr := map (fun x => EPlain (fst x) (snd x)) t.

(* the value bytes chosen by the per-attribute round-trip theorem *)
Definition enc_rel (hdr:bytes) (x:N * aval) (y:tlv) : Prop :=
  fst y = fst x /\ (forall room, len (snd y) <= room -> av_enc_attr hdr (fst x) (snd x) room = VOk (snd y))
  /\ (forall ud, av_dec_attr ud hdr (fst x) (snd y) = VOk (snd x)).

Lemma values_exist hdr : av_hdr_ok hdr = true -> forall l, Forall (fun x => av_wf (fst x) (snd x) = true) l ->
  exists t, Forall2 (enc_rel hdr) l t.
Proof.
  intros Hh. induction l as [|[ty a] l IH]; intros Hwf; [exists []; constructor|].
  inversion Hwf as [|? ? Hx Hl]; subst. destruct (IH Hl) as (t & Ht).
  destruct (dec_enc_attr false hdr ty a Hx Hh) as (v & He & _).
  exists ((ty, v) :: t). constructor; [|exact Ht]. unfold enc_rel; cbn [fst snd]. refine (conj eq_refl (conj He _)).
  intros ud. destruct (dec_enc_attr ud hdr ty a Hx Hh) as (v' & He' & Hd').
  assert (v' = v) as ->.
  { pose proof (He (N.max (len v) (len v')) (N.le_max_l _ _)) as A. pose proof (He' (N.max (len v) (len v')) (N.le_max_r _ _)) as B. congruence. }
  exact Hd'.
Qed.

Lemma enc_values_plains hdr : forall l t, Forall2 (enc_rel hdr) l t -> Forall (fun y => len (snd y) <= 65535) t ->
  enc_values hdr (tvals l) = VOk (plains t).
Proof.
  induction 1 as [|[ty a] [ty' v] l t (Ht & He & _) _ IH]; intros Hlen; [reflexivity|].
  cbn [fst snd] in *. subst ty'. inversion Hlen as [|? ? Hv Hr]; subst. cbn [tvals map fst snd enc_values].
  rewrite (He 65535 Hv). fold (tvals l). rewrite (IH Hr). reflexivity.
Qed.

(* plain attributes: the encoder with tails is the plain encoder *)
Lemma fold_plains : forall t st, fold_left enc_step2 (plains t) st = fold_left enc_step t st.
Proof.
  induction t as [|[ty v] t IH]; intros st; cbn [plains map fold_left fst snd]; [reflexivity|].
  fold (plains t). rewrite IH. f_equal.
  destruct st as [[b L]| |]; try reflexivity. unfold enc_step2, e_tlv. cbn [e_type e_placeholder post_value].
  destruct (enc_step (Ok (b, L)) (ty, v)) as [[b' L']| |]; reflexivity.
Qed.
Lemma encode_msg_plains buf typ txid t : encode_msg buf typ txid (plains t) = encode_into buf typ txid t.
Proof. unfold encode_msg, encode_into. rewrite fold_plains. reflexivity. Qed.

(* ---- the decoder on header ++ TLVs *)
Section Decode.
Variables (typ L : N) (txid : bytes) (t : list tlv).
Hypothesis Htyp : typ < 16384.
Hypothesis Htx : length txid = 12%nat.
Hypothesis HL : L = len (enc_tlvs t).
Hypothesis HL16 : L < 65536.
Hypothesis Hok : forallb tlv_ok t = true.
Let b := EncodeInto.header typ L txid ++ enc_tlvs t.

Lemma msg_hdr_valid : hdr_valid b = true.
Proof.
  subst b. destruct txid as [|t0 [|t1 [|t2 [|t3 [|t4 [|t5 [|t6 [|t7 [|t8 [|t9 [|t10 [|t11 [|x r]]]]]]]]]]]]]; try discriminate.
  unfold EncodeInto.header, EncodeInto.cookie_bytes, be16. cbn [app hdr_valid].
  assert (E : (typ / 256 <? 64) = true) by (apply N.ltb_lt; apply N.div_lt_upper_bound; lia).
  rewrite E. change (33 =? 33) with true. change (18 =? 18) with true. change (164 =? 164) with true. change (66 =? 66) with true.
  cbn [andb]. apply N.leb_le. unfold len. cbn [length]. lia.
Qed.
Lemma msg_length_b : msg_length b = L.
Proof. subst b. unfold EncodeInto.header, be16. cbn [app msg_length]. apply rd16_be16. exact HL16. Qed.
Lemma len_b : len b = 20 + L.
Proof. subst b. rewrite len_app, header_len by exact Htx. rewrite HL. reflexivity. Qed.
Lemma take20_b : take 20 b = EncodeInto.header typ L txid.
Proof. subst b. rewrite <- (header_len typ L txid Htx). apply take_app_exact. Qed.
Lemma attrs_b : take L (drop 20 b) = enc_tlvs t.
Proof.
  subst b. rewrite <- (header_len typ L txid Htx) at 1. rewrite drop_app_exact. rewrite HL.
  rewrite <- (app_nil_r (enc_tlvs t)) at 2. apply take_app_exact.
Qed.
Lemma tlvs_b : dec_tlvs (length b) (take (msg_length b) (drop 20 b)) = Ok t.
Proof.
  rewrite msg_length_b, attrs_b. apply dec_enc_tlvs; [exact Hok|]. subst b. rewrite app_length. lia.
Qed.
End Decode.

(* all attributes are ordinary and accepted: the loop returns every one of them *)
Lemma loop_all_ordinary (dec : bool -> (N * (N * bytes)) -> option (N * (N * bytes))) verify o f :
  o_validate o = false -> forall l,
  (forall x, In x l -> dec (o_unknown o) x = Some x /\ kind_of_type (w_ty x) = Ord) ->
  f_mi f = false -> f_sha f = false -> f_fp f = false ->
  loop _ _ (fun x => kind_of_type (w_ty x)) dec verify o f l = Some l.
Proof.
  intros Hv. induction l as [|x l IH]; intros Hall A B C; cbn [loop]; [reflexivity|].
  destruct (Hall x (or_introl eq_refl)) as [Hd Hk]. rewrite Hd, Hk.
  assert (E : ignore_attribute f Ord = (false, f)).
  { destruct f as [a b' c]; cbn in A, B, C; subst. reflexivity. }
  rewrite E. cbn [negb orb]. rewrite Hv. cbn [andb].
  rewrite IH; [reflexivity| |exact A|exact B|exact C]. intros y Hy. apply Hall. right. exact Hy.
Qed.

Lemma number_pos : forall t pos, map w_pos (number pos t) = map (fun i => pos + N.of_nat i) (seq 0 (length t)).
Proof.
  induction t as [|a t IH]; intros pos; cbn [number map length seq]; [reflexivity|].
  unfold w_pos at 1. cbn [fst]. f_equal; [lia|]. rewrite IH. rewrite <- seq_shift, map_map. apply map_ext. intros i. lia.
Qed.
Lemma in_number : forall t pos x, In x (number pos t) -> In (snd x) t.
Proof. induction t as [|a t IH]; intros pos x H; cbn [number] in H; [destruct H|]. destruct H as [<-|H]; [left; reflexivity|right; eapply IH; exact H]. Qed.

(* ---- side facts *)
From Rustun Require Import Codec.MsgType.
Lemma msg_type_bound m c : m < 4096 -> c < 4 -> msg_type_of m c < 16384.
Proof.
  intros Hm Hc.
  assert (H : forall_bits 12 (fun m => forall_bits 2 (fun c => msg_type_of m c <? 16384)) = true) by (vm_compute; reflexivity).
  pose proof (forall_bits_spec 12 _ H m) as H1. cbv beta in H1. specialize (H1 Hm).
  pose proof (forall_bits_spec 2 _ H1 c) as H2. cbv beta in H2. apply N.ltb_lt. apply H2. exact Hc.
Qed.

Lemma pad_mod4 n : (n + pad n) mod 4 = 0.
Proof.
  unfold pad. 
  assert (n mod 4 < 4) by (apply N.mod_lt; lia).
  rewrite (N.div_mod n 4) at 1 by lia.
  destruct (N.eq_dec (n mod 4) 0) as [E|E]; [rewrite E; change ((4 - 0) mod 4) with 0; rewrite !N.add_0_r, N.mul_comm; apply N.mod_mul; lia|].
  assert (E4 : (4 - n mod 4) mod 4 = 4 - n mod 4) by (apply N.mod_small; lia). rewrite E4.
  replace (4 * (n / 4) + n mod 4 + (4 - n mod 4)) with ((n / 4 + 1) * 4) by lia. apply N.mod_mul. lia.
Qed.
Lemma attr_bytes_mod4 : forall t, attr_bytes t mod 4 = 0.
Proof.
  unfold attr_bytes. induction t as [|a t IH]; [reflexivity|].
  change (enc_tlvs (a :: t)) with (enc_tlv a ++ enc_tlvs t). rewrite len_app, len_enc_tlv.
  rewrite N.add_mod by lia. rewrite IH, N.add_0_r, N.mod_mod by lia.
  replace (4 + len (snd a) + pad (len (snd a))) with (len (snd a) + pad (len (snd a)) + 1 * 4) by lia.
  rewrite N.mod_add by lia. apply pad_mod4.
Qed.
Lemma attr_bytes_each : forall t, attr_bytes t <= 65535 -> Forall (fun y => len (snd y) <= 65535) t.
Proof.
  unfold attr_bytes. induction t as [|a t IH]; intros H; [constructor|].
  change (enc_tlvs (a :: t)) with (enc_tlv a ++ enc_tlvs t) in H. rewrite len_app, len_enc_tlv in H.
  constructor; [lia|apply IH; lia].
Qed.

Lemma wf_ordinary ty a : av_wf ty a = true -> kind_of_type ty = Ord.
Proof.
  intros H. unfold kind_of_type.
  destruct (N.eqb_spec ty T_MI) as [->|_]; [destruct a; discriminate|].
  destruct (N.eqb_spec ty T_SHA) as [->|_]; [destruct a; discriminate|].
  destruct (N.eqb_spec ty InputText.T_FP) as [->|_]; [destruct a; discriminate|]. reflexivity.
Qed.

(* ---- C01 at message level *)
Theorem roundtrip : forall (m:tmsg) (l:list (N * aval)) (buf:bytes),
  t_attrs m = tvals l -> t_method m < 4096 -> t_class m < 4 -> length (t_txid m) = 12%nat ->
  Forall (fun x => av_wf (fst x) (snd x) = true) l -> Forall (fun x => fst x < 65536) l ->
  exists t, Forall2 (enc_rel (t_hdr m)) l t /\
    (attr_bytes t <= 65535 -> 20 + attr_bytes t <= len buf ->
       exists out, encode_typed buf m = TOk out (20 + attr_bytes t)
                   /\ (20 + attr_bytes t) mod 4 = 0
                   /\ decode_typed (take (20 + attr_bytes t) out)
                      = DOk (20 + attr_bytes t) (map (fun x => (fst x, VOk (snd x))) l)).
Proof.
  intros m l buf Hattrs Hm Hc Htx Hwf Hty.
  pose proof (msg_type_bound _ _ Hm Hc) as Htyp. fold (t_typ m) in Htyp.
  assert (Hh0 : av_dec_header (t_hdr m) = VOk (t_txid m)) by (apply av_dec_header_header; [exact Htyp|lia|exact Htx]).
  assert (Hhok : av_hdr_ok (t_hdr m) = true) by (unfold av_hdr_ok; rewrite Hh0; reflexivity).
  destruct (values_exist (t_hdr m) Hhok l Hwf) as (t & Hrel). exists t. split; [exact Hrel|].
  intros H16 Hfit. set (L := attr_bytes t) in *.
  (* encoding *)
  assert (Heach := attr_bytes_each t H16).
  assert (Henc : encode_typed buf m = TOk (EncodeInto.header (t_typ m) L (t_txid m) ++ enc_tlvs t ++ drop (20 + L) buf) (20 + L)).
  { unfold encode_typed. rewrite Hattrs, (enc_values_plains (t_hdr m) l t Hrel Heach), encode_msg_plains.
    destruct (C14_encode_into buf (t_typ m) (t_txid m) t Htx) as [Hok _].
    rewrite Hok; [reflexivity|]. refine (conj Hfit (conj H16 _)).
    apply forallb_forall. intros y Hy. apply N.leb_le. rewrite Forall_forall in Heach. apply Heach. exact Hy. }
  eexists. split; [exact Henc|]. split.
  { rewrite N.add_mod by lia. unfold L. rewrite attr_bytes_mod4. reflexivity. }
  (* the produced bytes *)
  set (b := EncodeInto.header (t_typ m) L (t_txid m) ++ enc_tlvs t).
  assert (Hb : take (20 + L) (EncodeInto.header (t_typ m) L (t_txid m) ++ enc_tlvs t ++ drop (20 + L) buf) = b).
  { rewrite app_assoc. fold b. replace (20 + L) with (len b) by (unfold b; rewrite len_app, header_len by exact Htx; reflexivity).
    apply take_app_exact. }
  rewrite Hb. unfold b. clear Hb b.
  assert (HLdef : L = len (enc_tlvs t)) by reflexivity.
  assert (HL16 : L < 65536) by lia.
  assert (Htok : forallb tlv_ok t = true).
  { apply forallb_forall. intros y Hy. unfold tlv_ok. apply andb_true_iff. split; apply N.ltb_lt.
    - (* the type codes *) clear - Hrel Hty Hy. induction Hrel as [|x y' l t (E & _) _ IH]; [destruct Hy|].
      inversion Hty; subst. destruct Hy as [<-|Hy]; [rewrite E; assumption|apply IH; assumption].
    - rewrite Forall_forall in Heach. specialize (Heach y Hy). lia. }
  (* decoding *)
  unfold decode_typed, decode.
  rewrite (msg_hdr_valid (t_typ m) L (t_txid m) t) by assumption. cbn [negb].
  rewrite (msg_length_b (t_typ m) L (t_txid m) t) by assumption. rewrite (len_b (t_typ m) L (t_txid m) t) by assumption.
  assert ((20 + L <? 20 + L) = false) as -> by (apply N.ltb_irrefl).
  assert (Htl := tlvs_b (t_typ m) L (t_txid m) t Htyp Htx HLdef HL16 Htok).
  rewrite (msg_length_b (t_typ m) L (t_txid m) t) in Htl by assumption. rewrite Htl.
  rewrite (take20_b (t_typ m) L (t_txid m) t) by assumption.
  assert (Hh1 : av_dec_header (EncodeInto.header (t_typ m) L (t_txid m)) = av_dec_header (t_hdr m)).
  { rewrite Hh0. apply av_dec_header_header; [exact Htyp|exact HL16|exact Htx]. }
  remember (EncodeInto.header (t_typ m) L (t_txid m)) as h eqn:Hhdef.
  (* every value is accepted by its typed decoder *)
  assert (Hdec : forall y, In y t -> forall ud, exists a, av_dec_attr ud h (fst y) (snd y) = VOk a
                                                   /\ kind_of_type (fst y) = Ord).
  { clear - Hrel Hh1 Hwf. induction Hrel as [|x y' l t (E & _ & D) _ IH]; intros y Hy ud; [destruct Hy|].
    inversion Hwf; subst. destruct Hy as [<-|Hy]; [|apply IH; assumption].
    exists (snd x). rewrite (av_dec_attr_hdr_ext _ _ ud _ _ Hh1), E. split; [apply D|]. eapply wf_ordinary. eassumption. }
  assert (Hex : existsb (fun a => match dec_ok_full (o_unknown (w_opts default_wctx)) h (fst a) (snd a) with
                                   | None => true | Some _ => false end) t = false).
  { apply Bool.not_true_is_false. intros E. apply existsb_exists in E as (y & Hy & E).
    destruct (Hdec y Hy false) as (a & Ha & _). unfold dec_ok_full in E. cbn [default_wctx w_opts o_unknown] in E. rewrite Ha in E. discriminate. }
  rewrite Hex.
  rewrite (loop_all_ordinary _ _ (w_opts default_wctx) _ eq_refl (number 0 t)); try reflexivity.
  2:{ intros x Hx. apply in_number in Hx. destruct (Hdec (snd x) Hx false) as (a & Ha & Hk).
      unfold dec_ok_full, w_ty, w_val. cbn [default_wctx w_opts o_unknown]. rewrite Ha. split; [reflexivity|exact Hk]. }
  f_equal.
  (* the typed values of the returned positions *)
  unfold typed_attrs. rewrite Hhdef.
  rewrite (msg_length_b (t_typ m) L (t_txid m) t) by assumption. rewrite Hhdef in Htl. rewrite Htl.
  rewrite (take20_b (t_typ m) L (t_txid m) t) by assumption. rewrite <- Hhdef.
  rewrite number_pos, map_map.
  clear - Hrel Hh1. revert Hrel. generalize l. clear l.
  induction t as [|y t IH]; intros l Hrel; inversion Hrel as [|x y' l' t' (E & _ & D) Hr]; subst; [reflexivity|].
  cbn [length seq map nth_error]. rewrite N.add_0_l. cbn [N.to_nat nth_error].
  destruct y as [ty v]. cbn [fst snd] in *. subst ty. f_equal.
  - change (N.to_nat (N.of_nat 0)) with 0%nat. cbn [nth_error]. f_equal.
    rewrite (av_dec_attr_hdr_ext _ _ false _ _ Hh1). apply D.
  - rewrite <- seq_shift, map_map. rewrite <- (IH l' Hr). apply map_ext. intros i.
    replace (N.to_nat (0 + N.of_nat (S i))) with (S (N.to_nat (0 + N.of_nat i))) by lia. reflexivity.
Qed.
Print Assumptions roundtrip.
