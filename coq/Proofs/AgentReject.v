(* C07, the IF direction, on the MODEL side: the short-term client model rejects every response without acceptable integrity.
   `bad_st_response` is the premise of the specification clause Monitors.mon_C07_reject written over the model's own state
   (mon_C07_reject_premise: the clause is literally `if bad_st_response ... then <what must happen> else true`): a success /
   error response for an outstanding request, with the valid FINGERPRINT a fingerprint-checking client insists on, whose
   protected attributes P = rfc_filter (m_attrs w) do not carry both integrity kinds and whose integrity attribute of the
   kind in force (the agreed one; MESSAGE-INTEGRITY, else MESSAGE-INTEGRITY-SHA256, while none is agreed) is absent or keyed
   with anything but KST 0. For such a message one `step` of the model
     - on reliable transport: answers Ok, emits exactly [Failed id ProtectionViolated] and finishes the transaction;
     - on unreliable transport: answers Discarded, emits nothing, marks the request, and leaves the transaction table, the
       timer heap and the mechanism untouched.

   Route. (1) `rfc_filter` is idempotent (AgentMeets2.rfc_filter_idem): `step` replaces the attributes by P and `st_recv`
   filters again. (2) The response scan `st_scan true P None None` does not stop on a list that lacks one of the two kinds
   (st_scan_some, here; the converse of AgentMech.st_scan_both) and then returns the LAST attribute of each kind, which in
   the well-ordered list P (AgentMeets2.rfc_filter_tail_ok) is the FIRST one, i.e. the monitor's `find`
   (AgentMeets2.last_of_find_mi / last_of_find_sha). (3) An attribute of an integrity kind that is not `valid_st` does not
   verify under KST 0 (AgentMeets2.valid_of_key, contraposed), so AgentMech.st_reject_reliable / st_reject_unreliable give
   the mechanism's answer. (4) `step` unfolded with these facts, as in Proofs/AgentRetry.v. *)
From Coq Require Import List NArith Lia Bool Arith.
Import ListNotations.
From Rustun Require Import Agent.Rto Agent.Model Agent.Monitors Codec.Filter Proofs.AgentInv Proofs.AgentTrace
  Proofs.AgentSched Proofs.AgentMech Proofs.AgentMeets Proofs.AgentMeets2.
Open Scope N_scope.

(* ================================================================== 0: the premise *)
Definition bad_st_response (fp:bool) (agreed:option integ) (outstanding:bool) (w:msg) : bool :=
  let P := rfc_filter (m_attrs w) in
  let mi := find a_is_mi P in let sha := find a_is_sha P in
  let both := (match mi with Some _ => true | None => false end) && (match sha with Some _ => true | None => false end) in
  let pick := match agreed with
              | Some IMI => mi | Some ISHA => sha
              | None => match mi with Some _ => mi | None => sha end end in
  outstanding
  && (match m_class w with CSuccess | CError => true | _ => false end)
  && (if fp then match find a_is_fp P with Some (AFP true) => true | _ => false end else true)
  && negb both && negb (valid_st pick).

(* the specification clause is this premise guarding the required outcome *)
Lemma mon_C07_reject_premise c core s now m o :
  mon_C07_reject c core s (MRecv now true m) o =
  if negb ((1 <=? cc_mech c) && (cc_mech c <=? 3)) then true
  else if bad_st_response (cc_fp c) (sm_agreed s) (memN (m_id m) (live core)) m
       then if cc_reliable c
            then existsb (fun e => match e with EFail i ProtectionViolated => i =? m_id m | _ => false end) (ob_events o)
            else (match ob_events o with [] => true | _ => false end) && memN (m_id m) (ob_K o)
       else true.
Proof. reflexivity. Qed.

(* ================================================================== 1: the response scan on a list lacking a kind *)
Lemma st_scan_some : forall l mi sha,
  (has mi || existsb a_is_mi l) && (has sha || existsb a_is_sha l) = false ->
  st_scan true l mi sha = Some (last_of a_is_mi l mi, last_of a_is_sha l sha).
Proof.
  induction l as [|a r IH]; intros mi sha Hno; [reflexivity|].
  cbn [st_scan existsb] in *. unfold last_of. cbn [fold_left]. fold (last_of a_is_mi r) (last_of a_is_sha r).
  destruct (a_is_mi a) eqn:Hm, (a_is_sha a) eqn:Hs, mi as [x|], sha as [y|]; cbn [has andb orb] in *;
    try discriminate; apply IH; cbn [has andb orb]; auto.
Qed.

Lemma st_scan_filtered P :
  tail_ok P = true ->
  (match find a_is_mi P with Some _ => true | None => false end)
  && (match find a_is_sha P with Some _ => true | None => false end) = false ->
  st_scan true P None None = Some (find a_is_mi P, find a_is_sha P).
Proof.
  intros Ht Hb. rewrite st_scan_some.
  - rewrite (last_of_find_mi P Ht), (last_of_find_sha P Ht). reflexivity.
  - cbn [has orb]. rewrite <- !has_find. exact Hb.
Qed.

(* ================================================================== 2: the attribute in force does not verify *)
Definition pick_of (agreed:option integ) (mi sha:option attr) : option attr :=
  match agreed with
  | Some IMI => mi | Some ISHA => sha
  | None => match mi with Some _ => mi | None => sha end end.

Lemma pick_of_st_pick s mi sha : st_pick s mi sha = pick_of (st_agreed s) mi sha.
Proof. reflexivity. Qed.

Lemma pick_of_kind agreed P a :
  pick_of agreed (find a_is_mi P) (find a_is_sha P) = Some a -> a_is_mi a = true \/ a_is_sha a = true.
Proof.
  unfold pick_of. destruct agreed as [[|]|].
  - intros Hf. left. exact (find_true _ _ _ Hf).
  - intros Hf. right. exact (find_true _ _ _ Hf).
  - destruct (find a_is_mi P) as [b|] eqn:Hfm.
    + intros HE. inversion HE; subst b. left. exact (find_true _ _ _ Hfm).
    + intros Hf. right. exact (find_true _ _ _ Hf).
Qed.

Lemma invalid_fails s P :
  valid_st (pick_of (st_agreed s) (find a_is_mi P) (find a_is_sha P)) = false ->
  st_fails s (find a_is_mi P) (find a_is_sha P).
Proof.
  intros Hv. unfold st_fails. rewrite pick_of_st_pick.
  destruct (pick_of (st_agreed s) (find a_is_mi P) (find a_is_sha P)) as [a|] eqn:Hp; [|exact I].
  destruct (keyd_eqb (mac_key a) (KST 0)) eqn:Hk; [|reflexivity].
  rewrite (valid_of_key a (pick_of_kind _ _ _ Hp) Hk) in Hv. discriminate.
Qed.

Lemma mem_ins_self x l : mem x (ins x l) = true.
Proof.
  unfold ins. destruct (mem x l) eqn:Hx; [exact Hx|]. unfold mem. cbn [existsb]. rewrite N.eqb_refl. reflexivity.
Qed.

(* ================================================================== 3: the client *)
Theorem bad_st_response_is_rejected : forall (c:client) (s:st_mech) (now:N) (w:msg),
  mech_ c = MST s ->
  bad_st_response (use_fp (cfg c)) (st_agreed s)
                  (match lookup (m_id w) (T c) with Some _ => true | None => false end) w = true ->
  let '(c', rep, evs) := step c (Recv now true w) in
  if reliable (cfg c)
  then rep = ROk None /\ evs = [Failed (m_id w) ProtectionViolated] /\ lookup (m_id w) (T c') = None
       /\ mech_ c' = mech_ c /\ markers c' = markers c
  else rep = RDiscarded /\ evs = [] /\ mem (m_id w) (markers c') = true
       /\ T c' = T c /\ H c' = H c /\ mech_ c' = mech_ c.
Proof.
  intros c s now w Hmech Hb.
  unfold bad_st_response in Hb. cbv zeta in Hb. set (P := rfc_filter (m_attrs w)) in *.
  fold (pick_of (st_agreed s) (find a_is_mi P) (find a_is_sha P)) in Hb.
  apply andb_true_iff in Hb as [Hb Hval]. apply andb_true_iff in Hb as [Hb Hboth].
  apply andb_true_iff in Hb as [Hb Hfp]. apply andb_true_iff in Hb as [Hout Hcls].
  apply negb_true_iff in Hval. apply negb_true_iff in Hboth.
  destruct (lookup (m_id w) (T c)) as [x|] eqn:Hl; [|discriminate]. clear Hout.
  assert (Hfp1 : use_fp (cfg c) && (match find a_is_fp P with None => true | Some _ => false end) = false).
  { destruct (use_fp (cfg c)); [|reflexivity]. destruct (find a_is_fp P); [reflexivity|discriminate]. }
  assert (Hfp2 : use_fp (cfg c) && (match find a_is_fp P with Some (AFP true) => false | _ => true end) = false).
  { destruct (use_fp (cfg c)); [|reflexivity]. destruct (find a_is_fp P) as [[| | | | | | | | | |[|]]|]; try discriminate. reflexivity. }
  set (m := {| m_class := m_class w; m_method := m_method w; m_id := m_id w; m_attrs := P |}).
  assert (HP : rfc_filter (m_attrs m) = P) by (unfold m, P; cbn [m_attrs]; apply rfc_filter_idem).
  assert (Hresp : is_response m = true).
  { unfold is_response, m. cbn [m_class]. destruct (m_class w); try discriminate Hcls; reflexivity. }
  assert (Hscan : st_scan true (rfc_filter (m_attrs m)) None None = Some (find a_is_mi P, find a_is_sha P)).
  { rewrite HP. apply st_scan_filtered; [apply rfc_filter_tail_ok|exact Hboth]. }
  pose proof (invalid_fails s P Hval) as Hf.
  destruct (response_classes m Hresp) as [Hreq Hind]. apply negb_true_iff in Hind.
  unfold step. cbn [negb]. cbv zeta. fold P. fold m.
  rewrite Hreq, Hresp. change (m_id m) with (m_id w). rewrite Hl. cbn [andb].
  change (m_attrs m) with P. rewrite Hfp1, Hfp2, Hmech, Hind.
  destruct (reliable (cfg c)) eqn:Hrel.
  - rewrite (st_reject_reliable (markers c) s m _ _ Hresp Hscan Hf).
    cbn [with_mech with_TH T mech_ cfg markers H].
    split; [reflexivity|]. split; [reflexivity|]. split; [apply lookup_remove_eq|]. split; reflexivity.
  - rewrite (st_reject_unreliable (markers c) s m _ _ Hresp Hscan Hf).
    cbn [with_mech with_TH T mech_ cfg markers H]. change (m_id m) with (m_id w).
    split; [reflexivity|]. split; [reflexivity|]. split; [apply mem_ins_self|]. repeat split; reflexivity.
Qed.

(* ================================================================== 4: the hypotheses are satisfiable *)
(* a fingerprint-checking short-term client with no agreed integrity kind and request 7 outstanding, and a success response
   whose only integrity attribute is a MESSAGE-INTEGRITY made with another password *)
Definition ex_cfg (rel:bool) : config := {| reliable := rel; cf_rm := 16; cf_rc := 7; limit := 10; use_fp := true |}.
Definition ex_req : msg :=
  {| m_class := CRequest; m_method := 1; m_id := 7; m_attrs := [UserName 0; AMI (KST 0); ASHA (KST 0); AFP true] |}.
Definition ex_client (rel:bool) : client :=
  {| cfg := ex_cfg rel; mech_ := MST {| st_agreed := None |}; markers := [];
     T := [(7, {| inst := Some 0; pkt := ex_req; tm := new_mgr (init (ex_cfg rel) MNone) 500 |})]; H := [(0, 500, 7)] |}.
Definition ex_bad : msg :=
  {| m_class := CSuccess; m_method := 1; m_id := 7; m_attrs := [App 32 1; AMI (KST 1); AFP true] |}.

Example bad_st_response_satisfiable : forall rel,
  bad_st_response (use_fp (cfg (ex_client rel))) None
                  (match lookup (m_id ex_bad) (T (ex_client rel)) with Some _ => true | None => false end) ex_bad = true.
Proof. intros [|]; vm_compute; reflexivity. Qed.

Example bad_st_response_reliable_example :
  step (ex_client true) (Recv 100 true ex_bad)
  = ({| cfg := ex_cfg true; mech_ := MST {| st_agreed := None |}; markers := []; T := []; H := [] |},
     ROk None, [Failed 7 ProtectionViolated]).
Proof. vm_compute. reflexivity. Qed.

Example bad_st_response_unreliable_example :
  step (ex_client false) (Recv 100 true ex_bad)
  = ({| cfg := ex_cfg false; mech_ := MST {| st_agreed := None |}; markers := [7];
        T := T (ex_client false); H := [(0, 500, 7)] |},
     RDiscarded, []).
Proof. vm_compute. reflexivity. Qed.

(* an absent integrity attribute, and one of the other kind than the agreed one, are rejected just the same *)
Definition ex_bare : msg := {| m_class := CError; m_method := 1; m_id := 7; m_attrs := [ErrorCode 400; AFP true] |}.
Definition ex_other : msg := {| m_class := CSuccess; m_method := 1; m_id := 7; m_attrs := [ASHA (KST 0); AFP true] |}.
Example bad_st_response_absent : bad_st_response true None true ex_bare = true.
Proof. vm_compute. reflexivity. Qed.
Example bad_st_response_other_kind : bad_st_response true (Some IMI) true ex_other = true.
Proof. vm_compute. reflexivity. Qed.

Print Assumptions bad_st_response_is_rejected.
