(* Lifting the RtoManager schedule theorem (Agent/Rto.v) to the full agent model (Agent/Model.v):
   every timer entry is the pending slot `t0 + slot k` of its transaction's manager, so a timer call at or after the
   deadline fails the transaction (in that very call), no earlier call does, and after a timer call nothing due is
   left. Port of the prototype Agent/ClientSched.v; here the RTO is per request (ghost map id |-> (t0, r)) and the
   multiplier / retry count are (1, 1) on reliable transport and (cf_rm, cf_rc) otherwise. *)
From Coq Require Import List NArith Lia Bool Arith Permutation.
Import ListNotations.
From Rustun Require Import Agent.Rto Agent.Model Proofs.AgentInv Proofs.AgentTrace.
Open Scope N_scope.

Lemma slot_mono_aux r rm rc : 1 <= rc -> forall (n:nat) a, a + N.of_nat n <= rc -> slot r rm rc a <= slot r rm rc (a + N.of_nat n).
Proof.
  intros Hrc. induction n as [|n IH]; intros a Ha.
  - replace (a + N.of_nat 0) with a by lia. lia.
  - replace (a + N.of_nat (S n)) with ((a + N.of_nat n) + 1) by lia.
    rewrite (slot_succ r rm rc Hrc (a + N.of_nat n)) by lia. specialize (IH a ltac:(lia)). lia.
Qed.
Lemma slot_mono r rm rc a b : 1 <= rc -> a <= b -> b <= rc -> slot r rm rc a <= slot r rm rc b.
Proof.
  intros Hrc Hab Hb. replace b with (a + N.of_nat (N.to_nat (b - a))) by lia. apply slot_mono_aux; [exact Hrc|lia].
Qed.

(* the schedule constants in force *)
Definition eff_rm (cf:config) : N := if reliable cf then 1 else cf_rm cf.
Definition eff_rc (cf:config) : N := if reliable cf then 1 else cf_rc cf.

Lemma new_mgr_fresh c r :
  latest (new_mgr c r) = None /\ mcalc (new_mgr c r) = calc_at r (eff_rm (cfg c)) (eff_rc (cfg c)) 0.
Proof.
  unfold new_mgr, eff_rm, eff_rc, calc_at. destruct (reliable (cfg c)); cbn [latest mcalc]; (split; [reflexivity|]).
  - reflexivity.
  - f_equal. lia.
Qed.

(* marker list helpers *)
Lemma mem_del_neq j id mk : j <> id -> mem j (del id mk) = mem j mk.
Proof.
  intros Hne. unfold mem, del. induction mk as [|y mk IH]; cbn [filter existsb]; [reflexivity|].
  destruct (N.eqb_spec y id) as [E|E]; cbn [negb existsb].
  - subst y. destruct (N.eqb_spec j id) as [E'|_]; [contradiction|]. cbn [orb]. exact IH.
  - rewrite IH. reflexivity.
Qed.
Lemma mem_del_eq id mk : mem id (del id mk) = false.
Proof.
  unfold mem, del. induction mk as [|y mk IH]; cbn [filter existsb]; [reflexivity|].
  destruct (N.eqb_spec y id) as [E|E]; cbn [negb existsb]; [exact IH|].
  destruct (N.eqb_spec id y) as [E'|_]; [congruence|]. cbn [orb]. exact IH.
Qed.

Lemma lookup_update_neq id j v t : id <> j -> lookup id (update_t j v t) = lookup id t.
Proof.
  intros Hne. induction t as [|[k x] r IH]; cbn [update_t lookup]; [reflexivity|].
  destruct (N.eqb_spec k j) as [E|E]; cbn [lookup].
  - subst. destruct (N.eqb_spec j id) as [E'|_]; [congruence|reflexivity].
  - destruct (N.eqb_spec k id) as [_|_]; [reflexivity|exact IH].
Qed.
Lemma lookup_update_eq id v t : lookup id t <> None -> lookup id (update_t id v t) = Some v.
Proof.
  induction t as [|[k x] r IH]; cbn [update_t lookup]; [congruence|]. destruct (N.eqb_spec k id) as [E|E]; cbn [lookup].
  - subst. rewrite N.eqb_refl. reflexivity.
  - intros Hl. destruct (N.eqb_spec k id) as [E'|_]; [contradiction|apply IH, Hl].
Qed.
Lemma lookup_remove_neq id j t : id <> j -> lookup id (remove_t j t) = lookup id t.
Proof.
  intros Hne. unfold remove_t. induction t as [|[k x] r IH]; cbn [filter lookup fst]; [reflexivity|].
  destruct (N.eqb_spec k j) as [E|E]; cbn [negb lookup].
  - subst. destruct (N.eqb_spec j id) as [E'|_]; [congruence|exact IH].
  - destruct (N.eqb_spec k id) as [_|_]; [reflexivity|exact IH].
Qed.
Lemma lookup_remove_eq id t : lookup id (remove_t id t) = None.
Proof.
  unfold remove_t. induction t as [|[k v] r IH]; cbn [filter lookup fst]; [reflexivity|].
  destruct (N.eqb_spec k id) as [E|E]; cbn [negb lookup]; [exact IH|].
  destruct (N.eqb_spec k id) as [E'|_]; [contradiction|exact IH].
Qed.

(* the reason a timed-out transaction fails with *)
Definition rsn (id:txid) (mk:list txid) : reason := if mem id mk then ProtectionViolated else TimedOut.

Section Sched.
Variable t0of : txid -> N.            (* ghost: the instant each request was first sent *)
Variable rof : txid -> N.             (* ghost: the RTO in force when it was sent *)

Definition entry_ok (c:client) (e:hent) : Prop :=
  exists x k, lookup (h_id e) (T c) = Some x /\ latest (tm x) = Some (fst (fst e)) /\ last_rto (tm x) = snd (fst e)
              /\ Minv (rof (h_id e)) (eff_rm (cfg c)) (eff_rc (cfg c)) (t0of (h_id e)) k (tm x).
Definition SInv (c:client) : Prop := 1 <= eff_rc (cfg c) /\ forall e, In e (H c) -> entry_ok c e.

(* the deadline of a request: the last slot of its schedule *)
Definition deadline (c:client) (id:txid) : N :=
  t0of id + slot (rof id) (eff_rm (cfg c)) (eff_rc (cfg c)) (eff_rc (cfg c)).

Lemma entry_expiry c e : entry_ok c e ->
  exists k, 1 <= k <= eff_rc (cfg c) /\ h_exp e = t0of (h_id e) + slot (rof (h_id e)) (eff_rm (cfg c)) (eff_rc (cfg c)) k.
Proof.
  intros (x & k & _ & Hl & Hr & (_ & Hk & l & Hl' & Hsum)). exists k. split; [exact Hk|].
  unfold h_exp. rewrite Hl in Hl'. inversion Hl'; subst l. rewrite <- Hr in *. exact Hsum.
Qed.

(* one due entry, processed by tmo_one *)
Lemma tmo_one_sched r rm rc now t h mk ev id x k :
  1 <= rc -> lookup id t = Some x -> Minv r rm rc (t0of id) k (tm x) -> t0of id + slot r rm rc k <= now ->
  let '(t', h', mk', ev') := tmo_one now (t, h, mk, ev) id in
  (t0of id + slot r rm rc rc <= now /\ ev' = ev ++ [Failed id (rsn id mk)] /\ t' = remove_t id t /\ h' = h /\ mk' = del id mk)
  \/ (now < t0of id + slot r rm rc rc /\ exists d k' m', k < k' <= rc /\ now < t0of id + slot r rm rc k' /\ now + d = t0of id + slot r rm rc k'
        /\ ev' = ev ++ [Out id false (pkt x)] /\ h' = (now, d, id) :: h /\ mk' = mk
        /\ t' = update_t id {| inst := None; pkt := pkt x; tm := m' |} t /\ Minv r rm rc (t0of id) k' m' /\ latest m' = Some now /\ last_rto m' = d).
Proof.
  intros Hrc Hl Hm Hexp. unfold tmo_one. rewrite Hl.
  destruct (next_rto_expired r rm rc Hrc (t0of id) k (tm x) now Hm Hexp) as [(k' & d & m' & Hn & Hk' & Hsum & Hlt & _ & Hm' & Hlat)|(m' & Hn & Hend)].
  - rewrite Hn. right. split.
    + pose proof (slot_mono r rm rc k' rc Hrc ltac:(lia) ltac:(lia)). lia.
    + exists d, k', m'. destruct Hm' as (Hc & Hk2 & l & Hl2 & Hs2). rewrite Hlat in Hl2. inversion Hl2; subst l.
      refine (conj Hk' (conj Hlt (conj Hsum (conj eq_refl (conj eq_refl (conj eq_refl (conj eq_refl (conj _ (conj Hlat _))))))))).
      * exact (conj Hc (conj Hk2 (ex_intro _ now (conj Hlat Hs2)))).
      * lia.
  - rewrite Hn. left. repeat split; try reflexivity. exact Hend.
Qed.
End Sched.

Section Lift.
Variable t0of : txid -> N.
Variable rof : txid -> N.
Variables (rm rc now : N).
Hypothesis Hrc : 1 <= rc.
Notation dl id := (t0of id + slot (rof id) rm rc rc).

Definition tx_ok (t:list (txid*txn)) (e:hent) : Prop :=
  exists x k, lookup (h_id e) t = Some x /\ latest (tm x) = Some (fst (fst e)) /\ last_rto (tm x) = snd (fst e)
              /\ Minv (rof (h_id e)) rm rc (t0of (h_id e)) k (tm x).
Definition due_ok (t:list (txid*txn)) (id:txid) : Prop :=
  exists x k, lookup id t = Some x /\ Minv (rof id) rm rc (t0of id) k (tm x) /\ t0of id + slot (rof id) rm rc k <= now.

Definition FS (t:list (txid*txn)) (h:list hent) (pending:list txid) : Prop :=
  NoDup (ids_h h ++ pending)
  /\ (forall id, In id pending -> due_ok t id)
  /\ (forall e, In e h -> now < h_exp e /\ tx_ok t e).

Lemma tx_ok_other t t' e : (forall j, j = h_id e -> lookup j t' = lookup j t) -> tx_ok t e -> tx_ok t' e.
Proof. intros Hsame (x & k & Hl & H1 & H2 & H3). exists x, k. rewrite (Hsame _ eq_refl). auto. Qed.

Lemma tmo_one_FS t h mk ev id pending :
  FS t h (id :: pending) ->
  let '(t', h', mk', ev') := tmo_one now (t, h, mk, ev) id in
  FS t' h' pending
  /\ ((dl id <= now /\ ev' = ev ++ [Failed id (rsn id mk)] /\ lookup id t' = None /\ mk' = del id mk)
      \/ (now < dl id /\ (exists p, ev' = ev ++ [Out id false p]) /\ mk' = mk))
  /\ (forall j, j <> id -> lookup j t' = lookup j t).
Proof.
  intros (Hnd & Hdue & Hh).
  destruct (Hdue id (or_introl eq_refl)) as (x & k & Hl & Hm & Hexp).
  pose proof (tmo_one_sched t0of (rof id) rm rc now t h mk ev id x k Hrc Hl Hm Hexp) as Hs.
  assert (Hnd' : NoDup (ids_h h ++ pending) /\ ~ In id (ids_h h) /\ ~ In id pending).
  { apply NoDup_remove in Hnd as [A B]. split; [exact A|]. split; intros Hin; apply B; apply in_or_app; auto. }
  destruct Hnd' as (Hnd1 & Hnih & Hnip).
  destruct (tmo_one now (t, h, mk, ev) id) as [[[t' h'] mk'] ev'].
  destruct Hs as [(Hend & Hev & Ht & Hhh & Hmk)|(Hlt & d & k' & m' & Hk' & Hnow & Hsum & Hev & Hhh & Hmk & Ht & Hm' & Hlat & Hlr)];
    subst t' h' ev' mk'.
  - assert (Hother : forall j, j <> id -> lookup j (remove_t id t) = lookup j t) by (intros j Hj; apply lookup_remove_neq; exact Hj).
    split; [|split; [|exact Hother]].
    + refine (conj Hnd1 (conj _ _)).
      * intros j Hj. destruct (Hdue j (or_intror Hj)) as (y & ky & A & B & C). exists y, ky. rewrite Hother by (intros ->; contradiction). auto.
      * intros e He. destruct (Hh e He) as [A B]. split; [exact A|]. apply (tx_ok_other t); [|exact B].
        intros j ->. apply Hother. intros Heq. apply Hnih. rewrite <- Heq. apply in_map. exact He.
    + left. refine (conj Hend (conj eq_refl (conj _ eq_refl))). apply lookup_remove_eq.
  - set (x' := {| inst := None; pkt := pkt x; tm := m' |}).
    assert (Hother : forall j, j <> id -> lookup j (update_t id x' t) = lookup j t) by (intros j Hj; apply lookup_update_neq; exact Hj).
    split; [|split; [|exact Hother]].
    + refine (conj _ (conj _ _)).
      * cbn [ids_h map h_id snd app]. constructor; [|exact Hnd1]. intros Hin. apply in_app_or in Hin as [Hin|Hin]; contradiction.
      * intros j Hj. destruct (Hdue j (or_intror Hj)) as (y & ky & A & B & C). exists y, ky. rewrite Hother by (intros ->; contradiction). auto.
      * intros e [<-|He].
        -- split; [unfold h_exp; cbn [fst snd]; lia|]. exists x', k'. cbn [h_id snd fst].
           rewrite lookup_update_eq by congruence. cbn [tm x']. auto.
        -- destruct (Hh e He) as [A B]. split; [exact A|]. apply (tx_ok_other t); [|exact B].
           intros j ->. apply Hother. intros Heq. apply Hnih. rewrite <- Heq. apply in_map. exact He.
    + right. split; [exact Hlt|]. split; [exists (pkt x); reflexivity|reflexivity].
Qed.

(* later steps of the fold never touch an id that is not pending *)
Lemma tmo_fold_keep id : forall pend t h mk ev,
  ~ In id pend -> FS t h pend ->
  let '(t', _, mk', ev') := fold_left (tmo_one now) pend (t, h, mk, ev) in
  lookup id t' = lookup id t /\ (forall e, In e ev -> In e ev') /\ mem id mk' = mem id mk.
Proof.
  induction pend as [|j pend IHp]; intros t h mk ev Hni Hf; cbn [fold_left]; [repeat split; auto|].
  pose proof (tmo_one_FS t h mk ev j pend Hf) as H1. destruct (tmo_one now (t, h, mk, ev) j) as [[[t3 h3] mk3] ev3].
  destruct H1 as (Hf3 & Hc & Ho).
  assert (Hne : id <> j) by (intros ->; apply Hni; left; reflexivity).
  specialize (IHp t3 h3 mk3 ev3 ltac:(intros Hin; apply Hni; right; exact Hin) Hf3).
  destruct (fold_left (tmo_one now) pend (t3, h3, mk3, ev3)) as [[[t' h'] mk'] ev'].
  destruct IHp as (A & B & C). refine (conj _ (conj _ _)).
  - etransitivity; [exact A|]. apply Ho. exact Hne.
  - intros e He. apply B. destruct Hc as [(_ & -> & _)|(_ & (p & ->) & _)]; apply in_or_app; left; exact He.
  - rewrite C. destruct Hc as [(_ & _ & _ & ->)|(_ & _ & ->)]; [apply mem_del_neq; exact Hne|reflexivity].
Qed.

Lemma tmo_fold_FS : forall pending t h mk ev,
  FS t h pending ->
  let '(t', h', mk', ev') := fold_left (tmo_one now) pending (t, h, mk, ev) in
  FS t' h' []
  /\ (forall id, In id pending -> dl id <= now -> In (Failed id (rsn id mk)) ev' /\ lookup id t' = None /\ mem id mk' = false)
  /\ (forall id rs, In (Failed id rs) ev' -> In (Failed id rs) ev \/ (In id pending /\ dl id <= now /\ rs = rsn id mk))
  /\ (forall e, In e ev -> In e ev')
  /\ (forall j, ~ In j pending -> mem j mk' = mem j mk /\ lookup j t' = lookup j t)
  /\ (forall id p, In (Out id false p) ev' -> In (Out id false p) ev \/ (In id pending /\ now < dl id)).
Proof.
  induction pending as [|id pending IH]; intros t h mk ev Hfs; cbn [fold_left].
  - refine (conj Hfs (conj _ (conj _ (conj _ (conj _ _))))); [intros id []|intros id rs Hin; left; exact Hin|auto|auto|auto].
  - pose proof (tmo_one_FS t h mk ev id pending Hfs) as H1.
    assert (Hnip : ~ In id pending).
    { destruct Hfs as (Hnd & _). apply NoDup_remove in Hnd as [_ B]. intros Hin; apply B; apply in_or_app; right; exact Hin. }
    destruct (tmo_one now (t, h, mk, ev) id) as [[[t1 h1] mk1] ev1]. destruct H1 as (Hfs1 & Hcase & Hother).
    specialize (IH t1 h1 mk1 ev1 Hfs1).
    pose proof (tmo_fold_keep id pending t1 h1 mk1 ev1 Hnip Hfs1) as Hkeep.
    destruct (fold_left (tmo_one now) pending (t1, h1, mk1, ev1)) as [[[t' h'] mk'] ev'].
    destruct IH as (Hfs' & Hfail & Hconv & Hmono & Hstab & Hretx). destruct Hkeep as (Hk1 & Hk2 & Hk3).
    assert (Hrsn : forall j, j <> id -> rsn j mk1 = rsn j mk).
    { intros j Hj. unfold rsn. destruct Hcase as [(_ & _ & _ & ->)|(_ & _ & ->)]; [rewrite mem_del_neq by exact Hj|]; reflexivity. }
    refine (conj Hfs' (conj _ (conj _ (conj _ (conj _ _))))).
    + intros j [<-|Hj] Hd.
      * destruct Hcase as [(_ & Hev & Hnone & Hmk)|(Hlt & _)]; [|lia]. refine (conj _ (conj _ _)).
        -- apply Hk2. rewrite Hev. apply in_or_app; right; left; reflexivity.
        -- congruence.
        -- rewrite Hk3, Hmk. apply mem_del_eq.
      * rewrite <- (Hrsn j) by (intros ->; contradiction). apply Hfail; assumption.
    + intros j rs Hin. destruct (Hconv j rs Hin) as [Hin1|(Hp & Hd & Hrs)].
      * destruct Hcase as [(Hd & -> & _)|(_ & (p & ->) & _)]; apply in_app_or in Hin1 as [Hin1|[Heq|[]]]; auto; try discriminate.
        inversion Heq; subst. right. split; [left; reflexivity|]. split; [exact Hd|reflexivity].
      * right. split; [right; exact Hp|]. split; [exact Hd|]. rewrite Hrs. apply Hrsn. intros ->. contradiction.
    + intros e He. apply Hmono. destruct Hcase as [(_ & -> & _)|(_ & (p & ->) & _)]; apply in_or_app; left; exact He.
    + intros j Hj. assert (Hne : j <> id) by (intros ->; apply Hj; left; reflexivity).
      destruct (Hstab j ltac:(intros Hin; apply Hj; right; exact Hin)) as [A B]. split.
      * rewrite A. destruct Hcase as [(_ & _ & _ & ->)|(_ & _ & ->)]; [apply mem_del_neq; exact Hne|reflexivity].
      * rewrite B. apply Hother. exact Hne.
    + intros j p Hin. destruct (Hretx j p Hin) as [Hin1|(Hp & Hd)]; [|right; split; [right; exact Hp|exact Hd]].
      destruct Hcase as [(_ & -> & _)|(Hlt & (q & ->) & _)]; apply in_app_or in Hin1 as [Hin1|[Heq|[]]]; auto; try discriminate.
      inversion Heq; subst. right. split; [left; reflexivity|exact Hlt].
Qed.
End Lift.

Section Final.
Variable t0of : txid -> N.
Variable rof : txid -> N.

(* C06 / C11 on the real model: one call of on_timeout(now) *)
Theorem tmo_deadline c now :
  Inv c -> SInv t0of rof c ->
  let '(c', _, ev) := step c (Tmo now) in
  SInv t0of rof c'
  /\ (forall e, In e (H c') -> now < h_exp e)                                   (* C11: nothing due is left *)
  /\ (forall id, In id (ids_t (T c)) -> deadline t0of rof c id <= now ->
        In (Failed id (rsn id (markers c))) ev /\ ~ In id (ids_t (T c')) /\ mem id (markers c') = false)
                                                                               (* fails in the first call at or after the deadline *)
  /\ (forall id rs, In (Failed id rs) ev ->
        deadline t0of rof c id <= now /\ rs = rsn id (markers c) /\ In id (ids_t (T c)))    (* C06: never earlier *)
  /\ (forall id p, In (Out id false p) ev -> now < deadline t0of rof c id /\ In id (ids_t (T c'))).
                                                                               (* no retransmission at or after the deadline *)
Proof.
  intros Hinv (Hrc & Hent). pose proof Hinv as (Ht & Hh & Heq).
  pose proof (step_events_spec c (Tmo now) Hinv I) as Hspec. cbn [step] in *.
  set (due := filter (fun e => h_exp e <=? now) (H c)) in *.
  set (keep := filter (fun e => negb (h_exp e <=? now)) (H c)) in *.
  assert (Hperm : Permutation (ids_h (H c)) (ids_h keep ++ map h_id due)).
  { unfold ids_h. rewrite <- map_app. apply Permutation_map. apply filter_split_perm. }
  assert (Hfs : FS t0of rof (eff_rm (cfg c)) (eff_rc (cfg c)) now (T c) keep (map h_id due)).
  { refine (conj _ (conj _ _)).
    - eapply Permutation_NoDup; [exact Hperm|exact Hh].
    - intros id Hin. apply in_map_iff in Hin as (e & <- & He). apply filter_In in He as [He Hd]. apply N.leb_le in Hd.
      destruct (Hent e He) as (x & k & Hl & Hla & Hlr & Hm). exists x, k. refine (conj Hl (conj Hm _)).
      destruct Hm as (_ & _ & l & Hl' & Hsum). rewrite Hla in Hl'. inversion Hl'; subst l. unfold h_exp in Hd. rewrite <- Hlr in Hd.
      clear - Hd Hsum. lia.
    - intros e He. apply filter_In in He as [He Hd]. apply negb_true_iff, N.leb_gt in Hd. split; [exact Hd|].
      destruct (Hent e He) as (x & k & A). exists x, k. exact A. }
  pose proof (tmo_fold_FS t0of rof (eff_rm (cfg c)) (eff_rc (cfg c)) now Hrc (map h_id due) (T c) keep (markers c) [] Hfs) as Hf.
  destruct (fold_left (tmo_one now) (map h_id due) (T c, keep, markers c, [])) as [[[t' h'] mk'] ev].
  destruct Hf as ((_ & _ & Hh') & Hfail & Hconv & _ & _ & Hretx).
  destruct Hspec as (_ & _ & Hlive & _).
  unfold deadline. cbn [H T cfg markers].
  refine (conj _ (conj _ (conj _ (conj _ _)))).
  - split; [exact Hrc|]. cbn [H]. intros e He. destruct (Hh' e He) as [_ (x & k & A)]. exists x, k. exact A.
  - intros e He. apply (Hh' e He).
  - intros id Hid Hd. apply Heq in Hid. apply in_map_iff in Hid as (e & <- & He).
    assert (Hdue : In (h_id e) (map h_id due)).
    { apply in_map. apply filter_In. split; [exact He|]. apply N.leb_le.
      destruct (entry_expiry t0of rof c e (Hent e He)) as (k & Hk & ->).
      pose proof (slot_mono (rof (h_id e)) (eff_rm (cfg c)) (eff_rc (cfg c)) k (eff_rc (cfg c)) Hrc ltac:(lia) ltac:(lia)) as Hmono. clear - Hmono Hd. lia. }
    destruct (Hfail _ Hdue Hd) as (A & B & C). refine (conj _ (conj _ C)).
    + apply in_or_app; left; exact A.
    + apply lookup_none_notin. exact B.
  - intros id rs Hin. apply in_app_or in Hin as [Hin|Hin].
    + destruct (Hconv id rs Hin) as [[]|(Hp & Hd & Hrs)]. refine (conj Hd (conj Hrs _)).
      apply Heq. apply in_map_iff in Hp as (e & <- & He). apply in_map. apply filter_In in He as [He _]. exact He.
    + apply notif_ids in Hin as (m & _ & Hin). discriminate.
  - intros id p Hin. split.
    + apply in_app_or in Hin as [Hin|Hin].
      * destruct (Hretx id p Hin) as [[]|(_ & Hd)]. exact Hd.
      * apply notif_ids in Hin as (m & _ & Hin). discriminate.
    + apply (Hlive (Out id false p) id Hin eq_refl).
Qed.
End Final.

Section Preserve.
Variable t0of : txid -> N.
Variable rof : txid -> N.

Lemma sinv_same c c' : cfg c' = cfg c -> T c' = T c -> H c' = H c -> SInv t0of rof c -> SInv t0of rof c'.
Proof.
  intros Hc HT HH (Hrc & Hent). unfold SInv, entry_ok. rewrite Hc, HT, HH. split; [exact Hrc|exact Hent].
Qed.

Lemma sinv_remove c c' id :
  cfg c' = cfg c -> T c' = remove_t id (T c) -> H c' = remove_h id (H c) -> SInv t0of rof c -> SInv t0of rof c'.
Proof.
  intros Hc HT HH (Hrc & Hent). unfold SInv, entry_ok. rewrite Hc, HT, HH. split; [exact Hrc|].
  intros e He. unfold remove_h in He. apply filter_In in He as [He Hne].
  apply negb_true_iff, N.eqb_neq in Hne. destruct (Hent e He) as (x & k & A & B).
  exists x, k. split; [|exact B]. rewrite lookup_remove_neq by exact Hne. exact A.
Qed.

Lemma sinv_recv c now d w : SInv t0of rof c -> SInv t0of rof (fst (fst (step c (Recv now d w)))).
Proof.
  intros Hs.
  destruct (step_recv_cases c now d w) as [(rep & -> & _)|[(mk & -> & _)|[(_ & mech' & mk & ->)|(_ & _ & mech' & mk & ev & -> & _)]]];
    cbn [fst]; try exact Hs.
  eapply sinv_remove; [| | |exact Hs]; reflexivity.
Qed.

Lemma sinv_indication c id method app room : SInv t0of rof c -> SInv t0of rof (fst (fst (step c (Indication id method app room)))).
Proof. intros Hs. rewrite indication_state. exact Hs. Qed.

Lemma sinv_tmo c now : Inv c -> SInv t0of rof c -> SInv t0of rof (fst (fst (step c (Tmo now)))).
Proof.
  intros Hi Hs. pose proof (tmo_deadline t0of rof c now Hi Hs) as Hd.
  destruct (step c (Tmo now)) as [[c' rep] ev]. apply Hd.
Qed.

Lemma sinv_send c now id r method app room :
  Inv c -> SInv t0of rof c -> ~ In id (ids_t (T c)) -> t0of id = now -> rof id = r ->
  SInv t0of rof (fst (fst (step c (Send now id r method app room)))).
Proof.
  intros (Ht & Hh & Heq) (Hrc & Hent) Hfresh Ht0 Hr0.
  destruct (step_send_cases c now id r method app room) as [(rep & -> & _)|(a & d & m1 & _ & _ & Hn & ->)]; cbn [fst].
  { split; assumption. }
  destruct (new_mgr_fresh c r) as [Hlat Hcalc].
  destruct (next_rto_first r (eff_rm (cfg c)) (eff_rc (cfg c)) Hrc now (new_mgr c r) Hlat Hcalc) as (m' & Hn' & Hm).
  rewrite Hn in Hn'. inversion Hn'; subst d m'. clear Hn'.
  assert (Hl1 : latest m1 = Some now /\ last_rto m1 = slot r (eff_rm (cfg c)) (eff_rc (cfg c)) 1).
  { unfold next_rto in Hn. rewrite Hlat in Hn. destruct (calc_next (mcalc (new_mgr c r))) as [[t cc]|]; inversion Hn; subst.
    cbn [latest last_rto]. split; reflexivity. }
  destruct Hl1 as [Hl1 Hl2].
  split; [exact Hrc|]. unfold with_TH; cbn [H T cfg]. intros e [<-|He]; unfold entry_ok; cbn [T cfg].
  - eexists _, 1. cbn [h_id snd fst lookup tm]. rewrite N.eqb_refl.
    rewrite Ht0, Hr0. refine (conj eq_refl (conj Hl1 (conj Hl2 Hm))).
  - destruct (Hent e He) as (x & k & A & B). exists x, k. split; [|exact B]. cbn [lookup].
    destruct (N.eqb_spec id (h_id e)) as [E|_]; [|exact A].
    exfalso. apply Hfresh. apply Heq. rewrite E. apply in_map. exact He.
Qed.

(* the ghost map records every Send *)
Definition ghost_op (o:op) : Prop :=
  match o with Send now id r _ _ _ => t0of id = now /\ rof id = r | _ => True end.

Theorem sinv_step c o : Inv c -> SInv t0of rof c -> fresh_for c o -> ghost_op o -> SInv t0of rof (fst (fst (step c o))).
Proof.
  intros Hi Hs Hf Hg. destruct o as [now id r method app room|id method app room|now d w|now].
  - destruct Hg as [Hg1 Hg2]. apply sinv_send; assumption.
  - apply sinv_indication; assumption.
  - apply sinv_recv; assumption.
  - apply sinv_tmo; assumption.
Qed.

Lemma sinv_init cf m : 1 <= eff_rc cf -> SInv t0of rof (init cf m).
Proof. intros Hrc. split; [exact Hrc|]. intros e []. Qed.

(* along any run with never-reused ids whose Sends agree with the ghost map, both invariants hold throughout *)
Lemma run_sinv : forall ops c used,
  Inv c -> SInv t0of rof c -> (forall y, In y (ids_t (T c)) -> In y used) -> fresh_trace used ops -> Forall ghost_op ops ->
  Inv (fst (run c ops)) /\ SInv t0of rof (fst (run c ops)).
Proof.
  induction ops as [|o r IH]; intros c used Hinv Hs Hused Hfr Hg; cbn [run]; [split; assumption|].
  destruct Hfr as [Hfo Hfr]. inversion Hg as [|? ? Hg1 Hg2]; subst.
  assert (Hff : fresh_for c o).
  { destruct o as [n i rr me ap ro| | |]; cbn [fresh_for fresh_op] in *; try exact I.
    intros Hin. apply Hfo. apply Hused. exact Hin. }
  pose proof (sinv_step c o Hinv Hs Hff Hg1) as Hs1.
  pose proof (step_setup c o used Hinv Hused Hfo) as Hset.
  destruct (step c o) as [[c1 rep] ev]. cbn [fst] in Hs1. destruct Hset as ((Hinv1 & _) & Hused1).
  specialize (IH c1 (used_step used o) Hinv1 Hs1 Hused1 Hfr Hg2).
  destruct (run c1 r) as [c2 evs]. exact IH.
Qed.

(* the schedule theorem at any point of a run *)
Theorem run_tmo_deadline c ops now :
  Inv c -> SInv t0of rof c -> fresh_trace (ids_t (T c)) ops -> Forall ghost_op ops ->
  let c1 := fst (run c ops) in
  let '(c', _, ev) := step c1 (Tmo now) in
  SInv t0of rof c'
  /\ (forall e, In e (H c') -> now < h_exp e)
  /\ (forall id, In id (ids_t (T c1)) -> deadline t0of rof c1 id <= now ->
        In (Failed id (rsn id (markers c1))) ev /\ ~ In id (ids_t (T c')) /\ mem id (markers c') = false)
  /\ (forall id rs, In (Failed id rs) ev ->
        deadline t0of rof c1 id <= now /\ rs = rsn id (markers c1) /\ In id (ids_t (T c1)))
  /\ (forall id p, In (Out id false p) ev -> now < deadline t0of rof c1 id /\ In id (ids_t (T c'))).
Proof.
  intros Hinv Hs Hfr Hg c1.
  destruct (run_sinv ops c (ids_t (T c)) Hinv Hs (fun y Hy => Hy) Hfr Hg) as [Hinv1 Hs1].
  exact (tmo_deadline t0of rof c1 now Hinv1 Hs1).
Qed.
End Preserve.

(* non-vacuity: the default configuration (Rm = 16, Rc = 7, RTO 500) on an unreliable transport gives the RFC
   deadline 39500 ms; on a reliable transport the deadline is the single timeout *)
Example default_deadline :
  let c := init {| reliable := false; cf_rm := 16; cf_rc := 7; limit := 10; use_fp := false |} MNone in
  deadline (fun _ => 0) (fun _ => 500) c 1 = 39500.
Proof. vm_compute. reflexivity. Qed.
Example reliable_deadline :
  let c := init {| reliable := true; cf_rm := 16; cf_rc := 7; limit := 10; use_fp := false |} MNone in
  deadline (fun _ => 0) (fun _ => 39500) c 1 = 39500.
Proof. vm_compute. reflexivity. Qed.

Print Assumptions tmo_deadline.
Print Assumptions sinv_step.
Print Assumptions run_sinv.
Print Assumptions run_tmo_deadline.
