From Coq Require Import List NArith Lia Bool Arith.
Import ListNotations.
From Rustun Require Import Base.Tlv Crypto.Crc Crypto.Sha256 Crypto.Sha1Md5 Codec.Filter Codec.DecodeLoop Codec.InputText Codec.Wire.
Open Scope N_scope.

Fixpoint filter_pos (bs:list bool) (l:list N) : list N :=
  match bs, l with b :: bs', a :: l' => if b then a :: filter_pos bs' l' else filter_pos bs' l' | _, _ => [] end.
Lemma map_keep : forall bs (r:list (N * (N * bytes))), map w_pos (keep _ bs r) = filter_pos bs (map w_pos r).
Proof.
  induction bs as [|b bs IH]; intros r; destruct r as [|a r]; cbn [keep map filter_pos]; try reflexivity.
  destruct b; cbn [map]; rewrite IH; reflexivity.
Qed.

Section WireProofs.
Variable dec_ok : bool -> bytes -> N -> bytes -> option bool.

Definition set_validate (c:wctx) (v:bool) : wctx :=
  {| w_key := w_key c; w_opts := with_validate (w_opts c) v |}.
Definition set_not_ignore (c:wctx) (n:bool) : wctx :=
  {| w_key := w_key c; w_opts := with_not_ignore (w_opts c) n |}.

(* C18: a decoder built without a context behaves like one built with the default context *)
Lemma none_is_default b : decode dec_ok None b = decode dec_ok (Some default_wctx) b.
Proof. reflexivity. Qed.

(* C18: if decoding with validation succeeds, decoding without validation succeeds with the same message *)
Theorem validation_monotone c b s p :
  decode dec_ok (Some (set_validate c true)) b = WOk s p -> decode dec_ok (Some (set_validate c false)) b = WOk s p.
Proof.
  unfold decode. cbn [set_validate w_opts w_key with_validate o_unknown].
  destruct (negb (hdr_valid b)); [discriminate|].
  destruct (len b <? 20 + msg_length b); [discriminate|].
  destruct (dec_tlvs (length b) (take (msg_length b) (drop 20 b))) as [tlvs| |]; try discriminate.
  match goal with |- context [existsb ?f tlvs] => destruct (existsb f tlvs) end; [discriminate|].
  match goal with |- context [loop ?A ?T ?k ?d ?v (with_validate ?o true) ?f ?l] =>
    destruct (loop A T k d v (with_validate o true) f l) as [r|] eqn:E; [|discriminate];
    rewrite (C18_validation_monotone A T k d v l o f r E) end.
  intros H. exact H.
Qed.

(* C18 / C09: without validation, decoding with the ordering rule disabled and enabled succeed together; the default
   result is the sub-list of ALL wire attributes selected by the admission rule of the property text *)
Theorem not_ignore_superset c b :
  o_validate (w_opts c) = false ->
  match decode dec_ok (Some (set_not_ignore c true)) b with
  | WOk s all => exists sub, decode dec_ok (Some (set_not_ignore c false)) b = WOk s sub /\
                             exists bs, sub = filter_pos bs all
  | WErr => decode dec_ok (Some (set_not_ignore c false)) b = WErr
  | WPanic => decode dec_ok (Some (set_not_ignore c false)) b = WPanic
  | WUnmodelled => decode dec_ok (Some (set_not_ignore c false)) b = WUnmodelled
  end.
Proof.
  intros Hv. unfold decode. cbn [set_not_ignore w_opts w_key with_not_ignore o_unknown].
  destruct (negb (hdr_valid b)); [reflexivity|].
  destruct (len b <? 20 + msg_length b); [reflexivity|].
  destruct (dec_tlvs (length b) (take (msg_length b) (drop 20 b))) as [tlvs| |]; try reflexivity.
  match goal with |- context [existsb ?f tlvs] => destruct (existsb f tlvs) end; [reflexivity|].
  match goal with |- context [loop ?A ?T ?k ?d ?v (with_not_ignore ?o true) ?f ?l] =>
    pose proof (C18_not_ignore_superset A T k d v l o f Hv) as G;
    destruct (loop A T k d v (with_not_ignore o true) f l) as [r|] end.
  - rewrite G. eexists. split; [reflexivity|]. eexists. apply map_keep.
  - rewrite G. reflexivity.
Qed.
End WireProofs.

(* ------------------------------------------------------------------ C04 / C10: what is hashed, what is accepted *)
Lemma bytes_eqb_eq : forall a b, bytes_eqb a b = true <-> a = b.
Proof.
  induction a as [|x a IH]; intros [|y b]; cbn [bytes_eqb]; try (split; [discriminate|discriminate]); [tauto|].
  rewrite andb_true_iff, N.eqb_eq, IH. split; [intros [-> ->]; reflexivity|intros H; inversion H; auto].
Qed.

(* acceptance of ANY buffer means: its own first integrity attribute equals the RFC HMAC of its own input text *)
Theorem accept_iff_mac_sha1 k b p v :
  verify_attr (Some k) b (p, (T_MI, v)) = true <-> exists t, input_text b T_MI = Ok t /\ hmac_sha1 k t = v.
Proof.
  unfold verify_attr. cbn [w_ty w_val fst snd]. change (T_MI =? T_MI) with true. cbv iota.
  destruct (input_text b T_MI) as [t| |]; rewrite ?bytes_eqb_eq.
  - split; [intros H; exists t; auto|intros (t' & E & H); congruence].
  - split; [discriminate|intros (t' & E & _); discriminate].
  - split; [discriminate|intros (t' & E & _); discriminate].
Qed.
Theorem accept_iff_mac_sha256 k b p v :
  verify_attr (Some k) b (p, (T_SHA, v)) = true <-> exists t, input_text b T_SHA = Ok t /\ hmac_sha256 k t = v.
Proof.
  unfold verify_attr. cbn [w_ty w_val fst snd]. change (T_SHA =? T_MI) with false. change (T_SHA =? T_SHA) with true. cbv iota.
  destruct (input_text b T_SHA) as [t| |]; rewrite ?bytes_eqb_eq.
  - split; [intros H; exists t; auto|intros (t' & E & H); congruence].
  - split; [discriminate|intros (t' & E & _); discriminate].
  - split; [discriminate|intros (t' & E & _); discriminate].
Qed.
Theorem no_key_no_accept b p v : verify_attr None b (p, (T_MI, v)) = false /\ verify_attr None b (p, (T_SHA, v)) = false.
Proof. split; reflexivity. Qed.
Theorem accept_iff_crc b p v :
  verify_attr None b (p, (T_FP, v)) = true <->
  exists s t, rd32 v = Some s /\ input_text b T_FP = Ok t /\ N.lxor s 0x5354554e = crc32 t.
Proof.
  unfold verify_attr. cbn [w_ty w_val fst snd].
  change (T_FP =? T_MI) with false. change (T_FP =? T_SHA) with false. change (T_FP =? T_FP) with true. cbv iota.
  destruct (rd32 v) as [s|]; [|split; [discriminate|intros (s' & t & E & _); discriminate]].
  unfold fp_validate. destruct (input_text b T_FP) as [t| |].
  - rewrite N.eqb_eq. split; [intros H; exists s, t; auto|intros (s' & t' & E1 & E2 & H); congruence].
  - split; [discriminate|intros (s' & t' & _ & E & _); discriminate].
  - split; [discriminate|intros (s' & t' & _ & E & _); discriminate].
Qed.

(* the walk of get_input_text stops at the first attribute of the type and reports where it starts and ends *)
Lemma find_attr_hit f t pos v rest : t < 65536 -> len v < 65536 ->
  find_attr (S f) t pos (enc_tlv (t, v) ++ rest) = Ok (Some (pos, pos + 4 + (len v + pad (len v)))).
Proof.
  intros Ht Hv. unfold enc_tlv, be16. cbn [fst snd app find_attr]. rewrite !rd16_be16 by assumption.
  set (r := (v ++ zeros (pad (len v))) ++ rest).
  assert (Hr : len r = len v + pad (len v) + len rest) by (unfold r; rewrite !len_app, len_zeros; lia).
  assert ((len r <? len v) = false) as -> by (apply N.ltb_ge; lia).
  assert ((len r <? len v + pad (len v)) = false) as -> by (apply N.ltb_ge; lia).
  rewrite N.eqb_refl. reflexivity.
Qed.

Lemma enc_tlvs_count l : (length l <= length (enc_tlvs l))%nat.
Proof.
  induction l as [|a l IH]; [cbn; lia|]. unfold enc_tlvs in *. cbn [flat_map]. rewrite app_length.
  assert (4 <= length (enc_tlv a))%nat by (unfold enc_tlv, be16; cbn [app length]; lia). cbn [length]. lia.
Qed.

(* RFC 8489 14.5 / 14.6 / 14.7: the text the validator recomputes for an attribute (t, v) that follows attributes l (none
   of type t) is the message up to that attribute with the header length set to the end of that attribute — whatever
   follows the attribute *)
Theorem input_text_general typ txid l t v rest :
  typ < 65536 -> length txid = 12%nat -> forallb tlv_ok l = true -> t < 65536 -> len v < 65536 ->
  (forall a, In a l -> fst a <> t) ->
  len (enc_tlvs l ++ enc_tlv (t, v) ++ rest) < 65536 ->
  input_text (InputText.header typ (len (enc_tlvs l ++ enc_tlv (t, v) ++ rest)) txid ++ enc_tlvs l ++ enc_tlv (t, v) ++ rest) t
  = Ok (InputText.header typ (len (enc_tlvs l) + len (enc_tlv (t, v))) txid ++ enc_tlvs l).
Proof.
  intros Htyp Htx Hok Ht Hv Hne Hlen.
  set (body := enc_tlvs l ++ enc_tlv (t, v) ++ rest) in *. set (L := len body) in *.
  assert (Hh : forall x, len (InputText.header typ x txid) = 20).
  { intros x. unfold InputText.header, be16, InputText.cookie_bytes. rewrite !len_app. unfold len. cbn [length]. rewrite Htx. reflexivity. }
  unfold input_text. unfold InputText.header at 1, be16 at 1 2. cbn [app]. rewrite rd16_be16 by exact Hlen.
  fold (be16 typ). fold (be16 L).
  change (be16 typ ++ be16 L ++ InputText.cookie_bytes ++ txid) with (InputText.header typ L txid).
  set (whole := InputText.header typ L txid ++ body).
  assert (Hw : len whole = 20 + L) by (unfold whole; rewrite len_app, Hh; reflexivity).
  change ((typ / 256 :: typ mod 256 :: L / 256 :: L mod 256 :: (InputText.cookie_bytes ++ txid)) ++ body) with whole.
  assert ((len whole <? 20 + L) = false) as -> by (apply N.ltb_ge; lia).
  assert (Hd : drop 20 whole = body) by (unfold whole; rewrite <- (Hh L); apply drop_app_exact).
  rewrite Hd. rewrite take_all by (unfold L; lia).
  unfold body at 1. rewrite find_attr_skip; [| exact Hok | exact Hne |].
  2:{ pose proof (enc_tlvs_count l). unfold whole, body. rewrite !app_length. lia. }
  remember (length whole - length l)%nat as fuel eqn:Hfuel.
  destruct fuel as [|f].
  { exfalso. pose proof (enc_tlvs_count l). unfold whole, body in Hfuel. rewrite !app_length in Hfuel.
    assert (4 <= length (enc_tlv (t, v)))%nat by (unfold enc_tlv, be16; cbn [app length]; lia). lia. }
  rewrite (find_attr_hit f t _ v rest Ht Hv).
  f_equal.
  assert (Htk : take (20 + (0 + len (enc_tlvs l))) whole = InputText.header typ L txid ++ enc_tlvs l).
  { unfold whole, body. rewrite app_assoc.
    replace (20 + (0 + len (enc_tlvs l))) with (len (InputText.header typ L txid ++ enc_tlvs l)) by (rewrite len_app, Hh; lia).
    apply take_app_exact. }
  rewrite Htk. unfold InputText.header at 1, be16 at 1 2. cbn [app set_len].
  rewrite len_enc_tlv. cbn [snd].
  replace (0 + len (enc_tlvs l) + 4 + (len v + pad (len v))) with (len (enc_tlvs l) + (4 + len v + pad (len v))) by lia.
  reflexivity.
Qed.

(* C04 "validates under K" and "attributes legitimately appended after it do not invalidate it": a MESSAGE-INTEGRITY whose
   value is the RFC HMAC of the RFC text is accepted, whatever follows it in the message *)
Corollary accepts_own_mi k typ txid l rest p :
  typ < 65536 -> length txid = 12%nat -> forallb tlv_ok l = true -> (forall a, In a l -> fst a <> T_MI) ->
  let text := InputText.header typ (len (enc_tlvs l) + 24) txid ++ enc_tlvs l in
  let mac := hmac_sha1 k text in
  len mac = 20 ->
  len (enc_tlvs l ++ enc_tlv (T_MI, mac) ++ rest) < 65536 ->
  verify_attr (Some k) (InputText.header typ (len (enc_tlvs l ++ enc_tlv (T_MI, mac) ++ rest)) txid ++ enc_tlvs l ++ enc_tlv (T_MI, mac) ++ rest)
              (p, (T_MI, mac)) = true.
Proof.
  intros Htyp Htx Hok Hne text mac Hm Hlen. apply accept_iff_mac_sha1.
  exists text. split; [|reflexivity].
  assert (Ht8 : T_MI < 65536) by (unfold T_MI; lia). assert (Hm' : len mac < 65536) by lia.
  eapply eq_trans; [exact (input_text_general typ txid l T_MI mac rest Htyp Htx Hok Ht8 Hm' Hne Hlen)|].
  rewrite len_enc_tlv. cbn [snd]. rewrite Hm. change (pad 20) with 0. unfold text. repeat f_equal; try lia.
Qed.
Corollary accepts_own_sha k typ txid l rest p :
  typ < 65536 -> length txid = 12%nat -> forallb tlv_ok l = true -> (forall a, In a l -> fst a <> T_SHA) ->
  let text := InputText.header typ (len (enc_tlvs l) + 36) txid ++ enc_tlvs l in
  let mac := hmac_sha256 k text in
  len mac = 32 ->
  len (enc_tlvs l ++ enc_tlv (T_SHA, mac) ++ rest) < 65536 ->
  verify_attr (Some k) (InputText.header typ (len (enc_tlvs l ++ enc_tlv (T_SHA, mac) ++ rest)) txid ++ enc_tlvs l ++ enc_tlv (T_SHA, mac) ++ rest)
              (p, (T_SHA, mac)) = true.
Proof.
  intros Htyp Htx Hok Hne text mac Hm Hlen. apply accept_iff_mac_sha256.
  exists text. split; [|reflexivity].
  assert (Ht8 : T_SHA < 65536) by (unfold T_SHA; lia). assert (Hm' : len mac < 65536) by lia.
  eapply eq_trans; [exact (input_text_general typ txid l T_SHA mac rest Htyp Htx Hok Ht8 Hm' Hne Hlen)|].
  rewrite len_enc_tlv. cbn [snd]. rewrite Hm. change (pad 32) with 0. unfold text. repeat f_equal; try lia.
Qed.

(* ------------------------------------------------------------------ C18: unknown-attribute data only decorates *)
Section UnknownData.
Variables (attr tlv : Type) (kind_of : tlv -> kind) (dec_value : bool -> tlv -> option attr) (verify : attr -> bool).
Hypothesis Hdec : forall x, dec_value true x = dec_value false x.
Definition with_unknown (o:opts) b := {| o_validate := o_validate o; o_unknown := b; o_not_ignore := o_not_ignore o |}.
Lemma loop_unknown_irrelevant : forall l o f,
  loop attr tlv kind_of dec_value verify (with_unknown o true) f l = loop attr tlv kind_of dec_value verify (with_unknown o false) f l.
Proof.
  induction l as [|x l IH]; intros o f; cbn [loop]; [reflexivity|].
  cbn [with_unknown o_unknown o_validate o_not_ignore]. rewrite Hdec.
  destruct (dec_value false x) as [a|]; [|reflexivity].
  destruct (ignore_attribute f (kind_of x)) as [ign f'].
  destruct (negb ign || o_not_ignore o); [|apply IH].
  destruct (o_validate o && negb (verify a)); [reflexivity|]. rewrite IH. reflexivity.
Qed.
End UnknownData.

Theorem tamper_needs_collision k k' b b' p p' v :
  verify_attr (Some k) b (p, (T_MI, v)) = true -> verify_attr (Some k') b' (p', (T_MI, v)) = true ->
  exists t t', input_text b T_MI = Ok t /\ input_text b' T_MI = Ok t' /\ hmac_sha1 k t = hmac_sha1 k' t'.
Proof.
  intros H1 H2. apply accept_iff_mac_sha1 in H1 as (t & E1 & M1). apply accept_iff_mac_sha1 in H2 as (t' & E2 & M2).
  exists t, t'. repeat split; try assumption. congruence.
Qed.
Theorem tamper_needs_collision_sha256 k k' b b' p p' v :
  verify_attr (Some k) b (p, (T_SHA, v)) = true -> verify_attr (Some k') b' (p', (T_SHA, v)) = true ->
  exists t t', input_text b T_SHA = Ok t /\ input_text b' T_SHA = Ok t' /\ hmac_sha256 k t = hmac_sha256 k' t'.
Proof.
  intros H1 H2. apply accept_iff_mac_sha256 in H1 as (t & E1 & M1). apply accept_iff_mac_sha256 in H2 as (t' & E2 & M2).
  exists t, t'. repeat split; try assumption. congruence.
Qed.

(* ------------------------------------------------------------------ C03: totality, size, prefix-dependence *)
Section WireTotal.
Variable dec_ok : bool -> bytes -> N -> bytes -> option bool.

Theorem decode_no_panic ctx b : decode dec_ok ctx b <> WPanic.
Proof.
  unfold decode. destruct (negb (hdr_valid b)); [discriminate|].
  destruct (len b <? 20 + msg_length b) eqn:E; [discriminate|].
  pose proof (dec_tlvs_no_panic (length b) (take (msg_length b) (drop 20 b))) as NP.
  destruct (dec_tlvs (length b) (take (msg_length b) (drop 20 b))) as [tlvs| |]; [|discriminate|].
  - match goal with |- context [existsb ?f tlvs] => destruct (existsb f tlvs) end; [discriminate|].
    match goal with |- context [loop ?A ?T ?k ?d ?v ?o ?f ?l] => destruct (loop A T k d v o f l) end; discriminate.
  - exfalso. apply NP; [|reflexivity]. unfold take, drop. rewrite firstn_length, skipn_length. lia.
Qed.

Theorem decode_size ctx b s p : decode dec_ok ctx b = WOk s p -> s = 20 + msg_length b /\ s <= len b.
Proof.
  unfold decode. destruct (negb (hdr_valid b)); [discriminate|].
  destruct (len b <? 20 + msg_length b) eqn:E; [discriminate|]. apply N.ltb_ge in E.
  destruct (dec_tlvs (length b) (take (msg_length b) (drop 20 b))) as [tlvs| |]; try discriminate.
  match goal with |- context [existsb ?f tlvs] => destruct (existsb f tlvs) end; [discriminate|].
  match goal with |- context [loop ?A ?T ?k ?d ?v ?o ?f ?l] => destruct (loop A T k d v o f l) end; [|discriminate].
  intros H. inversion H; subst. split; [reflexivity|exact E].
Qed.
End WireTotal.
