(* The client model satisfies the content monitors C13, C10, C07 and (up to the two known findings) C08, for every history.

   Continuation of Proofs/AgentMeets.v: the same lockstep run `run_mon` of the model (Agent/Model.v) with the monitors
   (Agent/Monitors.v: monitor_step) through the observation `obs_of`, now for the verdicts numbered 13 (packet layout),
   10 (FINGERPRINT), 7 (short-term credentials) and 8 (long-term credentials, RFC 8489 9.2.4 server).

   Route. (1) The RFC ordering filter `rfc_filter` yields a well-ordered list (tail_ok) and is idempotent; in such a list
   the LAST integrity attribute of a kind (what the mechanisms scan for) is the FIRST one (what the monitors look up).
   (2) One-step theorems step_C13 / step_C10 / step_C07 / step_C08 from the mechanism-level facts of AgentMech.
   (3) An invariant CInv between the model state and the monitor states: the monitor's agreed integrity kind is the
   mechanism's (short term), the monitor's set of marked requests is the model's marker list (short term), the monitor's
   server record agrees with the cached long-term values and remembers which retry is pending (LInv, long term).
   (4) Induction along the run, together with the core invariant R of AgentMeets.

   No hypothesis on the received messages is needed for C08: whatever the peer sends, the monitor's server record and
   the values the mechanism caches stay in agreement, and the only non-zero classes the model can produce are
   1 (request after a 401 without integrity, finding D6) and 2 (request after a 438 without the algorithm attributes,
   finding D7); both are reachable (model_C08_d6_reachable, model_C08_d7_reachable). *)
From Coq Require Import List NArith Lia Bool Arith Permutation.
Import ListNotations.
From Rustun Require Import Agent.Rto Agent.Model Agent.Monitors Codec.Filter Proofs.AgentInv Proofs.AgentTrace Proofs.AgentSched Proofs.AgentMech Proofs.AgentMeets.
Open Scope N_scope.
(* ------------------------------------------------------------------ the RFC ordering filter *)
Definition outf (f:flt) (l:list attr) : list attr := filter_by (Filter.run ignore_attribute f (map akind_of l)) l.
Definition okf (f:flt) (l:list attr) : bool :=
  if f_fp f then (match l with [] => true | _ => false end)
  else if f_sha f then forallb a_is_fp l && tail_ok l
  else if f_mi f then forallb (fun x => a_is_sha x || a_is_fp x) l && tail_ok l
  else tail_ok l.

Lemma outf_cons f a l :
  outf f (a :: l) = let '(i, f') := ignore_attribute f (akind_of a) in if negb i then a :: outf f' l else outf f' l.
Proof. unfold outf. cbn [map Filter.run]. destruct (ignore_attribute f (akind_of a)) as [i f']. destruct i; reflexivity. Qed.

Lemma fp_sha_fp l : forallb a_is_fp l = true -> forallb (fun x => a_is_sha x || a_is_fp x) l = true.
Proof.
  rewrite !forallb_forall. intros Hl x Hx. rewrite (Hl x Hx). apply orb_true_r.
Qed.

Lemma outf_ok : forall l f, okf f (outf f l) = true.
Proof.
  induction l as [|a l IH]; intros f.
  - destruct f as [[|] [|] [|]]; reflexivity.
  - rewrite outf_cons.
    destruct f as [[|] [|] [|]]; destruct a;
      cbn [ignore_attribute akind_of f_mi f_sha f_fp negb andb orb is_mi is_sha is_fp];
      match goal with |- context [outf ?g l] => specialize (IH g) end;
      unfold okf in *; cbn [f_mi f_sha f_fp] in *;
      try exact IH;
      cbn [forallb tail_ok a_is_mi a_is_sha a_is_fp andb orb];
      try exact IH;
      try (destruct (outf _ l); [reflexivity|discriminate]);
      try (apply andb_true_iff in IH as [IH1 IH2]; rewrite ?(fp_sha_fp _ IH1), ?IH1, ?IH2; reflexivity).
Qed.
Lemma outf_id : forall l f, okf f l = true -> outf f l = l.
Proof.
  induction l as [|a l IH]; intros f Hok; [reflexivity|]. rewrite outf_cons.
  destruct f as [[|] [|] [|]]; destruct a; unfold okf in Hok;
    cbn [f_mi f_sha f_fp forallb tail_ok a_is_mi a_is_sha a_is_fp andb orb] in Hok; try discriminate Hok;
    cbn [ignore_attribute akind_of f_mi f_sha f_fp negb andb orb is_mi is_sha is_fp];
    f_equal; apply IH; unfold okf; cbn [f_mi f_sha f_fp];
    try exact Hok;
    try (apply andb_true_iff in Hok as [H1 H2]; try apply andb_true_iff in H2 as [H2 H3];
         rewrite ?H1, ?H2, ?H3; reflexivity);
    try (destruct l; [reflexivity|discriminate Hok]).
Qed.

Definition flt0 : flt := {| f_mi := false; f_sha := false; f_fp := false |}.
Lemma rfc_filter_outf l : rfc_filter l = outf flt0 l.
Proof. reflexivity. Qed.
Theorem rfc_filter_tail_ok l : tail_ok (rfc_filter l) = true.
Proof. rewrite rfc_filter_outf. exact (outf_ok l flt0). Qed.
Theorem rfc_filter_idem l : rfc_filter (rfc_filter l) = rfc_filter l.
Proof. rewrite (rfc_filter_outf (rfc_filter l)). apply outf_id. unfold okf, flt0; cbn [f_mi f_sha f_fp]. apply rfc_filter_tail_ok. Qed.
Lemma wmsg_attrs w : rfc_filter (m_attrs (wmsg w)) = rfc_filter (m_attrs w).
Proof. cbn [wmsg m_attrs]. apply rfc_filter_idem. Qed.

(* in a well-ordered list the last integrity attribute of a kind is the first one *)
Definition last_of (f:attr -> bool) (l:list attr) (acc:option attr) : option attr :=
  fold_left (fun o a => if f a then Some a else o) l acc.
Lemma last_of_none f : forall l acc, (forall x, In x l -> f x = false) -> last_of f l acc = acc.
Proof.
  induction l as [|a l IH]; intros acc Hl; cbn [last_of fold_left]; [reflexivity|].
  rewrite (Hl a (or_introl eq_refl)). apply IH. intros x Hx. apply Hl. right. exact Hx.
Qed.
Lemma tail_ok_tl a l : tail_ok (a :: l) = true -> tail_ok l = true.
Proof.
  cbn [tail_ok]. destruct (a_is_mi a); [intros Ht; apply andb_true_iff in Ht; apply Ht|].
  destruct (a_is_sha a); [intros Ht; apply andb_true_iff in Ht; apply Ht|].
  destruct (a_is_fp a); [destruct l; [reflexivity|discriminate]|auto].
Qed.
Lemma last_of_find_mi : forall l, tail_ok l = true -> last_of a_is_mi l None = find a_is_mi l.
Proof.
  induction l as [|a l IH]; intros Ht; [reflexivity|]. cbn [last_of fold_left find].
  destruct (a_is_mi a) eqn:Hm.
  - apply last_of_none. cbn [tail_ok] in Ht. rewrite Hm in Ht. apply andb_true_iff in Ht as [Ht _].
    rewrite forallb_forall in Ht. intros x Hx. specialize (Ht x Hx). destruct x; try discriminate Ht; reflexivity.
  - apply IH. eapply tail_ok_tl. exact Ht.
Qed.
Lemma last_of_find_sha : forall l, tail_ok l = true -> last_of a_is_sha l None = find a_is_sha l.
Proof.
  induction l as [|a l IH]; intros Ht; [reflexivity|]. cbn [last_of fold_left find].
  destruct (a_is_sha a) eqn:Hs.
  - apply last_of_none. cbn [tail_ok] in Ht. rewrite Hs in Ht.
    assert (Hm : a_is_mi a = false) by (destruct a; try discriminate Hs; reflexivity). rewrite Hm in Ht.
    apply andb_true_iff in Ht as [Ht _].
    rewrite forallb_forall in Ht. intros x Hx. specialize (Ht x Hx). destruct x; try discriminate Ht; reflexivity.
  - apply IH. eapply tail_ok_tl. exact Ht.
Qed.
(* uniqueness: an integrity attribute found anywhere in a well-ordered list is the one `find` returns *)
Lemma find_last_of f : forall l acc a, last_of f l acc = Some a -> acc = Some a \/ (In a l /\ f a = true).
Proof.
  induction l as [|x l IH]; intros acc a; cbn [last_of fold_left]; [auto|]. intros Hl.
  destruct (IH _ _ Hl) as [Hacc|[Hin Hf]]; [|right; split; [right; exact Hin|exact Hf]].
  destruct (f x) eqn:Hx; [|left; exact Hacc]. inversion Hacc; subst. right. split; [left; reflexivity|exact Hx].
Qed.
Lemma last_of_in f : forall l acc a, In a l -> f a = true -> exists b, last_of f l acc = Some b.
Proof.
  induction l as [|x l IH]; intros acc a Hin Hf; [destruct Hin|]. cbn [last_of fold_left].
  destruct Hin as [->|Hin]; [|eapply IH; eassumption]. rewrite Hf.
  clear IH. revert a Hf. induction l as [|y l IH2]; intros a Hf; cbn [fold_left]; [eexists; reflexivity|].
  destruct (f y) eqn:Hy; [apply (IH2 y Hy)|apply (IH2 a Hf)].
Qed.
Lemma find_mi_unique : forall l a, tail_ok l = true -> In a l -> a_is_mi a = true -> find a_is_mi l = Some a.
Proof.
  intros l a Ht Hin Ha. rewrite <- (last_of_find_mi l Ht).
  destruct (last_of_in a_is_mi l None a Hin Ha) as (b & Hb). rewrite Hb. f_equal.
  revert Ht Hin Hb. induction l as [|x l IH]; intros Ht Hin Hb; [destruct Hin|].
  cbn [last_of fold_left] in Hb. destruct (a_is_mi x) eqn:Hx.
  - assert (Hno : forall y, In y l -> a_is_mi y = false).
    { cbn [tail_ok] in Ht. rewrite Hx in Ht. apply andb_true_iff in Ht as [Ht _]. rewrite forallb_forall in Ht.
      intros y Hy. specialize (Ht y Hy). destruct y; try discriminate Ht; reflexivity. }
    fold (last_of a_is_mi l (Some x)) in Hb. rewrite (last_of_none a_is_mi l (Some x) Hno) in Hb. inversion Hb; subst b.
    destruct Hin as [->|Hin]; [reflexivity|]. rewrite (Hno a Hin) in Ha. discriminate.
  - destruct Hin as [->|Hin]; [congruence|]. apply IH; [eapply tail_ok_tl; exact Ht|exact Hin|exact Hb].
Qed.
Lemma find_sha_unique : forall l a, tail_ok l = true -> In a l -> a_is_sha a = true -> find a_is_sha l = Some a.
Proof.
  intros l a Ht Hin Ha. rewrite <- (last_of_find_sha l Ht).
  destruct (last_of_in a_is_sha l None a Hin Ha) as (b & Hb). rewrite Hb. f_equal.
  revert Ht Hin Hb. induction l as [|x l IH]; intros Ht Hin Hb; [destruct Hin|].
  cbn [last_of fold_left] in Hb. destruct (a_is_sha x) eqn:Hx.
  - assert (Hno : forall y, In y l -> a_is_sha y = false).
    { cbn [tail_ok] in Ht. rewrite Hx in Ht.
      assert (Hm : a_is_mi x = false) by (destruct x; try discriminate Hx; reflexivity). rewrite Hm in Ht.
      apply andb_true_iff in Ht as [Ht _]. rewrite forallb_forall in Ht.
      intros y Hy. specialize (Ht y Hy). destruct y; try discriminate Ht; reflexivity. }
    fold (last_of a_is_sha l (Some x)) in Hb. rewrite (last_of_none a_is_sha l (Some x) Hno) in Hb. inversion Hb; subst b.
    destruct Hin as [->|Hin]; [reflexivity|]. rewrite (Hno a Hin) in Ha. discriminate.
  - destruct Hin as [->|Hin]; [congruence|]. apply IH; [eapply tail_ok_tl; exact Ht|exact Hin|exact Hb].
Qed.

Lemma has_find f l : has (find f l) = existsb f l.
Proof. induction l as [|a l IH]; cbn [find existsb has]; [reflexivity|]. destruct (f a); [reflexivity|exact IH]. Qed.

(* ------------------------------------------------------------------ short term: what st_recv does, in the monitor's terms *)
Lemma st_scan_exact resp : forall l mi sha mi' sha',
  st_scan resp l mi sha = Some (mi', sha') -> mi' = last_of a_is_mi l mi /\ sha' = last_of a_is_sha l sha.
Proof.
  induction l as [|a l IH]; intros mi sha mi' sha'; cbn [st_scan last_of fold_left].
  - intros HE; inversion HE; auto.
  - destruct (resp && _ && _); [discriminate|]. apply IH.
Qed.
Lemma st_scan_not_both l mi sha :
  st_scan true l None None = Some (mi, sha) -> has (find a_is_mi l) && has (find a_is_sha l) = false.
Proof.
  intros Hs. rewrite !has_find. destruct (existsb a_is_mi l && existsb a_is_sha l) eqn:Hb; [|reflexivity].
  rewrite (st_scan_both l None None) in Hs; [discriminate|reflexivity|]. cbn [has orb]. exact Hb.
Qed.
Lemma valid_of_key a : a_is_mi a = true \/ a_is_sha a = true -> keyd_eqb (mac_key a) (KST 0) = true -> valid_st (Some a) = true.
Proof.
  destruct a; intros [Hk|Hk]; try discriminate Hk; cbn [mac_key]; destruct k; cbn [keyd_eqb]; try discriminate;
    intros HE; apply N.eqb_eq in HE; subst; reflexivity.
Qed.
Lemma find_true {A} (f:A -> bool) l a : find f l = Some a -> f a = true.
Proof. intros Hf. apply find_some in Hf. apply Hf. Qed.

Definition is_ind (m:msg) : bool := class_eqb (m_class m) CIndication.

Lemma st_recv_accept rel mk st m mk' st' :
  tail_ok (rfc_filter (m_attrs m)) = true ->
  st_recv rel mk st m = (None, mk', st') ->
  let P := rfc_filter (m_attrs m) in
  let mi := find a_is_mi P in let sha := find a_is_sha P in
  (match st_agreed st with Some IMI => valid_st mi | Some ISHA => valid_st sha | None => valid_st mi || valid_st sha end) = true
  /\ negb (is_ind m) && (has mi && has sha) = false
  /\ st_agreed st' = (if negb (is_ind m)
                      then match st_agreed st with None => Some (if valid_st mi then IMI else ISHA) | Some v => Some v end
                      else st_agreed st)
  /\ mk' = (if is_ind m then mk else del (m_id m) mk).
Proof.
  intros Ht. rewrite st_recv_eq. destruct (class_eqb (m_class m) CRequest); [discriminate|].
  fold (is_ind m).
  destruct (st_scan (negb (is_ind m)) (rfc_filter (m_attrs m)) None None) as [[mi0 sha0]|] eqn:Hscan; [|discriminate].
  pose proof (st_scan_exact _ _ _ _ _ _ Hscan) as [Hmi Hsha].
  rewrite (last_of_find_mi _ Ht) in Hmi. rewrite (last_of_find_sha _ Ht) in Hsha. subst mi0 sha0.
  destruct (compute_mi rel mk (KST 0) _ m) as [[e|] mk1] eqn:Hc; [discriminate|].
  intros HE. injection HE as Hmk Hst. subst mk1.
  pose proof (compute_mi_none _ _ _ _ _ _ Hc) as (a & Hp & Hk).
  assert (Hmk : mk' = if is_ind m then mk else del (m_id m) mk).
  { unfold compute_mi in Hc. rewrite Hp, Hk in Hc. unfold is_ind. inversion Hc; reflexivity. }
  cbv zeta.
  assert (Hboth : negb (is_ind m) && (has (find a_is_mi (rfc_filter (m_attrs m))) && has (find a_is_sha (rfc_filter (m_attrs m)))) = false).
  { destruct (is_ind m); [reflexivity|]. cbn [negb andb] in *. eapply st_scan_not_both. exact Hscan. }
  rewrite Hp in Hst. unfold st_pick in Hp.
  destruct (st_agreed st) as [[|]|] eqn:Hag.
  - (* agreed MI *)
    pose proof (find_true _ _ _ Hp) as Hk1. rewrite Hp in Hboth |- *.
    refine (conj (valid_of_key a (or_introl Hk1) Hk) (conj Hboth (conj _ Hmk))).
    subst st'. rewrite Hag. destruct (negb (is_ind m)); reflexivity.
  - pose proof (find_true _ _ _ Hp) as Hk1. rewrite Hp in Hboth |- *.
    refine (conj (valid_of_key a (or_intror Hk1) Hk) (conj Hboth (conj _ Hmk))).
    subst st'. rewrite Hag. destruct (negb (is_ind m)); reflexivity.
  - destruct (find a_is_mi (rfc_filter (m_attrs m))) as [b|] eqn:Hfm.
    + inversion Hp; subst b. pose proof (find_true _ _ _ Hfm) as Hk1.
      rewrite (valid_of_key a (or_introl Hk1) Hk).
      refine (conj eq_refl (conj Hboth (conj _ Hmk))).
      subst st'. destruct (negb (is_ind m)); cbn [st_agreed]; [rewrite Hk1; reflexivity|exact Hag].
    + pose proof (find_true _ _ _ Hp) as Hk1. rewrite Hp in Hboth |- *.
      rewrite (valid_of_key a (or_intror Hk1) Hk). cbn [valid_st orb].
      refine (conj eq_refl (conj Hboth (conj _ Hmk))).
      subst st'. destruct (negb (is_ind m)); cbn [st_agreed]; [|exact Hag].
      assert (Hnm : a_is_mi a = false) by (destruct a; try discriminate Hk1; reflexivity). rewrite Hnm. reflexivity.
Qed.
Lemma compute_mi_some rel mk key i m e mk' :
  compute_mi rel mk key i m = (Some e, mk') ->
  (e = EDiscarded /\ mk_rej rel mk m mk') \/ (e = EViolated /\ rel = true /\ mk' = mk).
Proof.
  unfold compute_mi, discard_message, mk_rej.
  destruct i as [a|]; [destruct (keyd_eqb (mac_key a) key); [discriminate|]|];
    destruct (class_eqb (m_class m) CIndication); try destruct rel; intros HE; inversion HE; subst; auto.
Qed.
Lemma st_recv_err rel mk st m e mk' st' :
  st_recv rel mk st m = (Some e, mk', st') ->
  st' = st /\ ((e = EDiscarded /\ mk_rej rel mk m mk') \/ (e = EViolated /\ rel = true /\ mk' = mk)).
Proof.
  rewrite st_recv_eq. destruct (class_eqb (m_class m) CRequest).
  { intros HE; inversion HE; subst. split; [reflexivity|left; split; [reflexivity|apply mk_rej_refl]]. }
  destruct (st_scan _ _ None None) as [[mi sha]|].
  2:{ intros HE; inversion HE; subst. split; [reflexivity|left; split; [reflexivity|apply mk_rej_refl]]. }
  destruct (compute_mi rel mk (KST 0) (st_pick st mi sha) m) as [[e0|] mk1] eqn:Hc; [|discriminate].
  intros HE; inversion HE; subst. split; [reflexivity|]. eapply compute_mi_some. exact Hc.
Qed.

(* ------------------------------------------------------------------ the shape of a Recv step *)
Lemma step_recv_shape c now d w c' r evs :
  step c (Recv now d w) = (c', r, evs) ->
  (c' = c /\ evs = [] /\ (forall x, r <> ROk x))
  \/ (d = true /\ (use_fp (cfg c) = true -> find a_is_fp (rfc_filter (m_attrs w)) = Some (AFP true))
      /\ class_eqb (m_class w) CRequest = false
      /\ exists e mk mech', mech_step (reliable (cfg c)) (markers c) (mech_ c) (wmsg w) = (e, mk, mech')
           /\ recv_tail c (wmsg w) (e, mk, mech') = (c', r, evs)).
Proof.
  destruct d; [|cbn [step negb]; intros HE; inversion HE; subst; left; repeat split; discriminate].
  rewrite step_recv_eq. cbv zeta.
  destruct (class_eqb (m_class (wmsg w)) CRequest) eqn:Hrq; [intros HE; inversion HE; subst; left; repeat split; discriminate|].
  destruct (is_response (wmsg w) && _); [intros HE; inversion HE; subst; left; repeat split; discriminate|].
  destruct (use_fp (cfg c) && match find a_is_fp (m_attrs (wmsg w)) with None => true | Some _ => false end) eqn:H1;
    [intros HE; inversion HE; subst; left; repeat split; discriminate|].
  destruct (use_fp (cfg c) && match find a_is_fp (m_attrs (wmsg w)) with Some (AFP true) => false | _ => true end) eqn:H2;
    [intros HE; inversion HE; subst; left; repeat split; discriminate|].
  intros HE. right. split; [reflexivity|]. split; [|split; [exact Hrq|]].
  - intros Hfp. rewrite Hfp in H1, H2. cbn [andb wmsg m_attrs] in H1, H2.
    destruct (find a_is_fp (rfc_filter (m_attrs w))) as [[]|]; try discriminate. destruct good; [reflexivity|discriminate].
  - destruct (mech_step (reliable (cfg c)) (markers c) (mech_ c) (wmsg w)) as [[e mk] mech']. exists e, mk, mech'. auto.
Qed.

Lemma recv_tail_cases c m e mk mech' c' r evs :
  recv_tail c m (e, mk, mech') = (c', r, evs) ->
  mech_ c' = mech' /\ markers c' = mk /\ cfg c' = cfg c /\
  match e with
  | Some EDiscarded => evs = [] /\ r = RDiscarded
  | Some EViolated => evs = [Failed (m_id m) ProtectionViolated] /\ r = ROk None
  | Some ERetry => evs = [Retry (m_id m)] /\ r = ROk None
  | Some ENotRetryable => evs = [Failed (m_id m) DoNotRetry] /\ r = ROk None
  | None => evs = [Received m] /\ r = ROk None
  end.
Proof.
  unfold recv_tail. destruct e as [[| | |]|]; try destruct (class_eqb (m_class m) CIndication);
    intros HE; inversion HE; subst; repeat split.
Qed.

(* what the other operations do to the mechanism and the markers *)
Lemma step_send_mech c now id r method app room c' rep evs :
  step c (Send now id r method app room) = (c', rep, evs) -> mech_ c' = mech_ c /\ markers c' = markers c /\ cfg c' = cfg c.
Proof.
  intros Hs. destruct (step_send_cases c now id r method app room) as [(rep0 & He & _)|(a & d & m1 & _ & _ & _ & He)];
    rewrite He in Hs; inversion Hs; subst; repeat split.
Qed.
Lemma step_ind_mech c id method app room c' rep evs :
  step c (Indication id method app room) = (c', rep, evs) -> c' = c.
Proof.
  intros Hs. destruct (step_indication_cases c id method app room) as [(rep0 & He)|(a & He)];
    rewrite He in Hs; inversion Hs; subst; reflexivity.
Qed.

(* the markers through on_timeout: every failed id loses its marker, the reason is read from the marker it had *)
Definition KInv (mk0 mk:list txid) (pending:list txid) (ev:list event) : Prop :=
  (forall x, In x mk <-> In x mk0 /\ ~ In x (AgentTrace.finals ev))
  /\ (forall i r, In (Failed i r) ev -> r = rsn i mk0)
  /\ (forall x, In x (AgentTrace.finals ev) -> ~ In x pending).

Lemma mem_in x l : mem x l = true <-> In x l.
Proof. exact (memN_in x l). Qed.
Lemma in_del x id l : In x (del id l) <-> In x l /\ x <> id.
Proof.
  unfold del. rewrite filter_In, negb_true_iff, N.eqb_neq. tauto.
Qed.
Lemma mem_ext x a b : (In x a <-> In x b) -> mem x a = mem x b.
Proof.
  intros Hab. destruct (mem x a) eqn:Ha, (mem x b) eqn:Hb; try reflexivity.
  - apply mem_in in Ha. apply Hab in Ha. apply mem_in in Ha. congruence.
  - apply mem_in in Hb. apply Hab in Hb. apply mem_in in Hb. congruence.
Qed.

Lemma tmo_one_kinv now mk0 t h mk ev id pending :
  NoDup (id :: pending) -> KInv mk0 mk (id :: pending) ev ->
  let '(_, _, mk', ev') := tmo_one now (t, h, mk, ev) id in KInv mk0 mk' pending ev'.
Proof.
  intros Hnd (Hk & Hr & Hp). inversion Hnd as [|? ? Hni Hnd']; subst.
  assert (Hp' : forall x, In x (AgentTrace.finals ev) -> ~ In x pending) by (intros x Hx Hin; apply (Hp x Hx); right; exact Hin).
  unfold tmo_one. destruct (lookup id t) as [x|]; [|exact (conj Hk (conj Hr Hp'))].
  destruct (next_rto (tm x) now) as [[d|] m'].
  - refine (conj _ (conj _ _)).
    + intros y. rewrite finals_snoc. cbn [ev_final opt_list]. rewrite app_nil_r. apply Hk.
    + intros i r Hin. apply in_app_or in Hin as [Hin|[Hin|[]]]; [apply Hr; exact Hin|discriminate].
    + intros y. rewrite finals_snoc. cbn [ev_final opt_list]. rewrite app_nil_r. apply Hp'.
  - assert (Hidf : ~ In id (AgentTrace.finals ev)) by (intros Hin; apply (Hp id Hin); left; reflexivity).
    refine (conj _ (conj _ _)).
    + intros y. rewrite finals_snoc, in_del, Hk, in_app_iff. cbn [ev_final opt_list In]. split.
      * intros ((A & B) & C). split; [exact A|]. intros [D|[D|[]]]; [contradiction|congruence].
      * intros (A & B). split; [split; [exact A|]|]; [intros D; apply B; left; exact D|intros D; apply B; right; left; symmetry; exact D].
    + intros i r Hin. apply in_app_or in Hin as [Hin|[Hin|[]]]; [apply Hr; exact Hin|]. inversion Hin; subst. unfold rsn.
      rewrite (mem_ext i mk mk0); [reflexivity|]. rewrite Hk. tauto.
    + intros y. rewrite finals_snoc, in_app_iff. cbn [ev_final opt_list In]. intros [Hy|[<-|[]]]; [apply Hp'; exact Hy|exact Hni].
Qed.
Lemma tmo_fold_kinv now mk0 : forall pending t h mk ev,
  NoDup pending -> KInv mk0 mk pending ev ->
  let '(_, _, mk', ev') := fold_left (tmo_one now) pending (t, h, mk, ev) in KInv mk0 mk' [] ev'.
Proof.
  induction pending as [|id pending IH]; intros t h mk ev Hnd Hk; cbn [fold_left]; [exact Hk|].
  pose proof (tmo_one_kinv now mk0 t h mk ev id pending Hnd Hk) as H1.
  destruct (tmo_one now (t, h, mk, ev) id) as [[[t1 h1] mk1] ev1]. apply IH; [inversion Hnd; assumption|exact H1].
Qed.

Theorem step_tmo_markers c now c' rep evs :
  Inv c -> step c (Tmo now) = (c', rep, evs) ->
  mech_ c' = mech_ c /\ cfg c' = cfg c
  /\ (forall x, In x (markers c') <-> In x (markers c) /\ ~ In x (AgentTrace.finals evs))
  /\ (forall i r, In (Failed i r) evs -> r = rsn i (markers c)).
Proof.
  intros (_ & Hh & _) Hs. cbn [step] in Hs.
  assert (Hnd : NoDup (map h_id (filter (fun e => h_exp e <=? now) (H c)))) by (apply NoDup_map_filter; exact Hh).
  assert (Hk0 : KInv (markers c) (markers c) (map h_id (filter (fun e => h_exp e <=? now) (H c))) []).
  { refine (conj _ (conj _ _)); [intros x; cbn [AgentTrace.finals flat_map In]; tauto|intros i r []|intros x []]. }
  pose proof (tmo_fold_kinv now (markers c) _ (T c) (filter (fun e => negb (h_exp e <=? now)) (H c)) (markers c) [] Hnd Hk0) as Hf.
  destruct (fold_left (tmo_one now) _ _) as [[[t' h'] mk'] ev]. destruct Hf as (Hk & Hr & _).
  inversion Hs; subst; clear Hs. cbn [mech_ cfg markers]. refine (conj eq_refl (conj eq_refl (conj _ _))).
  - intros x. rewrite finals_app, finals_notif, app_nil_r. apply Hk.
  - intros i r Hin. apply in_app_or in Hin as [Hin|Hin]; [apply Hr; exact Hin|].
    apply notif_ids in Hin as (m & _ & Hin). discriminate.
Qed.
(* ------------------------------------------------------------------ configurations and application attribute lists *)
(* the mapping of ocaml/driver.ml (agent_suite, header line): mechanism code 0 -> no mechanism, 1 -> short term (learning),
   2 -> short term MESSAGE-INTEGRITY, 3 -> short term MESSAGE-INTEGRITY-SHA256, 4 -> long term in its initial state;
   cc_fp / cc_reliable are the model's use_fp / reliable. cc_rto and cc_gran are only used by the C15 monitor. *)
Definition consistent_cc (cc:ccfg) (cf:config) (m:mech) : Prop :=
  cc_fp cc = use_fp cf /\ cc_reliable cc = reliable cf /\
  match m with
  | MNone => cc_mech cc = 0
  | MST s => match st_agreed s with None => cc_mech cc = 1 | Some IMI => cc_mech cc = 2 | Some ISHA => cc_mech cc = 3 end
  | MLT s => cc_mech cc = 4 /\ s = {| lt_st := First; lt_pr := None |}
  end.

(* what the harness guarantees about the attribute lists handed to send_request / send_indication: `App ty _` never uses
   one of the three slot types (AgentMech.app_wf), and the application cannot produce a wrong FINGERPRINT (the encoder
   computes the CRC), so the junk value `AFP false` does not occur *)
Definition app_ok (app:list attr) : Prop := app_wf app /\ ~ In (AFP false) app.
Definition op_apps_ok (o:op) : Prop :=
  match o with Send _ _ _ _ app _ => app_ok app | Indication _ _ app _ => app_ok app | _ => True end.
Fixpoint wf_apps (ops:list op) : Prop := match ops with [] => True | o :: r => op_apps_ok o /\ wf_apps r end.

(* ------------------------------------------------------------------ first transmissions in the observation *)
Definition is_first (e:oev) : bool := match e with EOut _ true _ _ => true | _ => false end.
Lemma first_out_eq o : first_out o = match find is_first (ob_events o) with Some (EOut _ _ _ p) => Some p | _ => None end.
Proof. reflexivity. Qed.
Lemma first_out_head c c' o rep id p rest :
  first_out (obs_of c c' o rep (Out id true p :: rest)) = Some (Some p).
Proof. reflexivity. Qed.
Lemma first_out_nil c c' o rep : first_out (obs_of c c' o rep []) = None.
Proof. reflexivity. Qed.
Lemma find_first_none evs : (forall i p, ~ In (Out i true p) evs) -> find is_first (map oev_of evs) = None.
Proof.
  induction evs as [|e evs IH]; intros Hno; cbn [map find]; [reflexivity|].
  assert (He : is_first (oev_of e) = false).
  { destruct e as [id [|] p|id lf|id|id r|m]; try reflexivity. exfalso. apply (Hno id p). left. reflexivity. }
  rewrite He. apply IH. intros i p Hin. apply (Hno i p). right. exact Hin.
Qed.
Lemma first_out_none c c' o rep evs : (forall i p, ~ In (Out i true p) evs) -> first_out (obs_of c c' o rep evs) = None.
Proof. intros Hno. rewrite first_out_eq. cbn [obs_of ob_events]. rewrite (find_first_none evs Hno). reflexivity. Qed.

Lemma step_no_first c o c' rep evs :
  Inv c -> step c o = (c', rep, evs) -> (match o with Recv _ _ _ | Tmo _ => True | _ => False end) ->
  forall i p, ~ In (Out i true p) evs.
Proof.
  intros Hinv Hs Ho i p Hin.
  assert (Hff : fresh_for c o) by (destruct o; try contradiction; exact I).
  pose proof (step_events_spec c o Hinv Hff) as Hok. rewrite Hs in Hok. destruct Hok as (_ & _ & _ & _ & _ & Hfirst).
  destruct (Hfirst i p Hin) as [[Hsent _]|[Hind _]]; destruct o; try contradiction.
Qed.

(* ------------------------------------------------------------------ C13: what `prepare` puts on the wire *)
Lemma sl_fp_fold : forall l s a,
  sl_fp (fold_left (fun s a => add_attr a s) l s) = Some a -> In a l \/ sl_fp s = Some a.
Proof.
  induction l as [|b l IH]; intros s a; cbn [fold_left]; [auto|]. intros Hf.
  destruct (IH _ _ Hf) as [Hin|Hs]; [left; right; exact Hin|].
  destruct b; cbn [add_attr sl_fp] in Hs; auto. inversion Hs; subst. left. left. reflexivity.
Qed.
Lemma sl_fp_of_list app a : sl_fp (of_list app) = Some a -> In a app.
Proof. intros Hf. destruct (sl_fp_fold app empty_attrs a Hf) as [Hin|Hs]; [exact Hin|discriminate]. Qed.
Lemma st_prepare_fp s a : sl_fp (st_prepare s a) = sl_fp a.
Proof. unfold st_prepare. destruct (st_agreed s) as [[|]|]; reflexivity. Qed.

Lemma prepare_sl_fp c b app x :
  prepare c b app = inl (Some x) -> sl_fp x = if use_fp (cfg c) then Some (AFP true) else sl_fp (of_list app).
Proof.
  unfold prepare.
  assert (Hw : forall y, sl_fp y = sl_fp (of_list app) ->
               sl_fp (if use_fp (cfg c) then add_attr (AFP true) y else y) = if use_fp (cfg c) then Some (AFP true) else sl_fp (of_list app))
    by (intros y Hy; destruct (use_fp (cfg c)); [reflexivity|exact Hy]).
  destruct (mech_ c) as [|s|s].
  - intros HE; inversion HE; subst. apply Hw. reflexivity.
  - intros HE; inversion HE; subst. apply Hw. apply st_prepare_fp.
  - destruct b; [|discriminate]. destruct (lt_prepare s (of_list app)) as [y|] eqn:Hl; [|discriminate].
    intros HE; inversion HE; subst. apply Hw. eapply lt_prepare_fp. exact Hl.
Qed.

Lemma in_flatten_slots x a :
  In a (flatten x) -> In a (ord x) \/ sl_mi x = Some a \/ sl_sha x = Some a \/ sl_fp x = Some a.
Proof.
  unfold flatten. intros Hin. apply in_app_or in Hin as [Hin|Hin]; [left; exact Hin|right].
  apply in_app_or in Hin as [Hin|Hin]; [left|right].
  { destruct (sl_mi x); cbn [opt_list In] in Hin; [destruct Hin as [->|[]]; reflexivity|destruct Hin]. }
  apply in_app_or in Hin as [Hin|Hin]; [left|right].
  { destruct (sl_sha x); cbn [opt_list In] in Hin; [destruct Hin as [->|[]]; reflexivity|destruct Hin]. }
  destruct (sl_fp x); cbn [opt_list In] in Hin; [destruct Hin as [->|[]]; reflexivity|destruct Hin].
Qed.

Lemma prepare_fp_good c b app x g :
  app_ok app -> prepare c b app = inl (Some x) -> In (AFP g) (flatten x) -> g = true.
Proof.
  intros [_ Hnf] Hp Hin. pose proof (prepare_ainv _ _ _ _ Hp) as (Ho & Hm & Hs & _).
  apply in_flatten_slots in Hin as [Hin|[Hin|[Hin|Hin]]].
  - destruct (Ho _ Hin) as [_ HF]. discriminate.
  - rewrite Hin in Hm. discriminate.
  - rewrite Hin in Hs. discriminate.
  - rewrite (prepare_sl_fp _ _ _ _ Hp) in Hin. destruct (use_fp (cfg c)); [inversion Hin; reflexivity|].
    apply sl_fp_of_list in Hin. destruct g; [reflexivity|contradiction].
Qed.

Lemma in_flatten_fp g y a : In a (flatten (add_attr (AFP g) y)) -> a = AFP g \/ In a (flatten y).
Proof.
  unfold flatten. cbn [add_attr ord sl_mi sl_sha sl_fp opt_list]. rewrite !in_app_iff. cbn [In].
  intros [Hin|[Hin|[Hin|[Hin|[]]]]]; auto.
Qed.

(* the integrity attributes of a prepared message are the mechanism's own *)
Definition key_ok (k:N) (kd:keyd) : Prop :=
  k = 0 \/ (kd = KST 0 /\ k <> 4) \/ (k = 4 /\ exists r al, kd = KLT r 0 al).
Lemma prepare_integ_keys c b app x k a :
  CPInv c -> mech_code_ok (mech_ c) k -> prepare c b app = inl (Some x) ->
  In a (flatten x) -> is_integ a = true -> key_ok k (mac_key a).
Proof.
  intros HP Hk Hp Hin Hi. unfold prepare in Hp. unfold CPInv in HP.
  assert (Hw : forall y, In a (flatten (if use_fp (cfg c) then add_attr (AFP true) y else y)) -> In a (flatten y)).
  { intros y Hy. destruct (use_fp (cfg c)); [|exact Hy]. apply in_flatten_fp in Hy as [->|Hy]; [discriminate|exact Hy]. }
  destruct (mech_ c) as [|s|s]; cbn [mech_code_ok] in Hk.
  - left. exact Hk.
  - inversion Hp; subst x. apply Hw in Hin.
    destruct (st_prepare_integrity s (of_list app) a (ainv_of_list app) Hin Hi) as [_ Hkey].
    right; left. split; [exact Hkey|]. destruct Hk as [->|[->| ->]]; discriminate.
  - destruct b; [|discriminate]. destruct (lt_prepare s (of_list app)) as [y|] eqn:Hl; [|discriminate].
    inversion Hp; subst x. apply Hw in Hin. right; right. split; [exact Hk|].
    destruct (lt_pr s) as [p|] eqn:Hpr.
    + destruct (lt_prepare_integrity s (of_list app) p y a (ainv_of_list app) (of_list_types_nodup app) Hpr Hl Hin Hi) as [-> _].
      unfold PInv in HP. rewrite Hpr in HP. destruct HP as (Hkey & _).
      exists (p_realm p), (match p_alg p with Some al => al | None => MD5 end).
      unfold integ_attr. destruct (p_integ p); exact Hkey.
    + exfalso. unfold lt_prepare in Hl. rewrite Hpr in Hl. destruct (lt_st s); try discriminate. injection Hl as <-.
      destruct (ainv_strip_lt _ (ainv_of_list app)) as (Ho & _ & _ & Hf).
      rewrite strip_lt_eq in Hin. apply in_flatten_slots in Hin as [Hin|[Hin|[Hin|Hin]]]; cbn [ord sl_mi sl_sha sl_fp] in Hin; try discriminate.
      * destruct (Ho _ Hin) as [HF _]. rewrite HF in Hi. discriminate.
      * change (sl_fp (of_list app)) with (sl_fp (strip_lt (of_list app))) in Hin. rewrite Hin in Hf. cbn [slot_ok] in Hf.
        destruct a; discriminate.
Qed.

Definition chk13 (c:ccfg) (fo:option (option msg)) (is_req:bool) (method:N) (app:list attr) : bool :=
  match fo with
  | None => true
  | Some None => false
  | Some (Some p) =>
      class_eqb (m_class p) (if is_req then CRequest else CIndication) && (m_method p =? method)
      && types_nodup (m_attrs p) && tail_ok (m_attrs p)
      && is_prefix (app_expected (cc_mech c) (cc_fp c) app)
                   (filter (fun a => negb (is_integ a || a_is_fp a)) (m_attrs p)) attr_eqb
      && forallb (fun a => match a with
                           | AMI k | ASHA k => if cc_mech c =? 0 then true
                                               else match k with KST 0 => negb (cc_mech c =? 4) | KLT _ 0 _ => cc_mech c =? 4 | _ => false end
                           | AFP g => g
                           | _ => true end) (m_attrs p)
  end.
Lemma mon_C13_send c now id r method app o : mon_C13 c (MSend now id r method app) o = chk13 c (first_out o) true method app.
Proof. reflexivity. Qed.
Lemma mon_C13_ind c method app o : mon_C13 c (MInd method app) o = chk13 c (first_out o) false method app.
Proof. reflexivity. Qed.

Lemma chk13_prepare cc c is_req id method app a :
  cc_fp cc = use_fp (cfg c) -> mech_code_ok (mech_ c) (cc_mech cc) -> CPInv c -> app_ok app ->
  prepare c is_req app = inl (Some a) ->
  chk13 cc (Some (Some {| m_class := if is_req then CRequest else CIndication; m_method := method; m_id := id; m_attrs := flatten a |}))
        is_req method app = true.
Proof.
  intros Hfp Hk HP Hok Hp. unfold chk13. cbn [m_class m_method m_attrs].
  rewrite class_eqb_refl, N.eqb_refl. cbn [andb].
  rewrite (prepare_types_nodup c is_req app a (proj1 Hok) Hp), (prepare_tail_ok c is_req app a Hp). cbn [andb].
  rewrite Hfp. rewrite (prepare_app_prefix c is_req app a (cc_mech cc) (proj1 Hok) Hk Hp). cbn [andb].
  apply forallb_forall. intros x Hx. destruct x; try reflexivity.
  - pose proof (prepare_integ_keys c is_req app a (cc_mech cc) (AMI k) HP Hk Hp Hx eq_refl) as Hkey. cbn [mac_key] in Hkey.
    destruct Hkey as [->|[[-> Hn4]|(-> & r & al & ->)]]; [reflexivity| |reflexivity].
    destruct (cc_mech cc =? 0); [reflexivity|]. apply negb_true_iff, N.eqb_neq. exact Hn4.
  - pose proof (prepare_integ_keys c is_req app a (cc_mech cc) (ASHA k) HP Hk Hp Hx eq_refl) as Hkey. cbn [mac_key] in Hkey.
    destruct Hkey as [->|[[-> Hn4]|(-> & r & al & ->)]]; [reflexivity| |reflexivity].
    destruct (cc_mech cc =? 0); [reflexivity|]. apply negb_true_iff, N.eqb_neq. exact Hn4.
  - eapply prepare_fp_good; eassumption.
Qed.

Theorem step_C13 cc c o c' rep evs :
  Inv c -> cc_fp cc = use_fp (cfg c) -> mech_code_ok (mech_ c) (cc_mech cc) -> CPInv c -> op_apps_ok o ->
  step c o = (c', rep, evs) ->
  mon_C13 cc (mop_of o rep) (obs_of c c' o rep evs) = true.
Proof.
  intros Hinv Hfp Hk HP Hok Hs. destruct o as [now id r method app room|id method app room|now d w|now]; cbn [mop_of op_apps_ok] in *.
  - rewrite mon_C13_send.
    destruct (step_send_cases c now id r method app room) as [(rep0 & He & _)|(a & d & m1 & _ & Hp & _ & He)];
      rewrite He in Hs; inversion Hs; subst; clear Hs.
    + rewrite first_out_nil. reflexivity.
    + rewrite first_out_head. exact (chk13_prepare cc c true id method app a Hfp Hk HP Hok Hp).
  - rewrite mon_C13_ind. cbn [step] in Hs. destruct (prepare c false app) as [[a|]|e] eqn:Hp.
    + destruct room; cbn [negb] in Hs; injection Hs as <- <- <-.
      * rewrite first_out_head. exact (chk13_prepare cc c false id method app a Hfp Hk HP Hok Hp).
      * rewrite first_out_nil. reflexivity.
    + injection Hs as <- <- <-. rewrite first_out_nil. reflexivity.
    + injection Hs as <- <- <-. rewrite first_out_nil. reflexivity.
  - unfold mon_C13. cbn [obs_of ob_events]. apply forallb_forall. intros oe Hoe. apply in_map_iff in Hoe as (e & <- & Hine).
    destruct e as [i [|] p|i lf|i|i r|m]; cbn [oev_of]; try reflexivity.
    exfalso. eapply (step_no_first c _ c' rep evs Hinv Hs I). exact Hine.
  - unfold mon_C13. cbn [obs_of ob_events]. apply forallb_forall. intros oe Hoe. apply in_map_iff in Hoe as (e & <- & Hine).
    destruct e as [i [|] p|i lf|i|i r|m]; cbn [oev_of]; try reflexivity.
    exfalso. eapply (step_no_first c _ c' rep evs Hinv Hs I). exact Hine.
Qed.
(* ------------------------------------------------------------------ C10 *)
Theorem step_C10 cc c o c' rep evs :
  Inv c -> cc_fp cc = use_fp (cfg c) -> step c o = (c', rep, evs) ->
  mon_C10 cc (mop_of o rep) (obs_of c c' o rep evs) = true.
Proof.
  intros Hinv Hfp Hs. unfold mon_C10. rewrite Hfp. destruct (use_fp (cfg c)) eqn:Hu; cbn [negb]; [|reflexivity].
  destruct o as [now id r method app room|id method app room|now d w|now]; cbn [mop_of].
  - destruct (step_send_cases c now id r method app room) as [(rep0 & He & _)|(a & d & m1 & _ & Hp & _ & He)];
      rewrite He in Hs; inversion Hs; subst; clear Hs.
    + rewrite first_out_nil. reflexivity.
    + rewrite first_out_head. cbn [m_attrs]. destruct (fingerprint_last c true app a Hu Hp) as [-> _]. reflexivity.
  - cbn [step] in Hs. destruct (prepare c false app) as [[a|]|e] eqn:Hp.
    + destruct room; cbn [negb] in Hs; injection Hs as <- <- <-.
      * rewrite first_out_head. cbn [m_attrs]. destruct (fingerprint_last c false app a Hu Hp) as [-> _]. reflexivity.
      * rewrite first_out_nil. reflexivity.
    + injection Hs as <- <- <-. rewrite first_out_nil. reflexivity.
    + injection Hs as <- <- <-. rewrite first_out_nil. reflexivity.
  - rewrite (first_out_none c c' _ rep evs (step_no_first c _ c' rep evs Hinv Hs I)). cbn [andb].
    destruct (step_recv_shape c now d w c' rep evs Hs) as [(-> & -> & Hr)|(-> & Hfind & _ & _)].
    + destruct (d && _); [reflexivity|]. cbn [obs_of ob_ret ob_events map].
      destruct rep; cbn [oret_of]; try reflexivity. exfalso. eapply Hr. reflexivity.
    + rewrite (Hfind Hu). reflexivity.
  - rewrite (first_out_none c c' _ rep evs (step_no_first c _ c' rep evs Hinv Hs I)). reflexivity.
Qed.
(* ------------------------------------------------------------------ C07: the marker bookkeeping of the monitor *)
Lemma marked_next s op o x :
  In x (ms_marked (next_state s op o)) <->
  (In x (match op with MRecv _ _ _ => filter (fun i => negb (memN i (ms_K s))) (ob_K o) | _ => [] end) \/ In x (ms_marked s))
  /\ ~ In x (Monitors.finals (ob_events o)).
Proof. unfold next_state. cbn [ms_marked]. rewrite filter_In, in_app_iff, negb_true_iff, memN_notin. tauto. Qed.

Lemma finals_send_ind c o c' rep evs :
  step c o = (c', rep, evs) -> (match o with Send _ _ _ _ _ _ | Indication _ _ _ _ => True | _ => False end) ->
  AgentTrace.finals evs = [].
Proof.
  intros Hs Ho. destruct o as [now id r method app room|id method app room|now d w|now]; try contradiction.
  - destruct (step_send_cases c now id r method app room) as [(rep0 & He & _)|(a & d & m1 & _ & _ & _ & He)];
      rewrite He in Hs; inversion Hs; subst; clear Hs; [reflexivity|].
    change (Out id true ?p :: ?n) with ([Out id true p] ++ n). rewrite finals_app, finals_notif. reflexivity.
  - destruct (step_indication_cases c id method app room) as [(rep0 & He)|(a & He)]; rewrite He in Hs; inversion Hs; subst; reflexivity.
Qed.

Lemma in_ins_iff x y l : In x (ins y l) <-> x = y \/ In x l.
Proof. apply in_ins. Qed.

Theorem step_marked mc c s used o c' rep evs st :
  R mc c s used -> mech_ c = MST st ->
  (forall x, In x (ms_marked s) <-> In x (markers c)) -> (reliable (cfg c) = true -> markers c = []) ->
  step c o = (c', rep, evs) ->
  forall x, In x (ms_marked (next_state s (mop_of o rep) (obs_of c c' o rep evs))) <-> In x (markers c').
Proof.
  intros HR Hm Hmk Hrel Hs x. rewrite marked_next. cbn [obs_of ob_events ob_K]. rewrite finals_oev.
  destruct o as [now id r method app room|id method app room|now d w|now]; cbn [mop_of].
  - rewrite (finals_send_ind _ _ _ _ _ Hs I). destruct (step_send_mech _ _ _ _ _ _ _ _ _ _ Hs) as (_ & -> & _).
    rewrite Hmk. cbn [In]. tauto.
  - rewrite (finals_send_ind _ _ _ _ _ Hs I). rewrite (step_ind_mech _ _ _ _ _ _ _ _ Hs).
    rewrite Hmk. cbn [In]. tauto.
  - rewrite filter_In, negb_true_iff, memN_notin, (R_K _ _ _ _ HR). unfold obs_K at 2. rewrite Hm.
    destruct (step_recv_shape c now d w c' rep evs Hs) as [(-> & -> & _)|(-> & _ & Hrq & e & mk & mech' & Hstep & Htail)].
    + unfold obs_K. rewrite Hm, Hmk. cbn [AgentTrace.finals flat_map In]. tauto.
    + destruct (recv_tail_cases _ _ _ _ _ _ _ _ Htail) as (Hmech' & Hmk' & _ & Hev).
      unfold mech_step in Hstep. rewrite Hm in Hstep.
      destruct (st_recv (reliable (cfg c)) (markers c) st (wmsg w)) as [[e0 mk0] st0] eqn:Hrecv. injection Hstep as -> -> <-.
      unfold obs_K. rewrite Hmech', Hmk', Hmk.
      destruct e as [e|].
      * destruct (st_recv_err _ _ _ _ _ _ _ Hrecv) as [_ [[-> Hrej]|(-> & Hr & ->)]]; destruct Hev as [-> _].
        -- cbn [AgentTrace.finals flat_map In]. destruct Hrej as [->|[_ ->]]; [tauto|].
           rewrite in_ins_iff. destruct (in_dec N.eq_dec x (markers c)); tauto.
        -- rewrite (Hrel Hr). cbn [In]. tauto.
      * destruct Hev as [-> _].
        destruct (st_recv_accept _ _ _ _ _ _ (rfc_filter_tail_ok _) Hrecv) as (_ & _ & _ & ->).
        unfold AgentTrace.finals. cbn [flat_map ev_final]. unfold is_response, is_ind. cbn [wmsg m_class m_id].
        destruct (m_class w) eqn:Hc; cbn [class_eqb opt_list app In] in *; try discriminate.
        -- intuition.
        -- rewrite in_del. destruct (N.eq_dec x (m_id w)); intuition congruence.
        -- rewrite in_del. destruct (N.eq_dec x (m_id w)); intuition congruence.
  - destruct (step_tmo_markers c now c' rep evs (R_inv _ _ _ _ HR) Hs) as (_ & _ & Hk & _).
    rewrite Hk, Hmk. cbn [In]. tauto.
Qed.

Theorem step_relmarkers c o c' rep evs st :
  Inv c -> mech_ c = MST st -> (reliable (cfg c) = true -> markers c = []) -> step c o = (c', rep, evs) ->
  reliable (cfg c') = true -> markers c' = [].
Proof.
  intros Hinv Hm Hrel Hs.
  destruct o as [now id r method app room|id method app room|now d w|now].
  - destruct (step_send_mech _ _ _ _ _ _ _ _ _ _ Hs) as (_ & -> & ->). exact Hrel.
  - rewrite (step_ind_mech _ _ _ _ _ _ _ _ Hs). exact Hrel.
  - destruct (step_recv_shape c now d w c' rep evs Hs) as [(-> & _)|(-> & _ & _ & e & mk1 & mech1 & Hstep & Htail)]; [exact Hrel|].
    destruct (recv_tail_cases _ _ _ _ _ _ _ _ Htail) as (_ & -> & -> & _). intros Hr.
    unfold mech_step in Hstep. rewrite Hm in Hstep.
    destruct (st_recv (reliable (cfg c)) (markers c) st (wmsg w)) as [[e0 mk0] st0] eqn:Hrecv. injection Hstep as -> -> <-.
    destruct e as [e|].
    + destruct (st_recv_err _ _ _ _ _ _ _ Hrecv) as [_ [[_ [->|[Hf _]]]|(_ & _ & ->)]]; [auto|congruence|auto].
    + destruct (st_recv_accept _ _ _ _ _ _ (rfc_filter_tail_ok _) Hrecv) as (_ & _ & _ & ->).
      rewrite (Hrel Hr). destruct (is_ind (wmsg w)); reflexivity.
  - destruct (step_tmo_markers c now c' rep evs Hinv Hs) as (_ & -> & Hk & _). intros Hr.
    destruct (markers c') as [|y l] eqn:Hmc; [reflexivity|]. exfalso.
    assert (Hy : In y (markers c)) by (apply Hk; left; reflexivity). rewrite (Hrel Hr) in Hy. destruct Hy.
Qed.
(* ------------------------------------------------------------------ C07: the verdict and the monitor's agreed kind *)
Lemma st_client_layout c st b app x :
  mech_ c = MST st -> prepare c b app = inl (Some x) ->
  exists A fp, flatten x = A ++ [UserName 0] ++ st_tail st ++ opt_list fp
               /\ has_ty 6 A = false /\ (forall a, In a A -> is_integ a = false) /\ slot_ok a_is_fp fp.
Proof.
  intros Hm Hp. unfold prepare in Hp. rewrite Hm in Hp.
  destruct (st_prepare_layout_client st app) as [Hfl Hno].
  assert (HA : forall a, In a (remove_first 6 (ord (of_list app))) -> is_integ a = false).
  { intros a Ha. apply in_remove_first in Ha. destruct (ainv_of_list app) as (Ho & _). apply (Ho a Ha). }
  exists (remove_first 6 (ord (of_list app))).
  destruct (use_fp (cfg c)); injection Hp as <-.
  - exists (Some (AFP true)). refine (conj _ (conj Hno (conj HA eq_refl))).
    rewrite <- (st_prepare_fp st (of_list app)) in Hfl. rewrite !app_assoc in Hfl.
    etransitivity; [exact (flatten_set_fp (st_prepare st (of_list app)) true _ Hfl)|]. rewrite <- !app_assoc. reflexivity.
  - exists (sl_fp (of_list app)). refine (conj Hfl (conj Hno (conj HA _))).
    destruct (ainv_of_list app) as (_ & _ & _ & Hf). exact Hf.
Qed.

Definition chk07 (s:st_mon) (fo:option (option msg)) : bool :=
  match fo with
  | Some (Some p) =>
      (count_ty 6 (m_attrs p) =? 1) && existsb (fun a => attr_eqb a (UserName 0)) (m_attrs p) &&
      match sm_agreed s with
      | Some IMI => existsb (fun a => attr_eqb a (AMI (KST 0))) (m_attrs p) && negb (existsb a_is_sha (m_attrs p))
      | Some ISHA => existsb (fun a => attr_eqb a (ASHA (KST 0))) (m_attrs p) && negb (existsb a_is_mi (m_attrs p))
      | None => existsb (fun a => attr_eqb a (AMI (KST 0))) (m_attrs p) && existsb (fun a => attr_eqb a (ASHA (KST 0))) (m_attrs p)
      end
  | Some None => false
  | None => true end.

Lemma count_ty_app ty a b : count_ty ty (a ++ b) = count_ty ty a + count_ty ty b.
Proof. unfold count_ty. rewrite filter_app, app_length. lia. Qed.
Lemma count_ty_absent ty l : has_ty ty l = false -> count_ty ty l = 0.
Proof.
  intros Hh. unfold count_ty. rewrite (filter_none (fun a => wire_type a =? ty) l); [reflexivity|].
  intros x Hx. apply N.eqb_neq. exact (has_ty_false_in ty l x Hh Hx).
Qed.

Lemma chk07_prepare c st s b id cl method app x :
  mech_ c = MST st -> sm_agreed s = st_agreed st -> prepare c b app = inl (Some x) ->
  chk07 s (Some (Some {| m_class := cl; m_method := method; m_id := id; m_attrs := flatten x |})) = true.
Proof.
  intros Hm Hag Hp. destruct (st_client_layout c st b app x Hm Hp) as (A & fp & Hfl & H6 & HA & Hfp).
  unfold chk07. cbn [m_attrs]. rewrite Hfl, Hag.
  assert (Hsha : forall a, In a A -> a_is_sha a = false).
  { intros a Ha. specialize (HA a Ha). unfold is_integ in HA. apply orb_false_iff in HA. apply HA. }
  assert (Hmi : forall a, In a A -> a_is_mi a = false).
  { intros a Ha. specialize (HA a Ha). unfold is_integ in HA. apply orb_false_iff in HA. apply HA. }
  rewrite count_ty_app, (count_ty_absent 6 A H6).
  rewrite (existsb_skip a_is_sha A _ Hsha), (existsb_skip a_is_mi A _ Hmi).
  rewrite !(existsb_app _ A). unfold st_tail.
  destruct (st_agreed st) as [[|]|]; destruct fp as [[]|]; cbn [slot_ok a_is_fp] in Hfp; try discriminate;
    cbn [opt_list List.app existsb]; rewrite ?orb_true_r; reflexivity.
Qed.

Lemma mon_C07_send cc s kb now id r method app o :
  (1 <=? cc_mech cc) && (cc_mech cc <=? 3) = true ->
  mon_C07 cc s kb (MSend now id r method app) o = (s, chk07 s (first_out o)).
Proof. intros Hk. unfold mon_C07. rewrite Hk. reflexivity. Qed.
Lemma mon_C07_ind cc s kb method app o :
  (1 <=? cc_mech cc) && (cc_mech cc <=? 3) = true ->
  mon_C07 cc s kb (MInd method app) o = (s, chk07 s (first_out o)).
Proof. intros Hk. unfold mon_C07. rewrite Hk. reflexivity. Qed.

Lemma st_code_range k : k = 1 \/ k = 2 \/ k = 3 -> (1 <=? k) && (k <=? 3) = true.
Proof. intros [->|[->| ->]]; reflexivity. Qed.

Lemma delivered_nil c c' o rep : delivered (obs_of c c' o rep []) = None.
Proof. reflexivity. Qed.
Lemma delivered_recv c c' o rep m : delivered (obs_of c c' o rep [Received m]) = Some (m_class m, m_id m).
Proof. reflexivity. Qed.

Theorem step_C07 mc cc c s ms used o c' rep evs st :
  R mc c ms used -> mech_ c = MST st -> (cc_mech cc = 1 \/ cc_mech cc = 2 \/ cc_mech cc = 3) ->
  cc_reliable cc = reliable (cfg c) -> sm_agreed s = st_agreed st ->
  (forall x, In x (ms_marked ms) <-> In x (markers c)) ->
  step c o = (c', rep, evs) ->
  let r := mon_C07 cc s (ms_marked ms) (mop_of o rep) (obs_of c c' o rep evs) in
  snd r = true /\ exists st', mech_ c' = MST st' /\ sm_agreed (fst r) = st_agreed st'.
Proof.
  intros HR Hm Hk Hrel Hag Hmk Hs. pose proof (st_code_range _ Hk) as Hrange. cbv zeta.
  destruct o as [now id r method app room|id method app room|now d w|now]; cbn [mop_of].
  - rewrite (mon_C07_send _ _ _ _ _ _ _ _ _ Hrange). cbn [fst snd].
    destruct (step_send_mech _ _ _ _ _ _ _ _ _ _ Hs) as (Hm' & _ & _). rewrite Hm' , Hm.
    split; [|exists st; auto].
    destruct (step_send_cases c now id r method app room) as [(rep0 & He & _)|(a & d & m1 & _ & Hp & _ & He)];
      rewrite He in Hs; inversion Hs; subst; clear Hs.
    + rewrite first_out_nil. reflexivity.
    + rewrite first_out_head. eapply chk07_prepare; eassumption.
  - rewrite (mon_C07_ind _ _ _ _ _ _ Hrange). cbn [fst snd].
    pose proof (step_ind_mech _ _ _ _ _ _ _ _ Hs) as Hc'. split; [|exists st; rewrite Hc'; auto].
    cbn [step] in Hs. destruct (prepare c false app) as [[a|]|e] eqn:Hp.
    + destruct room; cbn [negb] in Hs; injection Hs as <- <- <-.
      * rewrite first_out_head. eapply chk07_prepare; eassumption.
      * rewrite first_out_nil. reflexivity.
    + injection Hs as <- <- <-. rewrite first_out_nil. reflexivity.
    + injection Hs as <- <- <-. rewrite first_out_nil. reflexivity.
  - unfold mon_C07. rewrite Hrange. cbn [negb].
    destruct (step_recv_shape c now d w c' rep evs Hs) as [(-> & -> & _)|(-> & _ & Hrq & e & mk & mech' & Hstep & Htail)].
    + rewrite delivered_nil. cbn [fst snd obs_of ob_events map forallb]. split; [reflexivity|exists st; auto].
    + destruct (recv_tail_cases _ _ _ _ _ _ _ _ Htail) as (Hmech' & _ & _ & Hev).
      unfold mech_step in Hstep. rewrite Hm in Hstep.
      destruct (st_recv (reliable (cfg c)) (markers c) st (wmsg w)) as [[e0 mk0] st0] eqn:Hrecv. injection Hstep as -> -> <-.
      destruct e as [e|].
      * destruct (st_recv_err _ _ _ _ _ _ _ Hrecv) as [-> [[-> _]|(-> & Hr & _)]]; destruct Hev as [-> _].
        -- rewrite delivered_nil. cbn [fst snd obs_of ob_events map forallb]. split; [reflexivity|exists st; auto].
        -- cbn [delivered obs_of ob_events map oev_of find fst snd forallb]. rewrite Hrel, Hr. split; [reflexivity|exists st; auto].
      * destruct Hev as [-> _]. rewrite delivered_recv.
        pose proof (st_recv_accept _ _ _ _ _ _ (rfc_filter_tail_ok _) Hrecv) as Hacc. cbv zeta in Hacc.
        rewrite wmsg_attrs in Hacc. destruct Hacc as (Hv & Hb & Hst' & _).
        unfold is_ind in Hb, Hst'. cbn [wmsg m_class] in *. rewrite <- Hag in Hv, Hst'.
        cbn [fst snd]. split.
        -- fold (has (find a_is_mi (rfc_filter (m_attrs w)))). fold (has (find a_is_sha (rfc_filter (m_attrs w)))).
           rewrite Hv, Hb. reflexivity.
        -- exists st0. split; [exact Hmech'|]. rewrite Hst'.
           destruct (negb (class_eqb (m_class w) CIndication)); [|reflexivity]. destruct (sm_agreed s) eqn:Hsm; [exact Hsm|reflexivity].
  - unfold mon_C07. rewrite Hrange. cbn [negb fst snd].
    destruct (step_tmo_markers c now c' rep evs (R_inv _ _ _ _ HR) Hs) as (Hm' & _ & _ & Hr).
    split; [|exists st; rewrite Hm'; auto].
    cbn [obs_of ob_events]. apply forallb_forall. intros oe Hoe. apply in_map_iff in Hoe as (e & <- & Hine).
    destruct e as [i f p|i lf|i|i r|m]; cbn [oev_of]; try reflexivity; [destruct f; reflexivity|].
    rewrite (Hr i r Hine). unfold rsn. change (memN i (ms_marked ms)) with (mem i (ms_marked ms)).
    rewrite (mem_ext i (ms_marked ms) (markers c) (Hmk i)). destruct (mem i (markers c)); reflexivity.
Qed.
(* ------------------------------------------------------------------ C08: the long-term mechanism against the RFC 8489 9.2.4 server *)
(* the coupling between the mechanism state and the monitor's server record *)
Definition LInv (lt:lt_mech) (sv:lt_mon) : Prop :=
  match lt_pr lt with
  | None => lt_st lt = First /\ lm_challenged sv = false
  | Some p => lm_challenged sv = true /\ POk p /\ sv_agrees sv p /\ lt_st lt <> First
              /\ (lt_st lt = Retry401 -> lm_last sv = 1) /\ (lt_st lt = Retry438 -> lm_last sv = 2)
  end.
Lemma linv_init : LInv {| lt_st := First; lt_pr := None |} lt_mon0.
Proof. split; reflexivity. Qed.

Lemma lt_success_noretry rel mk s m mk' s' : lt_success rel mk s m = (Some ERetry, mk', s') -> False.
Proof.
  unfold lt_success. destruct (lt_pr s) as [p|]; [|discriminate].
  destruct (succ_scan _ _ None None) as [[mi sha]|]; [|discriminate].
  destruct (authenticate rel mk (p_key p) (p_integ p) m mi sha) as [[e0|] mk0] eqn:Ha; intros HE; inversion HE; subst.
  unfold authenticate in Ha. apply compute_mi_err in Ha as [HF|HF]; discriminate.
Qed.

Lemma lt_error_state rel mk s m e mk' s' :
  lt_error rel mk s m = (e, mk', s') ->
  s' = s \/ (e = Some ERetry /\ (get_code (rfc_filter (m_attrs m)) = Some 401
                                 \/ (get_code (rfc_filter (m_attrs m)) = Some 438 /\ exists p, lt_pr s = Some p))).
Proof.
  unfold lt_error.
  destruct (harvest_all harvest0 (rfc_filter (m_attrs m))) as [h|] eqn:Hh; [|intros HE; inversion HE; auto].
  apply harvest_all_cn in Hh as [Hhc _]. cbn [harvest0 h_code] in Hhc.
  destruct (h_bit_algs h && _); [intros HE; inversion HE; auto|].
  destruct (h_code h) as [code|]; [|intros HE; inversion HE; auto].
  destruct (N.eqb_spec code 401) as [E|E].
  { subst code. destruct (make_params h) as [p|]; [|intros HE; inversion HE; auto].
    destruct (has (h_mi h) || has (h_sha h)).
    - destruct (authenticate rel mk (p_key p) (p_integ p) m (h_mi h) (h_sha h)) as [[e0|] mk0]; intros HE; inversion HE; subst; auto.
    - intros HE; inversion HE; subst. auto. }
  destruct (N.eqb_spec code 438) as [E2|E2].
  { subst code. destruct (h_nonce h) as [n|]; [|intros HE; inversion HE; auto].
    destruct (lt_pr s) as [p|] eqn:Hp; [|intros HE; inversion HE; auto].
    destruct (has (h_mi h) || has (h_sha h)).
    - destruct (authenticate rel mk (p_key p) (p_integ p) m (h_mi h) (h_sha h)) as [[e0|] mk0]; intros HE; inversion HE; subst; [auto|].
      right. split; [reflexivity|]. right. split; [symmetry; exact Hhc|exists p; reflexivity].
    - intros HE; inversion HE; subst. right. split; [reflexivity|]. right. split; [symmetry; exact Hhc|exists p; reflexivity]. }
  destruct (lt_pr s) as [p|]; [|intros HE; inversion HE; auto].
  destruct (authenticate rel mk (p_key p) (p_integ p) m (h_mi h) (h_sha h)) as [e0 mk0]. intros HE; inversion HE; auto.
Qed.

Lemma lt_recv_err rel mk s m e mk' s' :
  lt_recv rel mk s m = (Some e, mk', s') ->
  (e <> ERetry /\ s' = s)
  \/ (e = ERetry /\ m_class m = CError
      /\ (get_code (rfc_filter (m_attrs m)) = Some 401
          \/ (get_code (rfc_filter (m_attrs m)) = Some 438 /\ exists p, lt_pr s = Some p))).
Proof.
  unfold lt_recv. destruct (m_class m) eqn:Hc.
  - intros HE; inversion HE; subst. left. split; [discriminate|reflexivity].
  - intros HE; inversion HE; subst. left. split; [discriminate|reflexivity].
  - destruct (lt_success rel mk s m) as [[[e0|] mk0] s0] eqn:Hs; intros HE; inversion HE; subst.
    left. split; [intros ->; eapply lt_success_noretry; exact Hs|eapply lt_success_state; exact Hs].
  - destruct (lt_error rel mk s m) as [[[e0|] mk0] s0] eqn:Hs; intros HE; inversion HE; subst.
    destruct (lt_error_state _ _ _ _ _ _ _ Hs) as [->|(He & Hcode)].
    + destruct e as [| | |]; try (left; split; [discriminate|reflexivity]).
      (* ERetry with an unchanged state cannot be excluded syntactically: redo through the state lemma *)
      right. split; [reflexivity|]. split; [reflexivity|].
      unfold lt_error in Hs.
      destruct (harvest_all harvest0 (rfc_filter (m_attrs m))) as [h|] eqn:Hh; [|discriminate].
      apply harvest_all_cn in Hh as [Hhc _]. cbn [harvest0 h_code] in Hhc.
      destruct (h_bit_algs h && _); [discriminate|].
      destruct (h_code h) as [code|]; [|discriminate].
      destruct (N.eqb_spec code 401) as [E|E]; [left; rewrite <- Hhc, E; reflexivity|].
      destruct (N.eqb_spec code 438) as [E2|E2].
      * right. split; [rewrite <- Hhc, E2; reflexivity|].
        destruct (h_nonce h) as [n|]; [|discriminate]. destruct (lt_pr s) as [p|]; [exists p; reflexivity|discriminate].
      * exfalso. destruct (lt_pr s) as [p|]; [|discriminate].
        destruct (authenticate rel mk (p_key p) (p_integ p) m (h_mi h) (h_sha h)) as [e0 mk1] eqn:Ha. inversion Hs; subst.
        unfold authenticate in Ha. apply compute_mi_err in Ha as [HF|HF]; discriminate.
    + inversion He; subst. right. auto.
Qed.

Lemma lt_cred_free_fp y g : lt_cred_free (flatten y) = true -> lt_cred_free (flatten (add_attr (AFP g) y)) = true.
Proof.
  unfold lt_cred_free, flatten. cbn [add_attr ord sl_mi sl_sha sl_fp opt_list]. rewrite !forallb_app.
  intros Hf. apply andb_true_iff in Hf as [H1 Hf]. apply andb_true_iff in Hf as [H2 Hf]. apply andb_true_iff in Hf as [H3 _].
  rewrite H1, H2, H3. reflexivity.
Qed.

Definition chk08 (s:lt_mon) (fo:option (option msg)) : N :=
  match fo with
  | None => 0
  | Some None => 9
  | Some (Some p) =>
      if negb (lm_challenged s) then (if lt_cred_free (m_attrs p) then 0 else 9)
      else match server_verdict s (m_attrs p) with
           | 0 => 0
           | 1 => if lm_last s =? 1 then 1 else 9
           | 2 => if lm_last s =? 2 then 2 else 9
           | _ => 9
           end
  end.
Lemma mon_C08_send cc s now id r method app o :
  cc_mech cc = 4 -> mon_C08 cc s (MSend now id r method app) o = (s, chk08 s (first_out o)).
Proof. intros Hk. unfold mon_C08. rewrite Hk. reflexivity. Qed.

Definition known (v:N) : Prop := v = 0 \/ v = 1 \/ v = 2.

Lemma chk08_prepare c lt sv id cl method app x :
  mech_ c = MLT lt -> LInv lt sv -> app_wf app -> prepare c true app = inl (Some x) ->
  known (chk08 sv (Some (Some {| m_class := cl; m_method := method; m_id := id; m_attrs := flatten x |}))).
Proof.
  intros Hm HL Hw Hp. unfold chk08. cbn [m_attrs]. unfold LInv in HL.
  destruct (lt_pr lt) as [p|] eqn:Hpr.
  - destruct HL as (Hch & HP & Hsv & Hnf & H401 & H438). rewrite Hch. cbn [negb].
    destruct (lt_client_verdicts c lt p sv app Hm Hpr HP Hsv) as (x' & Hx' & Hv). rewrite Hp in Hx'. injection Hx' as <-.
    destruct (lt_st lt) eqn:Hst.
    + contradiction.
    + rewrite Hv, (H401 eq_refl). right; left; reflexivity.
    + rewrite Hv. destruct (p_algs p); [rewrite (H438 eq_refl); right; right; reflexivity|left; reflexivity].
    + rewrite Hv. left; reflexivity.
  - destruct HL as (Hst & Hch). rewrite Hch. cbn [negb].
    unfold prepare in Hp. rewrite Hm in Hp. rewrite (lt_first_request_bare lt (of_list app) Hst) in Hp.
    pose proof (strip_lt_cred_free (of_list app) (ainv_of_list app) (oinv_of_list app Hw)) as Hfree.
    assert (Hf : lt_cred_free (flatten x) = true).
    { destruct (use_fp (cfg c)); injection Hp as <-; [exact (lt_cred_free_fp _ true Hfree)|exact Hfree]. }
    rewrite Hf. left; reflexivity.
Qed.
Lemma key_matches_mi P a sv p :
  tail_ok P = true -> In a P -> a_is_mi a = true -> keyd_eqb (mac_key a) (p_key p) = true ->
  p_key p = KLT (lm_realm sv) 0 MD5 ->
  match find a_is_mi P with Some ia => keyd_eqb (mac_key ia) (KLT (lm_realm sv) 0 MD5) | None => false end = true.
Proof. intros Ht Hin Ha Hk Hkey. rewrite (find_mi_unique P a Ht Hin Ha). rewrite <- Hkey. exact Hk. Qed.
Lemma key_matches_sha P a sv p al :
  tail_ok P = true -> In a P -> a_is_sha a = true -> keyd_eqb (mac_key a) (p_key p) = true ->
  p_key p = KLT (lm_realm sv) 0 al ->
  match find a_is_sha P with Some ia => keyd_eqb (mac_key ia) (KLT (lm_realm sv) 0 al) | None => false end = true.
Proof. intros Ht Hin Ha Hk Hkey. rewrite (find_sha_unique P a Ht Hin Ha). rewrite <- Hkey. exact Hk. Qed.

Theorem step_C08 cc c sv o c' rep evs lt :
  Inv c -> mech_ c = MLT lt -> cc_mech cc = 4 -> LInv lt sv ->
  step c o = (c', rep, evs) ->
  let r := mon_C08 cc sv (mop_of o rep) (obs_of c c' o rep evs) in
  (op_apps_ok o -> known (snd r)) /\ exists lt', mech_ c' = MLT lt' /\ LInv lt' (fst r).
Proof.
  intros Hinv Hm Hk HL Hs. cbv zeta.
  destruct o as [now id r method app room|id method app room|now d w|now]; cbn [mop_of op_apps_ok] in *.
  - rewrite (mon_C08_send _ _ _ _ _ _ _ _ Hk). cbn [fst snd].
    destruct (step_send_mech _ _ _ _ _ _ _ _ _ _ Hs) as (Hm' & _ & _). rewrite Hm', Hm.
    split; [intros Hok|exists lt; auto].
    destruct (step_send_cases c now id r method app room) as [(rep0 & He & _)|(a & d & m1 & _ & Hp & _ & He)];
      rewrite He in Hs; inversion Hs; subst; clear Hs.
    + rewrite first_out_nil. left; reflexivity.
    + rewrite first_out_head. eapply chk08_prepare; [exact Hm|exact HL|exact (proj1 Hok)|exact Hp].
  - rewrite (lt_send_indication_ignored c lt id method app room Hm) in Hs. injection Hs as <- <- <-.
    unfold mon_C08. rewrite Hk. cbn [N.eqb Pos.eqb negb fst snd obs_of ob_ret oret_of ob_events map].
    split; [intros _; left; reflexivity|exists lt; auto].
  - unfold mon_C08. rewrite Hk. change (negb (4 =? 4)) with false. cbv iota.
    destruct (step_recv_shape c now d w c' rep evs Hs) as [(-> & -> & _)|(-> & _ & Hrq & e & mk & mech' & Hstep & Htail)].
    + cbn [obs_of ob_events map existsb delivered find fst snd]. split; [intros _; left; reflexivity|exists lt; auto].
    + destruct (recv_tail_cases _ _ _ _ _ _ _ _ Htail) as (Hmech' & _ & _ & Hev).
      unfold mech_step in Hstep. rewrite Hm in Hstep.
      destruct (lt_recv (reliable (cfg c)) (markers c) lt (wmsg w)) as [[e0 mk0] lt0] eqn:Hrecv. injection Hstep as -> -> <-.
      destruct e as [e|].
      * destruct (lt_recv_err _ _ _ _ _ _ _ Hrecv) as [(Hne & ->)|(-> & Hcl & Hcode)].
        -- assert (Hq : evs = [] \/ exists i r, evs = [Failed i r]).
           { destruct e; try (destruct Hev as [-> _]); [left; reflexivity|right; eauto|right; eauto|contradiction]. }
           destruct Hq as [->|(i & r & ->)]; cbn [obs_of ob_events map oev_of existsb delivered find fst snd orb];
             (split; [intros _; left; reflexivity|exists lt; auto]).
        -- destruct Hev as [-> _]. cbn [wmsg m_class] in Hcl. rewrite wmsg_attrs in Hcode.
           cbn [obs_of ob_events map oev_of existsb delivered find fst snd orb].
           destruct Hcode as [Hcode|(Hcode & p & Hp)].
           ++ destruct (lt_401_agrees _ _ _ (wmsg w) _ _ Hcl ltac:(rewrite wmsg_attrs; exact Hcode) Hrecv)
                as (p & r & n & Hr & Hn & -> & HP & Hsv).
              rewrite wmsg_attrs in Hr, Hn, Hsv. rewrite Hcode, Hr, Hn. cbv iota. cbn [andb fst snd].
              split; [intros _; left; reflexivity|]. eexists. split; [exact Hmech'|].
              unfold LInv. cbn [lt_pr lt_st]. refine (conj eq_refl (conj HP (conj Hsv (conj _ (conj _ _))))); [discriminate|reflexivity|discriminate].
           ++ unfold LInv in HL. rewrite Hp in HL. destruct HL as (Hch & HP & Hsv & _).
              destruct (lt_438_agrees _ _ _ (wmsg w) _ _ p sv Hcl ltac:(rewrite wmsg_attrs; exact Hcode) Hp HP Hsv Hrecv)
                as (n & p' & Hn & -> & HP' & Hsv').
              rewrite wmsg_attrs in Hn. rewrite Hcode, Hn, Hch. cbv iota. cbn [andb fst snd].
              split; [intros _; left; reflexivity|]. eexists. split; [exact Hmech'|].
              unfold LInv. cbn [lt_pr lt_st lm_challenged lm_last].
              refine (conj eq_refl (conj HP' (conj Hsv' (conj _ (conj _ _))))); [discriminate|discriminate|reflexivity].
      * destruct Hev as [-> _].
        destruct (lt_accept_sound _ _ _ _ _ _ Hrecv) as ((p & a & Hp & Hin & Hkey & Hi & Hsh) & Hst' & Hpr' & Hresp).
        rewrite wmsg_attrs in Hin. unfold LInv in HL. rewrite Hp in HL. destruct HL as (Hch & HP & Hsv & _).
        cbn [obs_of ob_events map oev_of existsb delivered find fst snd orb wmsg m_class m_id].
        assert (Hcls : m_class w = CSuccess \/ m_class w = CError).
        { unfold is_response in Hresp. cbn [wmsg m_class] in Hresp. destruct (m_class w); try discriminate; auto. }
        assert (Hver : (lm_challenged sv &&
                  match lm_algs sv with
                  | None => match find a_is_mi (rfc_filter (m_attrs w)) with
                            | Some ia => keyd_eqb (mac_key ia) (KLT (lm_realm sv) 0
                                 match lm_algs sv with None => MD5 | Some l => match choose_alg l None with Some x => x | None => MD5 end end)
                            | None => false end
                  | Some _ => match find a_is_sha (rfc_filter (m_attrs w)) with
                              | Some ia => keyd_eqb (mac_key ia) (KLT (lm_realm sv) 0
                                 match lm_algs sv with None => MD5 | Some l => match choose_alg l None with Some x => x | None => MD5 end end)
                              | None => false end
                  end) = true).
        { rewrite Hch. cbn [andb]. destruct Hsv as (Hr & _ & Ha & _). destruct HP as (Hkp & Hint & Halg & Hnn).
          rewrite Ha. destruct (p_algs p) as [l|] eqn:El.
          - assert (Hisha : p_integ p = ISHA) by (apply Hint; discriminate).
            destruct (p_alg p) as [al|] eqn:Eal; [|exfalso; apply Hnn; [discriminate|reflexivity]].
            destruct (Halg al eq_refl) as (l' & Hl' & Hc). inversion Hl'; subst l'. rewrite Hc.
            eapply key_matches_sha; [apply rfc_filter_tail_ok|exact Hin|exact (Hsh Hisha)|exact Hkey|]. rewrite Hkp, Hr. reflexivity.
          - assert (Eal : p_alg p = None).
            { destruct (p_alg p) as [al|] eqn:Eal; [|reflexivity]. destruct (Halg al eq_refl) as (l' & Hl' & _). discriminate. }
            assert (Himi : p_integ p = IMI).
            { destruct (p_integ p) eqn:Ei; [reflexivity|]. exfalso. apply (proj1 Hint); reflexivity. }
            eapply key_matches_mi; [apply rfc_filter_tail_ok|exact Hin|exact (Hi Himi)|exact Hkey|]. rewrite Hkp, Hr, Eal. reflexivity. }
        split.
        -- intros _. destruct Hcls as [-> | ->]; rewrite Hver; left; reflexivity.
        -- exists lt0. split; [exact Hmech'|]. unfold LInv. rewrite Hpr', Hp. cbn [lm_challenged lm_last].
           refine (conj Hch (conj HP (conj Hsv (conj _ (conj _ _))))); rewrite Hst'; discriminate.
  - unfold mon_C08. rewrite Hk. cbn [N.eqb Pos.eqb negb fst snd].
    destruct (step_tmo_markers c now c' rep evs Hinv Hs) as (Hm' & _).
    split; [intros _; left; reflexivity|exists lt; rewrite Hm'; auto].
Qed.
(* ------------------------------------------------------------------ the invariant of the content monitors *)
Record CInv (cc:ccfg) (c:client) (s:mall) : Prop := {
  CI_fp : cc_fp cc = use_fp (cfg c);
  CI_rel : cc_reliable cc = reliable (cfg c);
  CI_mech : match mech_ c with
            | MNone => cc_mech cc = 0
            | MST st => (cc_mech cc = 1 \/ cc_mech cc = 2 \/ cc_mech cc = 3)
                        /\ sm_agreed (ma_st s) = st_agreed st
                        /\ (forall x, In x (ms_marked (ma_core s)) <-> In x (markers c))
                        /\ (reliable (cfg c) = true -> markers c = [])
            | MLT lt => cc_mech cc = 4 /\ LInv lt (ma_lt s)
            end }.

Lemma CInv_init cc cf m : consistent_cc cc cf m -> CInv cc (init cf m) (mall0 cc).
Proof.
  intros (Hfp & Hrel & Hm). constructor; cbn [init cfg mech_ markers]; [exact Hfp|exact Hrel|].
  destruct m as [|st|lt].
  - exact Hm.
  - unfold mall0. cbn [ma_st ma_core sm_agreed mstate0 ms_marked].
    destruct (st_agreed st) as [[|]|]; rewrite Hm; (split; [auto|]); (split; [reflexivity|]); (split; [intros x; tauto|reflexivity]).
  - destruct Hm as [Hk ->]. split; [exact Hk|]. unfold mall0. cbn [ma_lt]. exact linv_init.
Qed.
Lemma CInv_code cc c s : CInv cc c s -> mech_code_ok (mech_ c) (cc_mech cc).
Proof. intros HC. pose proof (CI_mech _ _ _ HC) as Hm. destruct (mech_ c); cbn [mech_code_ok]; [exact Hm|apply Hm|apply Hm]. Qed.
Lemma CInv_cpinv cc c s : CInv cc c s -> CPInv c.
Proof.
  intros HC. pose proof (CI_mech _ _ _ HC) as Hm. unfold CPInv. destruct (mech_ c) as [|st|lt]; try exact I.
  destruct Hm as [_ HL]. unfold LInv in HL. unfold PInv. destruct (lt_pr lt); [apply HL|exact I].
Qed.

Lemma monitor_step_st mc cc s op ob :
  ma_st (fst (monitor_step mc cc s op ob)) = fst (mon_C07 cc (ma_st s) (ms_marked (ma_core s)) op ob).
Proof.
  unfold monitor_step. destruct (mon_C07 cc (ma_st s) (ms_marked (ma_core s)) op ob) as [st' v07].
  destruct (mon_C08 cc (ma_lt s) op ob) as [lt' v08]. destruct (mon_C15 mc cc (ma_core s) (ma_rtt s) op ob) as [rt' v15].
  reflexivity.
Qed.
Lemma monitor_step_lt mc cc s op ob :
  ma_lt (fst (monitor_step mc cc s op ob)) = fst (mon_C08 cc (ma_lt s) op ob).
Proof.
  unfold monitor_step. destruct (mon_C07 cc (ma_st s) (ms_marked (ma_core s)) op ob) as [st' v07].
  destruct (mon_C08 cc (ma_lt s) op ob) as [lt' v08]. destruct (mon_C15 mc cc (ma_core s) (ma_rtt s) op ob) as [rt' v15].
  reflexivity.
Qed.
Lemma monitor_step_verdicts2 mc cc s op ob k b cl :
  In (k, b, cl) (snd (monitor_step mc cc s op ob)) ->
  (k = 7 -> b = snd (mon_C07 cc (ma_st s) (ms_marked (ma_core s)) op ob))
  /\ (k = 8 -> b = (snd (mon_C08 cc (ma_lt s) op ob) =? 0) /\ cl = snd (mon_C08 cc (ma_lt s) op ob))
  /\ (k = 10 -> b = mon_C10 cc op ob)
  /\ (k = 13 -> b = mon_C13 cc op ob).
Proof.
  unfold monitor_step. destruct (mon_C07 cc (ma_st s) (ms_marked (ma_core s)) op ob) as [st' v07].
  destruct (mon_C08 cc (ma_lt s) op ob) as [lt' v08]. destruct (mon_C15 mc cc (ma_core s) (ma_rtt s) op ob) as [rt' v15].
  cbn [snd In]. intros Hin.
  repeat (destruct Hin as [Hin|Hin];
          [inversion Hin; subst; (split; [|split; [|split]]); intros Hk; try discriminate Hk; try reflexivity; split; reflexivity|]).
  destruct Hin.
Qed.
Lemma monitor_step_has2 mc cc s op ob k :
  In k [7; 8; 10; 13] -> exists b cl, In (k, b, cl) (snd (monitor_step mc cc s op ob)).
Proof.
  unfold monitor_step. destruct (mon_C07 cc (ma_st s) (ms_marked (ma_core s)) op ob) as [st' v07].
  destruct (mon_C08 cc (ma_lt s) op ob) as [lt' v08]. destruct (mon_C15 mc cc (ma_core s) (ma_rtt s) op ob) as [rt' v15].
  cbn [snd]. intros Hk. cbn [In] in Hk.
  destruct Hk as [<-|[<-|[<-|[<-|[]]]]]; eexists _, _; cbn [In]; auto 15.
Qed.

Lemma step_mech_none c o c' rep evs : Inv c -> mech_ c = MNone -> step c o = (c', rep, evs) -> mech_ c' = MNone.
Proof.
  intros Hinv Hm Hs. destruct o as [now id r method app room|id method app room|now d w|now].
  - destruct (step_send_mech _ _ _ _ _ _ _ _ _ _ Hs) as (-> & _). exact Hm.
  - rewrite (step_ind_mech _ _ _ _ _ _ _ _ Hs). exact Hm.
  - destruct (step_recv_shape c now d w c' rep evs Hs) as [(-> & _)|(_ & _ & _ & e & mk & mech' & Hstep & Htail)]; [exact Hm|].
    destruct (recv_tail_cases _ _ _ _ _ _ _ _ Htail) as (-> & _). unfold mech_step in Hstep. rewrite Hm in Hstep.
    inversion Hstep; reflexivity.
  - destruct (step_tmo_markers c now c' rep evs Hinv Hs) as (-> & _). exact Hm.
Qed.

Theorem step_CInv mc cc c s used o c' rep evs :
  R mc c (ma_core s) used -> CInv cc c s -> step c o = (c', rep, evs) ->
  CInv cc c' (fst (monitor_step mc cc s (mop_of o rep) (obs_of c c' o rep evs))).
Proof.
  intros HR HC Hs. pose proof (R_inv _ _ _ _ HR) as Hinv.
  assert (Hcfg : cfg c' = cfg c) by (replace c' with (fst (fst (step c o))) by (rewrite Hs; reflexivity); apply cfg_step).
  constructor; rewrite ?Hcfg; [apply (CI_fp _ _ _ HC)|apply (CI_rel _ _ _ HC)|].
  pose proof (CI_mech _ _ _ HC) as Hm.
  destruct (mech_ c) as [|st|lt] eqn:Hmc.
  - rewrite (step_mech_none c o c' rep evs Hinv Hmc Hs). exact Hm.
  - destruct Hm as (Hk & Hag & Hmk & Hrm).
    destruct (step_C07 mc cc c (ma_st s) (ma_core s) used o c' rep evs st HR Hmc Hk (CI_rel _ _ _ HC) Hag Hmk Hs) as (_ & st' & Hm' & Hag').
    rewrite Hm'. refine (conj Hk (conj _ (conj _ _))).
    + rewrite monitor_step_st. exact Hag'.
    + rewrite monitor_step_core. exact (step_marked mc c (ma_core s) used o c' rep evs st HR Hmc Hmk Hrm Hs).
    + rewrite <- Hcfg. exact (step_relmarkers c o c' rep evs st Hinv Hmc Hrm Hs).
  - destruct Hm as (Hk & HL).
    destruct (step_C08 cc c (ma_lt s) o c' rep evs lt Hinv Hmc Hk HL Hs) as (_ & lt' & Hm' & HL').
    rewrite Hm'. split; [exact Hk|]. rewrite monitor_step_lt. exact HL'.
Qed.

(* ------------------------------------------------------------------ the lockstep run *)
Definition known_class (b:bool) (cl:N) : Prop := b = true \/ cl = 1 \/ cl = 2.

Lemma run_mon_content mc cc : forall ops c s used,
  R mc c (ma_core s) used -> CInv cc c s -> fresh_trace used ops ->
  forall vs k b cl, In vs (run_mon mc cc c s ops) -> In (k, b, cl) vs ->
  (k = 10 -> b = true) /\ (k = 7 -> b = true)
  /\ (wf_apps ops -> (k = 13 -> b = true) /\ (k = 8 -> known_class b cl)).
Proof.
  induction ops as [|o ops IH]; intros c s used HR HC Hfr vs k b cl Hvs Hin; cbn [run_mon] in Hvs; [destruct Hvs|].
  destruct Hfr as [Hfo Hfr].
  destruct (step c o) as [[c' rep] evs] eqn:Hs.
  pose proof (monitor_step_core mc cc s (mop_of o rep) (obs_of c c' o rep evs)) as Hcore.
  pose proof (monitor_step_verdicts2 mc cc s (mop_of o rep) (obs_of c c' o rep evs) k b cl) as Hver.
  pose proof (step_CInv mc cc c s used o c' rep evs HR HC Hs) as HC'.
  destruct (monitor_step mc cc s (mop_of o rep) (obs_of c c' o rep evs)) as [s' vs0]. cbn [fst snd] in *.
  destruct Hvs as [<-|Hvs].
  - destruct (Hver Hin) as (H7 & H8 & H10 & H13). pose proof (R_inv _ _ _ _ HR) as Hinv.
    pose proof (CI_mech _ _ _ HC) as Hm.
    refine (conj _ (conj _ _)).
    + intros Hk. rewrite (H10 Hk). exact (step_C10 cc c o c' rep evs Hinv (CI_fp _ _ _ HC) Hs).
    + intros Hk. rewrite (H7 Hk). destruct (mech_ c) as [|st|lt] eqn:Hmc.
      * unfold mon_C07. rewrite Hm. reflexivity.
      * destruct Hm as (Hkk & Hag & Hmk & _).
        exact (proj1 (step_C07 mc cc c (ma_st s) (ma_core s) used o c' rep evs st HR Hmc Hkk (CI_rel _ _ _ HC) Hag Hmk Hs)).
      * destruct Hm as (Hkk & _). unfold mon_C07. rewrite Hkk. reflexivity.
    + intros [Hok _]. split.
      * intros Hk. rewrite (H13 Hk).
        exact (step_C13 cc c o c' rep evs Hinv (CI_fp _ _ _ HC) (CInv_code _ _ _ HC) (CInv_cpinv _ _ _ HC) Hok Hs).
      * intros Hk. destruct (H8 Hk) as [-> ->]. unfold known_class. destruct (mech_ c) as [|st|lt] eqn:Hmc.
        -- unfold mon_C08. rewrite Hm. left; reflexivity.
        -- destruct Hm as (Hkk & _). unfold mon_C08. left. destruct Hkk as [->|[->| ->]]; reflexivity.
        -- destruct Hm as (Hkk & HL).
           destruct (proj1 (step_C08 cc c (ma_lt s) o c' rep evs lt Hinv Hmc Hkk HL Hs) Hok) as [->|[->| ->]]; auto.
  - assert (HR' : R mc c' (ma_core s') (used_step used o)) by (rewrite Hcore; apply (step_R mc c (ma_core s) used o c' rep evs HR Hfo Hs)).
    destruct (IH c' s' (used_step used o) HR' HC' Hfr vs k b cl Hvs Hin) as (A & B & C).
    refine (conj A (conj B _)). intros [_ Hw]. exact (C Hw).
Qed.

Lemma run_mon_judged2 mc cc : forall ops c s vs k,
  In vs (run_mon mc cc c s ops) -> In k [7; 8; 10; 13] -> exists b cl, In (k, b, cl) vs.
Proof.
  induction ops as [|o ops IH]; intros c s vs k Hvs Hk; cbn [run_mon] in Hvs; [destruct Hvs|].
  destruct (step c o) as [[c' rep] evs].
  pose proof (monitor_step_has2 mc cc s (mop_of o rep) (obs_of c c' o rep evs) k Hk) as Hhas.
  destruct (monitor_step mc cc s (mop_of o rep) (obs_of c c' o rep evs)) as [s' vs0]. cbn [snd] in Hhas.
  destruct Hvs as [<-|Hvs]; [exact Hhas|]. eapply IH; eassumption.
Qed.

(* ------------------------------------------------------------------ the theorems *)
Theorem model_meets_C13 cf m mc cc ops :
  consistent mc cf -> consistent_cc cc cf m -> well_formed_history ops -> wf_apps ops ->
  verdicts_true 13 (run_mon mc cc (init cf m) (mall0 cc) ops).
Proof.
  intros Hc Hcc Hwf Hw vs b cl Hvs Hin.
  destruct (run_mon_content mc cc ops (init cf m) (mall0 cc) [] (R_init mc cf m Hc) (CInv_init cc cf m Hcc) (wf_fresh _ _ _ Hwf)
              vs 13 b cl Hvs Hin) as (_ & _ & H). exact (proj1 (H Hw) eq_refl).
Qed.
Theorem model_meets_C10 cf m mc cc ops :
  consistent mc cf -> consistent_cc cc cf m -> well_formed_history ops ->
  verdicts_true 10 (run_mon mc cc (init cf m) (mall0 cc) ops).
Proof.
  intros Hc Hcc Hwf vs b cl Hvs Hin.
  destruct (run_mon_content mc cc ops (init cf m) (mall0 cc) [] (R_init mc cf m Hc) (CInv_init cc cf m Hcc) (wf_fresh _ _ _ Hwf)
              vs 10 b cl Hvs Hin) as (H & _). exact (H eq_refl).
Qed.
Theorem model_meets_C07 cf m mc cc ops :
  consistent mc cf -> consistent_cc cc cf m -> well_formed_history ops ->
  verdicts_true 7 (run_mon mc cc (init cf m) (mall0 cc) ops).
Proof.
  intros Hc Hcc Hwf vs b cl Hvs Hin.
  destruct (run_mon_content mc cc ops (init cf m) (mall0 cc) [] (R_init mc cf m Hc) (CInv_init cc cf m Hcc) (wf_fresh _ _ _ Hwf)
              vs 7 b cl Hvs Hin) as (_ & H & _). exact (H eq_refl).
Qed.
(* on the model the long-term monitor only ever reports the two listed known findings *)
Theorem model_meets_C08_known_only cf m mc cc ops :
  consistent mc cf -> consistent_cc cc cf m -> well_formed_history ops -> wf_apps ops ->
  forall vs b cl, In vs (run_mon mc cc (init cf m) (mall0 cc) ops) -> In (8, b, cl) vs -> b = true \/ cl = 1 \/ cl = 2.
Proof.
  intros Hc Hcc Hwf Hw vs b cl Hvs Hin.
  destruct (run_mon_content mc cc ops (init cf m) (mall0 cc) [] (R_init mc cf m Hc) (CInv_init cc cf m Hcc) (wf_fresh _ _ _ Hwf)
              vs 8 b cl Hvs Hin) as (_ & _ & H). exact (proj2 (H Hw) eq_refl).
Qed.
(* every step of the run is judged for the four content properties as well *)
Corollary model_meets_content cf m mc cc ops :
  consistent mc cf -> consistent_cc cc cf m -> well_formed_history ops -> wf_apps ops ->
  forall k, In k [7; 10; 13] -> verdicts_true k (run_mon mc cc (init cf m) (mall0 cc) ops).
Proof.
  intros Hc Hcc Hwf Hw k Hk. cbn [In] in Hk. destruct Hk as [<-|[<-|[<-|[]]]].
  - apply model_meets_C07; assumption.
  - apply model_meets_C10; assumption.
  - apply model_meets_C13; assumption.
Qed.

(* ------------------------------------------------------------------ a decision procedure for wf_apps, and examples *)
Definition attr_okb (a:attr) : bool :=
  match a with
  | App ty _ => negb (ty =? 8) && negb (ty =? 28) && negb (ty =? 32808)
  | AFP g => g
  | _ => true
  end.
Definition op_apps_okb (o:op) : bool :=
  match o with Send _ _ _ _ app _ => forallb attr_okb app | Indication _ _ app _ => forallb attr_okb app | _ => true end.
Lemma app_okb_spec app : forallb attr_okb app = true -> app_ok app.
Proof.
  rewrite forallb_forall. intros Hall. split.
  - intros a Ha. specialize (Hall a Ha). destruct a; cbn [attr_wf]; try exact I. cbn [attr_okb] in Hall.
    apply andb_true_iff in Hall as [Hall H3]. apply andb_true_iff in Hall as [H1 H2].
    apply negb_true_iff, N.eqb_neq in H1, H2, H3. auto.
  - intros Hin. specialize (Hall _ Hin). discriminate.
Qed.
Lemma wf_appsb_spec ops : forallb op_apps_okb ops = true -> wf_apps ops.
Proof.
  induction ops as [|o ops IH]; cbn [forallb wf_apps]; [auto|]. intros Hb. apply andb_true_iff in Hb as [Ho Hr].
  split; [|apply IH; exact Hr]. destruct o; cbn [op_apps_ok op_apps_okb] in *; try exact I; apply app_okb_spec; exact Ho.
Qed.

(* the history of AgentMeets (short-term mechanism learning the integrity kind, fingerprints on) is well formed in the
   sense of this file too, and the four content verdicts on it are the ones proved *)
Example ex_history_wf_apps : wf_apps ex_history.
Proof. apply wf_appsb_spec. vm_compute. reflexivity. Qed.
Example ex_consistent_cc : consistent_cc ex_cc ex_cf (MST {| st_agreed := None |}).
Proof. repeat split. Qed.
Example ex_history_content :
  map (fun vs => map (fun v => (fst (fst v), snd (fst v))) (filter (fun v => memN (fst (fst v)) [7; 8; 10; 13]) vs))
      (run_mon ex_mc ex_cc (init ex_cf (MST {| st_agreed := None |})) (mall0 ex_cc) ex_history)
  = repeat [(7, true); (8, true); (10, true); (13, true)] 20.
Proof. vm_compute. reflexivity. Qed.

(* a long-term history: bare first request, 401 challenge with PASSWORD-ALGORITHMS, the retry (finding D6), a 438 with a
   fresh nonce, the retry (finding D7), an authenticated success response, a subsequent request (accepted by the server),
   an indication (ignored), application attributes of the credential types (dropped), a response failing authentication *)
Definition lt_cf : config := {| reliable := false; cf_rm := 16; cf_rc := 7; limit := 4; use_fp := true |}.
Definition lt_mc : mcfg := {| mc_reliable := false; mc_rm := 16; mc_rc := 7; mc_limit := 4 |}.
Definition lt_cc : ccfg := {| cc_mech := 4; cc_fp := true; cc_reliable := false; cc_rto := 500; cc_gran := 1 |}.
Definition lt_m0 : mech := MLT {| lt_st := First; lt_pr := None |}.
Definition lt_history : list op :=
  [ Send 0 1 500 1 [App 32802 1; UserName 5; AMI (KST 9); Realm 77] true;
    Recv 10 true (ex_resp CError 1 [ErrorCode 401; Realm 7; Nonce 8 2; PwdAlgs [MD5; SHA256]; AFP true]);
    Send 20 2 500 1 [App 36 2] true;
    Recv 30 true (ex_resp CError 2 [ErrorCode 438; Nonce 9 1; AFP true]);
    Send 40 3 500 1 [] true;
    Recv 45 true (ex_resp CSuccess 3 [ASHA (KLT 7 1 SHA256); AFP true]);
    Recv 50 true (ex_resp CSuccess 3 [ASHA (KLT 7 0 SHA256); AFP true]);
    Send 60 4 500 1 [Nonce 88 0; PwdAlg MD5] true;
    Indication 9 1 [] true;
    Tmo 100000 ].
Example lt_history_wf : well_formed_history lt_history.
Proof.
  unfold well_formed_history, lt_history.
  repeat (first [ apply wf_nil
                | apply wf_send; [cbn [In]; intros Hin; repeat (destruct Hin as [Hin|Hin]; [discriminate Hin|]); exact Hin | lia | lia | ]
                | apply wf_ind
                | apply wf_recv; [lia|]
                | apply wf_tmo; [lia|] ]).
Qed.
Example lt_history_wf_apps : wf_apps lt_history.
Proof. apply wf_appsb_spec. vm_compute. reflexivity. Qed.
Example lt_consistent : consistent lt_mc lt_cf /\ consistent_cc lt_cc lt_cf lt_m0.
Proof. repeat split. Qed.
(* the (ok, class) pairs of property 8 along that run *)
Example lt_history_C08 :
  map (fun vs => map (fun v => (snd (fst v), snd v)) (filter (fun v => fst (fst v) =? 8) vs))
      (run_mon lt_mc lt_cc (init lt_cf lt_m0) (mall0 lt_cc) lt_history)
  = [[(true, 0)]; [(true, 0)]; [(false, 1)]; [(true, 0)]; [(false, 2)]; [(true, 0)]; [(true, 0)]; [(true, 0)]; [(true, 0)]; [(true, 0)]].
Proof. vm_compute. reflexivity. Qed.
Example lt_history_content :
  map (fun vs => map (fun v => (fst (fst v), snd (fst v))) (filter (fun v => memN (fst (fst v)) [7; 10; 13]) vs))
      (run_mon lt_mc lt_cc (init lt_cf lt_m0) (mall0 lt_cc) lt_history)
  = repeat [(7, true); (10, true); (13, true)] 10.
Proof. vm_compute. reflexivity. Qed.
Example lt_history_replies :
  map (fun o => oret_of (snd (fst o)))
      ((fix go (c:client) (ops:list op) := match ops with [] => [] | o :: r => let x := step c o in x :: go (fst (fst x)) r end)
         (init lt_cf lt_m0) lt_history)
  = [OOk; OOk; OOk; OOk; OOk; ODiscarded; OOk; OOk; OIgnored; OOk].
Proof. vm_compute. reflexivity. Qed.

(* the two known findings are genuine: the faithful model reproduces them on a well-formed history *)
Theorem model_C08_d6_reachable :
  exists cf m mc cc ops vs,
    consistent mc cf /\ consistent_cc cc cf m /\ well_formed_history ops /\ wf_apps ops
    /\ In vs (run_mon mc cc (init cf m) (mall0 cc) ops) /\ In (8, false, 1) vs.
Proof.
  exists lt_cf, lt_m0, lt_mc, lt_cc, lt_history, (nth 2 (run_mon lt_mc lt_cc (init lt_cf lt_m0) (mall0 lt_cc) lt_history) []).
  refine (conj (proj1 lt_consistent) (conj (proj2 lt_consistent) (conj lt_history_wf (conj lt_history_wf_apps _)))).
  vm_compute. split; [do 2 right; left; reflexivity|do 7 right; left; reflexivity].
Qed.
Theorem model_C08_d7_reachable :
  exists cf m mc cc ops vs,
    consistent mc cf /\ consistent_cc cc cf m /\ well_formed_history ops /\ wf_apps ops
    /\ In vs (run_mon mc cc (init cf m) (mall0 cc) ops) /\ In (8, false, 2) vs.
Proof.
  exists lt_cf, lt_m0, lt_mc, lt_cc, lt_history, (nth 4 (run_mon lt_mc lt_cc (init lt_cf lt_m0) (mall0 lt_cc) lt_history) []).
  refine (conj (proj1 lt_consistent) (conj (proj2 lt_consistent) (conj lt_history_wf (conj lt_history_wf_apps _)))).
  vm_compute. split; [do 4 right; left; reflexivity|do 7 right; left; reflexivity].
Qed.

(* the hypotheses on the application attributes are needed. `AFP false` (a FINGERPRINT with a wrong CRC handed in by the
   application, which the Rust API cannot express) would be sent as it is when fingerprints are off; `App 8 _` (an
   ordinary attribute of the MESSAGE-INTEGRITY type) sits next to the mechanism's own, and survives the stripping of
   the first long-term request *)
Definition none_cf : config := {| reliable := false; cf_rm := 16; cf_rc := 7; limit := 4; use_fp := false |}.
Definition none_cc : ccfg := {| cc_mech := 0; cc_fp := false; cc_reliable := false; cc_rto := 500; cc_gran := 1 |}.
Example wf_apps_needed_fp :
  well_formed_history [Send 0 1 500 1 [AFP false] true] /\ app_wf [AFP false]
  /\ map (fun vs => map (fun v => fst (fst v)) (filter (fun v => negb (snd (fst v))) vs))
         (run_mon lt_mc none_cc (init none_cf MNone) (mall0 none_cc) [Send 0 1 500 1 [AFP false] true]) = [[13]].
Proof.
  split; [|split].
  - apply wf_send; [intros []|lia|lia|apply wf_nil].
  - intros a [<-|[]]. exact I.
  - vm_compute. reflexivity.
Qed.
Example wf_apps_needed_junk :
  map (fun vs => map (fun v => (fst (fst v), snd v)) (filter (fun v => negb (snd (fst v))) vs))
      (run_mon lt_mc {| cc_mech := 4; cc_fp := false; cc_reliable := false; cc_rto := 500; cc_gran := 1 |}
               (init none_cf lt_m0) (mall0 {| cc_mech := 4; cc_fp := false; cc_reliable := false; cc_rto := 500; cc_gran := 1 |})
               [Send 0 1 500 1 [App 8 0] true]) = [[(8, 9)]].
Proof. vm_compute. reflexivity. Qed.
Example wf_apps_needed_junk13 :
  map (fun vs => map (fun v => fst (fst v)) (filter (fun v => negb (snd (fst v))) vs))
      (run_mon lt_mc {| cc_mech := 1; cc_fp := false; cc_reliable := false; cc_rto := 500; cc_gran := 1 |}
               (init none_cf (MST {| st_agreed := None |})) (mall0 {| cc_mech := 1; cc_fp := false; cc_reliable := false; cc_rto := 500; cc_gran := 1 |})
               [Send 0 1 500 1 [App 8 0] true]) = [[13]].
Proof. vm_compute. reflexivity. Qed.

Print Assumptions model_meets_C13.
Print Assumptions model_meets_C10.
Print Assumptions model_meets_C07.
Print Assumptions model_meets_C08_known_only.
Print Assumptions model_C08_d6_reachable.
Print Assumptions model_C08_d7_reachable.
Print Assumptions model_meets_content.
Print Assumptions run_mon_judged2.
Print Assumptions rfc_filter_tail_ok.
Print Assumptions rfc_filter_idem.
Print Assumptions ex_history_wf_apps.
Print Assumptions lt_history_wf.
