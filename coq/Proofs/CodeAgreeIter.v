(* Agreement of the agent's own implementation of the RFC 8489 ordering rule — ProtectedAttributeIteratorObject::next
   (stun-agent/src/lib.rs), GENERATED from /repo's current Rust text (Generated/Code.v, tools/rs2v.py; the `for attr in &mut
   self.iter` loop is a Fixpoint by structural recursion on the remaining attributes, a StunAttribute is abstracted to its
   kind) — with the decoder filter Filter.ignore_attribute, hence with the admission rule of the property text: the
   attributes the credential mechanisms read (C07, C08, C10, C13, C17) are exactly the admitted ones. *)
From Coq Require Import List NArith Bool.
Import ListNotations.
From Rustun Require Import Base.GRes Generated.Constants Generated.Code Codec.Filter.
Open Scope N_scope.

Definition kind_code (k:kind) : N := match k with Ord => 0 | MI => 1 | SHA => 2 | FP => 3 end.
Definition mk_iter (ks:list kind) (f:flt) : ProtectedAttributeIteratorObject :=
  {| ProtectedAttributeIteratorObject_iter := map kind_code ks; ProtectedAttributeIteratorObject_integrity := f_mi f;
     ProtectedAttributeIteratorObject_integrity_sha256 := f_sha f; ProtectedAttributeIteratorObject_fingerprint := f_fp f |}.

(* what one call of next() yields according to the decoder filter: skip the ignored attributes, return the first admitted one *)
Fixpoint spec_next (f:flt) (ks:list kind) : option (kind * flt * list kind) :=
  match ks with
  | [] => None
  | k :: r => let '(ig, f') := ignore_attribute f k in if ig then spec_next f r else Some (k, f', r)
  end.

Lemma gen_next_agrees : forall ks f,
  gen_ProtectedAttributeIterator_next (mk_iter ks f)
  = GOk (match spec_next f ks with
         | None => (None, mk_iter [] f)
         | Some (k, f', r) => (Some (kind_code k), mk_iter r f')
         end).
Proof.
  intros ks f. unfold gen_ProtectedAttributeIterator_next, mk_iter.
  cbn [ProtectedAttributeIteratorObject_iter ProtectedAttributeIteratorObject_integrity
       ProtectedAttributeIteratorObject_integrity_sha256 ProtectedAttributeIteratorObject_fingerprint].
  destruct f as [a b c]. cbn [f_mi f_sha f_fp]. revert a b c.
  induction ks as [|k r IH]; intros a b c.
  - reflexivity.
  - cbn [map gen_ProtectedAttributeIterator_next_loop_1 spec_next].
    destruct k; cbn [kind_code]; unfold attr_is_mi, attr_is_sha, attr_is_fp, ignore_attribute;
      cbn [N.eqb Pos.eqb is_mi is_sha is_fp f_mi f_sha f_fp andb negb];
      destruct a, b, c; cbn [orb andb negb]; try rewrite IH; reflexivity.
Qed.

(* all the attributes the iterator yields, in order *)
Fixpoint gen_collect (fuel:nat) (it:ProtectedAttributeIteratorObject) : list N :=
  match fuel with
  | O => []
  | S n => match gen_ProtectedAttributeIterator_next it with
           | GOk (Some a, it') => a :: gen_collect n it'
           | _ => []
           end
  end.
Fixpoint keep_admitted (bs:list bool) (ks:list kind) : list kind :=
  match bs, ks with b :: bs', k :: ks' => if b then k :: keep_admitted bs' ks' else keep_admitted bs' ks' | _, _ => [] end.

Lemma spec_next_len : forall ks f k f' r, spec_next f ks = Some (k, f', r) -> (length r < length ks)%nat.
Proof.
  induction ks as [|x ks IH]; intros f k f' r H; cbn [spec_next] in H; [discriminate|].
  destruct (ignore_attribute f x) as [ig g]. destruct ig.
  - apply IH in H. cbn [length]. apply PeanoNat.Nat.lt_lt_succ_r. exact H.
  - injection H as _ _ <-. cbn [length]. apply PeanoNat.Nat.lt_succ_diag_r.
Qed.
Lemma ignored_keeps_flags : forall f k, fst (ignore_attribute f k) = true -> snd (ignore_attribute f k) = f.
Proof. intros [a b c] k; destruct k, a, b, c; cbn; intros H; try discriminate; reflexivity. Qed.

Theorem gen_collect_is_filter : forall fuel ks f, (length ks < fuel)%nat ->
  gen_collect fuel (mk_iter ks f) = map kind_code (keep_admitted (run ignore_attribute f ks) ks).
Proof.
  induction fuel as [|n IHn]; intros ks f Hf; [inversion Hf|].
  cbn [gen_collect]. rewrite gen_next_agrees.
  induction ks as [|k r IHr] in f, Hf |- *.
  - reflexivity.
  - cbn [spec_next run keep_admitted].
    pose proof (ignored_keeps_flags f k) as Hk.
    destruct (ignore_attribute f k) as [ig f'] eqn:E. cbn [fst snd] in Hk. destruct ig; cbn [negb].
    + rewrite (Hk eq_refl). apply IHr. cbn [length] in Hf. apply PeanoNat.Nat.lt_succ_l in Hf. exact Hf.
    + cbn [keep_admitted map]. f_equal. apply IHn. cbn [length] in Hf. apply PeanoNat.Nat.succ_lt_mono in Hf. exact Hf.
Qed.

(* from the state a fresh protected_iter() starts in, the iterator yields exactly the attributes the ordering rule of the
   property text admits *)
Theorem code_protected_iter_is_rfc_rule : forall ks,
  gen_collect (S (length ks)) (mk_iter ks {| f_mi := false; f_sha := false; f_fp := false |})
  = map kind_code (keep_admitted (allow {| s_mi := false; s_sha := false; s_fp := false |} ks) ks).
Proof.
  intros ks. rewrite gen_collect_is_filter by apply PeanoNat.Nat.lt_succ_diag_r. rewrite C09_from_start. reflexivity.
Qed.
