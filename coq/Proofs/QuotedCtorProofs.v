(* The constructor part of C01 at full strength (after the repair of D8): every value that Nonce::new / Realm::new accept
   (Message.ctor_quoted / ctor_realm over the repaired trimming) is canonical: a quoted-text with nothing to trim, at most 509
   bytes, on which formatted_quoted_string_from is the identity and which the decoder of QuotedString returns unchanged —
   i.e. a value within the documented limits (av_wf), to which the round-trip theorem applies. The class
   `quoted-ctor-noncanonical` (Message.ctor_class = 1) is empty. *)
From Coq Require Import List NArith Lia Bool.
Import ListNotations.
From Rustun Require Import Base.Tlv Codec.AttrValue Codec.Message Proofs.AttrValueProofs Proofs.QuotedTrimProofs.
Open Scope N_scope.

Lemma ctor_quoted_inv s q : ctor_quoted s = VOk q ->
  exists cps, av_utf8 s = Some cps /\ av_formatted s cps = VOk q /\ len q <= 509.
Proof.
  unfold ctor_quoted. destruct (av_utf8 s) as [cps|]; [|discriminate].
  destruct (av_formatted s cps) as [q'| | |] eqn:F; try discriminate.
  destruct (N.ltb_spec 509 (len q')); [discriminate|]. intros E. injection E as <-. eauto.
Qed.
Lemma ctor_realm_inv s q : ctor_realm s = VOk q -> ctor_quoted s = VOk q.
Proof.
  unfold ctor_realm, av_precis. destruct s as [|b s]; [discriminate|].
  destruct (existsb av_is_ctl (b :: s)); [discriminate|]. destruct (existsb _ (b :: s)); [discriminate|]. auto.
Qed.
Lemma ctor_of_inv ty s q : ctor_of ty s = VOk q -> ctor_quoted s = VOk q.
Proof. unfold ctor_of. destruct (ty =? 20); [apply ctor_realm_inv|auto]. Qed.

(* Nonce::new: the stored value is canonical *)
Theorem ctor_quoted_canonical s q : ctor_quoted s = VOk q -> av_quoted_ok q = true /\ len q <= 509.
Proof.
  intros H. destruct (ctor_quoted_inv _ _ H) as (cps & Hu & F & L). split; [|exact L].
  exact (formatted_canonical _ _ _ Hu F).
Qed.
(* Realm::new likewise (ASCII realms: the PRECIS step is modelled there) *)
Theorem ctor_realm_canonical s q : ctor_realm s = VOk q -> av_quoted_ok q = true /\ len q <= 509.
Proof. intros H. apply (ctor_quoted_canonical s). apply ctor_realm_inv. exact H. Qed.

(* the full statement: grammar, idempotence of the formatting, decodes to itself, survives the round trip *)
Theorem ctor_full ty s q : ctor_of ty s = VOk q ->
  exists cq, av_utf8 q = Some cq /\ av_quoted_text cq = true /\ av_trimmed cq = true /\ len q <= 509 /\
             av_formatted q cq = VOk q /\ av_dec_quoted_string q = VOk q /\ quoted_roundtrips q = true /\
             ctor_quoted q = VOk q.
Proof.
  intros H. apply ctor_of_inv in H. destruct (ctor_quoted_inv _ _ H) as (cps & Hu & F & L).
  destruct (formatted_fixpoint _ _ _ Hu F) as (cq & Hq & G & T & F2 & D).
  exists cq. repeat split; auto.
  - unfold quoted_roundtrips. rewrite D. apply av_bytes_eqb_refl.
  - unfold ctor_quoted. rewrite Hq, F2. destruct (N.ltb_spec 509 (len q)); [lia|reflexivity].
Qed.

(* the class of the known finding D8 is empty for the repaired trimming *)
Theorem ctor_class_zero ty s : ctor_class ty s = 0.
Proof.
  unfold ctor_class. destruct (ctor_of ty s) as [q| | |] eqn:E; try reflexivity.
  destruct (ctor_full _ _ _ E) as (_ & _ & _ & _ & _ & _ & _ & R & _). rewrite R. reflexivity.
Qed.
(* and no accepted input leaves half a quoted-pair at the end *)
Theorem ctor_no_dangling ty s q : ctor_of ty s = VOk q -> quoted_roundtrips q = true.
Proof. intros E. destruct (ctor_full _ _ _ E) as (_ & _ & _ & _ & _ & _ & _ & R & _). exact R. Qed.

(* the stored value is within the documented limits of REALM (0x0014) / NONCE (0x0015): C01_value_roundtrip applies to it *)
Lemma forallb_firstn {A} (f:A -> bool) : forall n l, forallb f l = true -> forallb f (firstn n l) = true.
Proof.
  induction n as [|n IH]; intros l H; [reflexivity|]. destruct l as [|x l]; [reflexivity|].
  cbn [forallb firstn] in *. apply andb_prop in H as [Hx H]. rewrite Hx, (IH _ H). reflexivity.
Qed.
Lemma forallb_skipn {A} (f:A -> bool) : forall n l, forallb f l = true -> forallb f (skipn n l) = true.
Proof.
  induction n as [|n IH]; intros l H; [exact H|]. destruct l as [|x l]; [reflexivity|].
  cbn [forallb skipn] in *. apply andb_prop in H as [_ H]. exact (IH _ H).
Qed.
Theorem ctor_wf ty s q : ty = 20 \/ ty = 21 -> bytes_ok s = true -> ctor_of ty s = VOk q -> av_wf ty (AvQuoted q) = true.
Proof.
  intros Hty Hb H. apply ctor_of_inv in H. destruct (ctor_quoted_canonical _ _ H) as (Hok & L).
  destruct (ctor_quoted_inv _ _ H) as (cps & _ & F & _). destruct (formatted_slice _ _ _ F) as (i & j & ->).
  assert (B : bytes_ok (take j (drop i s)) = true).
  { unfold bytes_ok, take, drop in *. apply forallb_firstn, forallb_skipn. exact Hb. }
  assert (L' : (len (take j (drop i s)) <=? 509) = true) by (apply N.leb_le; exact L).
  destruct Hty as [-> | ->]; unfold av_wf;
    [change (av_registry 20) with (Some AvkQuoted)|change (av_registry 21) with (Some AvkQuoted)];
    cbv iota; rewrite B, Hok, L'; reflexivity.
Qed.

(* the trimming as it was before the repair: the witness of D8 *)
Example ctor_quoted_pinned_witness :
  ctor_quoted_pinned [97;98;99;92;34] = VOk [97;98;99;92] /\ quoted_roundtrips [97;98;99;92] = false.
Proof. vm_compute. split; reflexivity. Qed.
Example ctor_quoted_repaired_witness :
  ctor_quoted [97;98;99;92;34] = VOk [97;98;99;92;34] /\ quoted_roundtrips [97;98;99;92;34] = true.
Proof. vm_compute. split; reflexivity. Qed.
