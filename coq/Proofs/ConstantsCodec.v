(* Every constant the hand-written models use equals the one the translator (tools/gen_constants.py) extracted from the
   CURRENT source of /repo into Generated/Constants.v. Each lemma is closed by computation; a changed constant in the code
   makes the lemma that names it fail on the next run. *)
From Coq Require Import List NArith ZArith Bool.
Import ListNotations.
From Rustun Require Import Generated.Constants Base.Tlv Crypto.Crc Codec.InputText Codec.Wire Codec.AttrValue Codec.EncodeInto
                           Rfc.RfcLayout.
Open Scope N_scope.

(* ---- attribute type codes: each code of the source, BY NAME, is the code of the same attribute in the IANA table of the
   RFC reference (which is proved equal to the registry of the codec model: RfcLayoutProofs.registry_eq) *)
Lemma code_MAPPED_ADDRESS : rfc_lookup gen_T_MAPPED_ADDRESS = Some RfcLayout.MAPPED_ADDRESS.  Proof. reflexivity. Qed.
Lemma code_CHANGE_REQUEST : rfc_lookup gen_T_CHANGE_REQUEST = Some RfcLayout.CHANGE_REQUEST.  Proof. reflexivity. Qed.
Lemma code_USER_NAME : rfc_lookup gen_T_USER_NAME = Some RfcLayout.USERNAME.  Proof. reflexivity. Qed.
Lemma code_MESSAGE_INTEGRITY : rfc_lookup gen_T_MESSAGE_INTEGRITY = Some RfcLayout.MESSAGE_INTEGRITY.  Proof. reflexivity. Qed.
Lemma code_ERROR_CODE : rfc_lookup gen_T_ERROR_CODE = Some RfcLayout.ERROR_CODE.  Proof. reflexivity. Qed.
Lemma code_UNKNOWN_ATTRIBUTES : rfc_lookup gen_T_UNKNOWN_ATTRIBUTES = Some RfcLayout.UNKNOWN_ATTRIBUTES.  Proof. reflexivity. Qed.
Lemma code_CHANNEL_NUMBER : rfc_lookup gen_T_CHANNEL_NUMBER = Some RfcLayout.CHANNEL_NUMBER.  Proof. reflexivity. Qed.
Lemma code_LIFETIME : rfc_lookup gen_T_LIFETIME = Some RfcLayout.LIFETIME.  Proof. reflexivity. Qed.
Lemma code_XOR_PEER_ADDRESS : rfc_lookup gen_T_XOR_PEER_ADDRESS = Some RfcLayout.XOR_PEER_ADDRESS.  Proof. reflexivity. Qed.
Lemma code_DATA : rfc_lookup gen_T_DATA = Some RfcLayout.DATA.  Proof. reflexivity. Qed.
Lemma code_REALM : rfc_lookup gen_T_REALM = Some RfcLayout.REALM.  Proof. reflexivity. Qed.
Lemma code_NONCE : rfc_lookup gen_T_NONCE = Some RfcLayout.NONCE.  Proof. reflexivity. Qed.
Lemma code_XOR_RELAYED_ADDRESS : rfc_lookup gen_T_XOR_RELAYED_ADDRESS = Some RfcLayout.XOR_RELAYED_ADDRESS.  Proof. reflexivity. Qed.
Lemma code_REQUESTED_ADDRESS_FAMILY : rfc_lookup gen_T_REQUESTED_ADDRESS_FAMILY = Some RfcLayout.REQUESTED_ADDRESS_FAMILY.  Proof. reflexivity. Qed.
Lemma code_EVEN_PORT : rfc_lookup gen_T_EVEN_PORT = Some RfcLayout.EVEN_PORT.  Proof. reflexivity. Qed.
Lemma code_REQUESTED_TRANSPORT : rfc_lookup gen_T_REQUESTED_TRANSPORT = Some RfcLayout.REQUESTED_TRANSPORT.  Proof. reflexivity. Qed.
Lemma code_DONT_FRAGMENT : rfc_lookup gen_T_DONT_FRAGMENT = Some RfcLayout.DONT_FRAGMENT.  Proof. reflexivity. Qed.
Lemma code_MESSAGE_INTEGRITY_SHA256 : rfc_lookup gen_T_MESSAGE_INTEGRITY_SHA256 = Some RfcLayout.MESSAGE_INTEGRITY_SHA256.  Proof. reflexivity. Qed.
Lemma code_PASSWORD_ALGORITHM : rfc_lookup gen_T_PASSWORD_ALGORITHM = Some RfcLayout.PASSWORD_ALGORITHM.  Proof. reflexivity. Qed.
Lemma code_USER_HASH : rfc_lookup gen_T_USER_HASH = Some RfcLayout.USERHASH.  Proof. reflexivity. Qed.
Lemma code_XOR_MAPPED_ADDRESS : rfc_lookup gen_T_XOR_MAPPED_ADDRESS = Some RfcLayout.XOR_MAPPED_ADDRESS.  Proof. reflexivity. Qed.
Lemma code_RESERVATION_TOKEN : rfc_lookup gen_T_RESERVATION_TOKEN = Some RfcLayout.RESERVATION_TOKEN.  Proof. reflexivity. Qed.
Lemma code_PRIORITY : rfc_lookup gen_T_PRIORITY = Some RfcLayout.PRIORITY.  Proof. reflexivity. Qed.
Lemma code_USE_CANDIDATE : rfc_lookup gen_T_USE_CANDIDATE = Some RfcLayout.USE_CANDIDATE.  Proof. reflexivity. Qed.
Lemma code_PADDING : rfc_lookup gen_T_PADDING = Some RfcLayout.PADDING.  Proof. reflexivity. Qed.
Lemma code_RESPONSE_PORT : rfc_lookup gen_T_RESPONSE_PORT = Some RfcLayout.RESPONSE_PORT.  Proof. reflexivity. Qed.
Lemma code_ADDITIONAL_ADDRESS_FAMILY : rfc_lookup gen_T_ADDITIONAL_ADDRESS_FAMILY = Some RfcLayout.ADDITIONAL_ADDRESS_FAMILY.  Proof. reflexivity. Qed.
Lemma code_ADDRESS_ERROR_CODE : rfc_lookup gen_T_ADDRESS_ERROR_CODE = Some RfcLayout.ADDRESS_ERROR_CODE.  Proof. reflexivity. Qed.
Lemma code_PASSWORD_ALGORITHMS : rfc_lookup gen_T_PASSWORD_ALGORITHMS = Some RfcLayout.PASSWORD_ALGORITHMS.  Proof. reflexivity. Qed.
Lemma code_ICMP : rfc_lookup gen_T_ICMP = Some RfcLayout.ICMP.  Proof. reflexivity. Qed.
Lemma code_SOFTWARE : rfc_lookup gen_T_SOFTWARE = Some RfcLayout.SOFTWARE.  Proof. reflexivity. Qed.
Lemma code_ALTERNATE_SERVER : rfc_lookup gen_T_ALTERNATE_SERVER = Some RfcLayout.ALTERNATE_SERVER.  Proof. reflexivity. Qed.
Lemma code_FINGERPRINT : rfc_lookup gen_T_FINGERPRINT = Some RfcLayout.FINGERPRINT.  Proof. reflexivity. Qed.
Lemma code_ICE_CONTROLLED : rfc_lookup gen_T_ICE_CONTROLLED = Some RfcLayout.ICE_CONTROLLED.  Proof. reflexivity. Qed.
Lemma code_ICE_CONTROLLING : rfc_lookup gen_T_ICE_CONTROLLING = Some RfcLayout.ICE_CONTROLLING.  Proof. reflexivity. Qed.
Lemma code_RESPONSE_ORIGIN : rfc_lookup gen_T_RESPONSE_ORIGIN = Some RfcLayout.RESPONSE_ORIGIN.  Proof. reflexivity. Qed.
Lemma code_OTHER_ADDRESS : rfc_lookup gen_T_OTHER_ADDRESS = Some RfcLayout.OTHER_ADDRESS.  Proof. reflexivity. Qed.
Lemma code_MOBILITY_TICKET : rfc_lookup gen_T_MOBILITY_TICKET = Some RfcLayout.MOBILITY_TICKET.  Proof. reflexivity. Qed.

(* the source defines exactly the codes of the table, and the registry of the codec model knows exactly those *)
Lemma codes_complete : gen_attr_codes = map fst rfc_type_codes.  Proof. reflexivity. Qed.
Lemma registry_codes : forallb (fun ty => match av_registry ty with Some _ => true | None => false end) gen_attr_codes = true
  /\ map fst rfc_type_codes = registered.
Proof. split; reflexivity. Qed.
Lemma integrity_codes : gen_T_MESSAGE_INTEGRITY = T_MI /\ gen_T_MESSAGE_INTEGRITY_SHA256 = T_SHA /\ gen_T_FINGERPRINT = T_FP.
Proof. repeat split; reflexivity. Qed.

(* ---- header and integrity constants *)
Lemma magic_cookie : be32 gen_MAGIC_COOKIE = cookie_bytes /\ be32 gen_MAGIC_COOKIE = av_cookie /\ gen_MAGIC_COOKIE = RfcLayout.magic_cookie.
Proof. repeat split; reflexivity. Qed.
Lemma fingerprint_xor : forall pre, fp_value pre = N.lxor (crc32 pre) gen_FINGERPRINT_XOR.
Proof. reflexivity. Qed.
Lemma sizes : gen_MESSAGE_HEADER_SIZE = 20 /\ gen_ATTRIBUTE_HEADER_SIZE = 4 /\ gen_TRANSACTION_ID_SIZE = 12
  /\ gen_MESSAGE_INTEGRITY_SIZE = 20 /\ gen_FINGERPRINT_SIZE = 4 /\ gen_RESERVATION_TOKEN_SIZE = 8 /\ gen_ICMP_SIZE = 8
  /\ gen_CHANNEL_NUMBER_SIZE = 4 /\ gen_REQUESTED_TRANSPORT_SIZE = 4.
Proof. repeat split; reflexivity. Qed.
(* the model decoders use these sizes: exact lengths of MESSAGE-INTEGRITY / FINGERPRINT minimum, token and ICMP minimum *)
Lemma size_uses :
  av_dec_kind AvkMI [] (repeat 0 (N.to_nat gen_MESSAGE_INTEGRITY_SIZE)) = VOk (AvMI (repeat 0 20))
  /\ av_dec_kind AvkMI [] (repeat 0 (N.to_nat gen_MESSAGE_INTEGRITY_SIZE + 1)) = VErr
  /\ av_dec_kind AvkFp [] (repeat 0 (N.to_nat gen_FINGERPRINT_SIZE - 1)) = VErr
  /\ av_dec_kind AvkToken [] (repeat 0 (N.to_nat gen_RESERVATION_TOKEN_SIZE - 1)) = VErr
  /\ av_dec_kind AvkIcmp [] (repeat 0 (N.to_nat gen_ICMP_SIZE - 1)) = VErr
  /\ av_dec_kind AvkChan [] (repeat 0 (N.to_nat gen_CHANNEL_NUMBER_SIZE - 1)) = VErr
  /\ av_dec_kind AvkProto [] (repeat 0 (N.to_nat gen_REQUESTED_TRANSPORT_SIZE - 1)) = VErr.
Proof. vm_compute. repeat split; reflexivity. Qed.

(* ---- string limits: SOFTWARE / PADDING through the registry; USERNAME / REALM / NONCE / reason phrase at the boundary *)
Lemma text_limits : av_registry gen_T_SOFTWARE = Some (AvkText gen_SOFTWARE_MAX_ENCODED gen_SOFTWARE_MAX_DECODED)
  /\ av_registry gen_T_PADDING = Some (AvkText gen_PADDING_MAX_ENCODED gen_PADDING_MAX_DECODED).
Proof. split; reflexivity. Qed.
Definition letters (n:N) : bytes := repeat 97 (N.to_nat n).
Lemma decode_limits :
  av_dec_attr false [] gen_T_USER_NAME (letters gen_USER_NAME_MAX_DECODED) = VOk (AvUser (letters gen_USER_NAME_MAX_DECODED))
  /\ av_dec_attr false [] gen_T_USER_NAME (letters (gen_USER_NAME_MAX_DECODED + 1)) = VErr
  /\ av_dec_attr false [] gen_T_REALM (letters gen_REALM_MAX_DECODED) = VOk (AvQuoted (letters gen_REALM_MAX_DECODED))
  /\ av_dec_attr false [] gen_T_REALM (letters (gen_REALM_MAX_DECODED + 1)) = VErr
  /\ av_dec_attr false [] gen_T_NONCE (letters gen_NONCE_MAX_DECODED) = VOk (AvQuoted (letters gen_NONCE_MAX_DECODED))
  /\ av_dec_attr false [] gen_T_NONCE (letters (gen_NONCE_MAX_DECODED + 1)) = VErr
  /\ av_dec_attr false [] gen_T_ERROR_CODE ([0; 0; 4; 1] ++ letters gen_REASON_MAX_DECODED) = VOk (AvErr 401 (letters gen_REASON_MAX_DECODED))
  /\ av_dec_attr false [] gen_T_ERROR_CODE ([0; 0; 4; 1] ++ letters (gen_REASON_MAX_DECODED + 1)) = VErr.
Proof. vm_compute. repeat split; reflexivity. Qed.
Lemma encode_limits :
  av_wf gen_T_USER_NAME (AvUser (letters (gen_USER_NAME_MAX_ENCODED - 1))) = true
  /\ av_wf gen_T_USER_NAME (AvUser (letters gen_USER_NAME_MAX_ENCODED)) = false
  /\ av_wf gen_T_REALM (AvQuoted (letters gen_REALM_MAX_ENCODED)) = true
  /\ av_wf gen_T_REALM (AvQuoted (letters (gen_REALM_MAX_ENCODED + 1))) = false
  /\ av_wf gen_T_NONCE (AvQuoted (letters gen_NONCE_MAX_ENCODED)) = true
  /\ av_wf gen_T_NONCE (AvQuoted (letters (gen_NONCE_MAX_ENCODED + 1))) = false
  /\ av_wf gen_T_ERROR_CODE (AvErr 401 (letters gen_REASON_MAX_ENCODED)) = true
  /\ av_wf gen_T_ERROR_CODE (AvErr 401 (letters (gen_REASON_MAX_ENCODED + 1))) = false.
Proof. vm_compute. repeat split; reflexivity. Qed.
(* error codes: MIN <= code < MAX *)
Lemma error_code_range :
  av_wf gen_T_ERROR_CODE (AvErr gen_MIN_ERROR_CODE []) = true /\ av_wf gen_T_ERROR_CODE (AvErr (gen_MIN_ERROR_CODE - 1) []) = false
  /\ av_wf gen_T_ERROR_CODE (AvErr (gen_MAX_ERROR_CODE - 1) []) = true /\ av_wf gen_T_ERROR_CODE (AvErr gen_MAX_ERROR_CODE []) = false.
Proof. vm_compute. repeat split; reflexivity. Qed.

