(* Agreement of the RTO-estimator code GENERATED from /repo's current stun-agent/src/rtt.rs (Generated/Code.v:
   RttCalcuator::new / reset / update / rto, translated by tools/rs2v.py; the f32 constants ALPHA, BETA, 1.0 - ALPHA,
   1.0 - BETA and K as f32 are folded by the translator to binary32 values, Duration::mul_f32 is Agent/F32.mul_f32) with
   the exact estimator model Agent/F32.v (rtt_new / rtt_reset / rtt_update) that the C15 theorems are about: for every
   estimator state and every sample. *)
From Coq Require Import List NArith ZArith Bool.
From Rustun Require Import Base.GRes Generated.Constants Generated.Code Agent.F32.
Open Scope N_scope.

Definition conv_rtt (s:rtt_calc) : RttCalcuator :=
  {| RttCalcuator_rto := rc_rto s; RttCalcuator_srtt := rc_srtt s; RttCalcuator_rttvar := rc_rttvar s;
     RttCalcuator_granularity := rc_gran s; RttCalcuator_configured_rto := rc_conf s |}.

Lemma k_075 : (12582912, (-24)%Z) = c_075. Proof. vm_compute. reflexivity. Qed.
Lemma k_025 : (8388608, (-25)%Z) = c_025. Proof. vm_compute. reflexivity. Qed.
Lemma k_0875 : (14680064, (-24)%Z) = c_0875. Proof. vm_compute. reflexivity. Qed.
Lemma k_0125 : (8388608, (-26)%Z) = c_0125. Proof. vm_compute. reflexivity. Qed.
Lemma k_4 : (8388608, (-21)%Z) = c_4. Proof. vm_compute. reflexivity. Qed.

Lemma gen_rtt_new_agrees : forall rto gran, gen_RttCalcuator_new rto gran = conv_rtt (rtt_new rto gran).
Proof. intros. unfold gen_RttCalcuator_new, rtt_new, conv_rtt. cbn [rc_rto rc_srtt rc_rttvar rc_gran rc_conf]. reflexivity. Qed.
Lemma gen_rtt_reset_agrees : forall s, gen_RttCalcuator_reset (conv_rtt s) = GOk (conv_rtt (rtt_reset s)).
Proof.
  intros s. unfold gen_RttCalcuator_reset, rtt_reset, conv_rtt.
  cbn [RttCalcuator_rto RttCalcuator_srtt RttCalcuator_rttvar RttCalcuator_granularity RttCalcuator_configured_rto
       rc_rto rc_srtt rc_rttvar rc_gran rc_conf]. reflexivity.
Qed.
Lemma gen_rtt_rto_agrees : forall s, gen_RttCalcuator_rto (conv_rtt s) = rc_rto s.
Proof. intros s. unfold gen_RttCalcuator_rto, conv_rtt. cbn [RttCalcuator_rto]. reflexivity. Qed.
Lemma gen_rtt_update_agrees : forall s r, gen_RttCalcuator_update (conv_rtt s) r = GOk (conv_rtt (rtt_update s r)).
Proof.
  intros s r. unfold gen_RttCalcuator_update, rtt_update, conv_rtt.
  cbn [RttCalcuator_rto RttCalcuator_srtt RttCalcuator_rttvar RttCalcuator_granularity RttCalcuator_configured_rto].
  rewrite k_075, k_025, k_0875, k_0125, k_4.
  destruct (rc_srtt s =? 0); cbn [rc_rto rc_srtt rc_rttvar rc_gran rc_conf]; reflexivity.
Qed.
(* every record of the generated type is the image of a model state *)
Lemma conv_rtt_onto : forall g, exists s, g = conv_rtt s.
Proof. intros [a b c d e]. exists {| rc_rto := a; rc_srtt := b; rc_rttvar := c; rc_gran := d; rc_conf := e |}. reflexivity. Qed.
