From Coq Require Import List NArith Lia Bool.
Import ListNotations.
From Rustun Require Import Base.Tlv Crypto.Crc Crypto.Sha256 Crypto.Sha1Md5 Codec.EncodeInto Codec.InputText Codec.EncodeMsg Proofs.CryptoLen.
Open Scope N_scope.

(* success, size and buffer length of the encoder do not depend on buffer contents: only on lengths *)
Definition shape (st:res (bytes * N)) : res (N * N) :=
  match st with Ok (b, L) => Ok (len b, L) | Err => Err | Panic => Panic end.

Lemma enc_step_shape b1 b2 L t v1 v2 : len b1 = len b2 -> len v1 = len v2 ->
  shape (enc_step (Ok (b1, L)) (t, v1)) = shape (enc_step (Ok (b2, L)) (t, v2)).
Proof.
  intros Hb Hv. unfold enc_step. cbn [fst snd]. rewrite Hb, Hv.
  destruct (len b2 - (L + 20) <? 4) eqn:E1; [reflexivity|]. apply N.ltb_ge in E1.
  destruct (len b2 - (L + 20) - 4 <? len v2) eqn:E2; [reflexivity|]. apply N.ltb_ge in E2.
  destruct (65535 <? len v2); [reflexivity|].
  destruct (len b2 - (L + 20) - 4 - len v2 <? pad (len v2)) eqn:E3; [reflexivity|]. apply N.ltb_ge in E3.
  destruct (65535 <? L + 4 + len v2 + pad (len v2)); [reflexivity|].
  cbn [shape]. f_equal. f_equal.
  assert (Hw : forall b v, len b = len b2 -> len v = len v2 ->
     len (write_at 2 (be16 (L + 4 + len v2 + pad (len v2))) (write_at (L + 20) (be16 t ++ be16 (len v2) ++ v ++ zeros (pad (len v2))) b)) = len b2).
  { intros b v Hlb Hlv. rewrite len_write.
    - rewrite len_write; [exact Hlb|]. rewrite !len_app, !len_be16, len_zeros, Hlv, Hlb. lia.
    - rewrite len_write; [rewrite len_be16, Hlb; lia|]. rewrite !len_app, !len_be16, len_zeros, Hlv, Hlb. lia. }
  rewrite (Hw b1 v1 Hb Hv), (Hw b2 v2 eq_refl eq_refl). reflexivity.
Qed.

Lemma shape_ok st n L : shape st = Ok (n, L) -> exists b, st = Ok (b, L) /\ len b = n.
Proof. destruct st as [[b L']| |]; cbn; intros H; inversion H; subst. eexists; eauto. Qed.


Lemma enc_step_ok_room b L t v b' L' : enc_step (Ok (b, L)) (t, v) = Ok (b', L') ->
  L + 24 + len v <= len b /\ len b' = len b /\ L' = L + 4 + len v + pad (len v).
Proof.
  unfold enc_step. cbn [fst snd].
  destruct (len b - (L + 20) <? 4) eqn:E1; [discriminate|]. apply N.ltb_ge in E1.
  destruct (len b - (L + 20) - 4 <? len v) eqn:E2; [discriminate|]. apply N.ltb_ge in E2.
  destruct (65535 <? len v); [discriminate|].
  destruct (len b - (L + 20) - 4 - len v <? pad (len v)) eqn:E3; [discriminate|]. apply N.ltb_ge in E3.
  destruct (65535 <? L + 4 + len v + pad (len v)); [discriminate|].
  intros H. injection H as Hb HL. refine (conj _ (conj _ (eq_sym HL))); [lia|]. rewrite <- Hb.
  change (t / 256 :: t mod 256 :: len v / 256 :: len v mod 256 :: v ++ zeros (pad (len v))) with (be16 t ++ be16 (len v) ++ v ++ zeros (pad (len v))).
  rewrite len_write.
  - rewrite len_write; [reflexivity|]. rewrite !len_app, !len_be16, len_zeros. lia.
  - rewrite len_write; [rewrite len_be16; lia|]. rewrite !len_app, !len_be16, len_zeros. lia.
Qed.

Lemma len_placeholder_post a text v : post_value a text = Some v -> len v = len (e_placeholder a).
Proof.
  destruct a as [ty w|k|k|]; cbn [post_value e_placeholder]; intros H; inversion H; subst.
  - rewrite len_hmac_sha1, len_zeros. reflexivity.
  - rewrite len_hmac_sha256, len_zeros. reflexivity.
  - reflexivity.
Qed.

Lemma step2_shape st1 st2 a : shape st1 = shape st2 -> shape (enc_step2 st1 a) = shape (enc_step st2 (e_tlv a)).
Proof.
  destruct st1 as [[b1 L1]| |], st2 as [[b2 L2]| |]; cbn [shape]; intros H; try discriminate; try reflexivity.
  inversion H as [[Hl HL]]. subst L2. unfold enc_step2, e_tlv.
  pose proof (enc_step_shape b1 b2 L1 (e_type a) (e_placeholder a) (e_placeholder a) Hl eq_refl) as Hs.
  destruct (enc_step (Ok (b1, L1)) (e_type a, e_placeholder a)) as [[buf' L']| |] eqn:E; [|exact Hs|exact Hs].
  destruct (post_value a (take (L1 + 20) buf')) as [v|] eqn:Ev; [|exact Hs].
  rewrite <- Hs. cbn [shape]. f_equal. f_equal.
  apply enc_step_ok_room in E as (Hroom & Hlen & _).
  apply len_write. rewrite (len_placeholder_post _ _ _ Ev), Hlen. lia.
Qed.

Lemma fold_shape : forall l st1 st2, shape st1 = shape st2 ->
  shape (fold_left enc_step2 l st1) = shape (fold_left enc_step (map e_tlv l) st2).
Proof.
  induction l as [|a l IH]; intros st1 st2 H; cbn [fold_left map]; [exact H|].
  apply IH. apply step2_shape. exact H.
Qed.

(* C14 with integrity / fingerprint tails: success, returned size and buffer length are those of the plain encoder on the
   same attribute sizes — so "succeeds exactly when the buffer is at least as long as the message and the attributes fit
   16 bits" carries over from C14_encode_into *)
Theorem encode_msg_size buf typ txid l : length txid = 12%nat ->
  let fits := 20 + attr_bytes (map e_tlv l) <= len buf /\ attr_bytes (map e_tlv l) <= 65535
              /\ forallb (fun a => len (snd a) <=? 65535) (map e_tlv l) = true in
  (fits -> exists out, encode_msg buf typ txid l = Ok (out, 20 + attr_bytes (map e_tlv l)) /\ len out = len buf)
  /\ (~ fits -> encode_msg buf typ txid l = Err).
Proof.
  intros Htx fits.
  pose proof (C14_encode_into buf typ txid (map e_tlv l) Htx) as [Hok Herr]. fold fits in Hok, Herr.
  unfold encode_msg, encode_into in *.
  destruct (len buf <? 20) eqn:E20.
  { split; [intros (A & _); apply N.ltb_lt in E20; lia|reflexivity]. }
  pose proof (fold_shape l (Ok (write_at 0 (EncodeInto.header typ 0 txid) buf, 0)) (Ok (write_at 0 (EncodeInto.header typ 0 txid) buf, 0)) eq_refl) as Hs.
  split.
  - intros Hf. specialize (Hok Hf).
    assert (HX : len (EncodeInto.header typ (attr_bytes (map e_tlv l)) txid ++ enc_tlvs (map e_tlv l) ++ drop (20 + attr_bytes (map e_tlv l)) buf) = len buf).
    { rewrite !len_app, len_header, len_drop' by exact Htx. unfold attr_bytes in *. destruct Hf as (A & _). lia. }
    destruct (fold_left enc_step (map e_tlv l) _) as [[o L]| |] eqn:E1; try discriminate.
    destruct (fold_left enc_step2 l _) as [[o2 L2]| |]; cbn [shape] in Hs; try discriminate.
    injection Hs as Hl HL. subst L2. injection Hok as Ho HL2.
    exists o2. split; [f_equal; f_equal; exact HL2|]. rewrite Hl, Ho. exact HX.
  - intros Hn. specialize (Herr Hn).
    destruct (fold_left enc_step (map e_tlv l) _) as [[o L]| |] eqn:E1; try discriminate.
    destruct (fold_left enc_step2 l _) as [[o2 L2]| |]; cbn [shape] in Hs; try discriminate. reflexivity.
Qed.

(* the model meets the C14 monitor for every message and buffer *)
Theorem model_meets_C14 buf typ txid l : length txid = 12%nat ->
  monitor_C14 (len buf) l (match encode_msg buf typ txid l with Ok (_, n) => Some (Some n) | Err => Some None | Panic => None end) = true.
Proof.
  intros Htx. pose proof (encode_msg_size buf typ txid l Htx) as [Hok Herr]. cbn zeta in Hok, Herr.
  unfold monitor_C14, needed.
  assert (Hall : forallb (fun a => len (e_placeholder a) <=? 65535) l = forallb (fun a => len (snd a) <=? 65535) (map e_tlv l)).
  { clear. induction l as [|a l IH]; cbn [forallb map]; [reflexivity|]. rewrite IH. reflexivity. }
  rewrite Hall.
  destruct ((20 + attr_bytes (map e_tlv l) <=? len buf) && (attr_bytes (map e_tlv l) <=? 65535)
            && forallb (fun a => len (snd a) <=? 65535) (map e_tlv l)) eqn:F.
  - apply andb_prop in F as [F F3]. apply andb_prop in F as [F1 F2]. apply N.leb_le in F1, F2.
    destruct (Hok (conj F1 (conj F2 F3))) as (out & E & _). rewrite E. cbn [andb]. apply N.eqb_refl.
  - rewrite Herr; [reflexivity|]. intros (A & B & C).
    apply N.leb_le in A, B. rewrite A, B, C in F. discriminate.
Qed.
