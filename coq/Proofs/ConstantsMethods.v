(* The method constants of stun-rs/src/methods.rs, extracted from the CURRENT source of /repo (tools/gen_constants.py ->
   Generated/Constants.v), are the numbers of the IANA registry. Used by C02 only. *)
From Coq Require Import List NArith.
Import ListNotations.
From Rustun Require Import Generated.Constants.
Open Scope N_scope.

(* ---- method numbers of the IANA "STUN Methods" registry (RFC 8489 section 18.2: Binding 0x001, 0x002 reserved, was SharedSecret;
   RFC 8656 section 18.1: Allocate 0x003, Refresh 0x004, Send 0x006, Data 0x007, CreatePermission 0x008, ChannelBind 0x009) *)
Lemma method_numbers :
  [gen_M_RESERVED; gen_M_BINDING; gen_M_SHARED_SECRET; gen_M_ALLOCATE; gen_M_REFRESH; gen_M_SEND; gen_M_DATA; gen_M_CREATE_PERMMISSION; gen_M_CHANNEL_BIND]
  = [0; 1; 2; 3; 4; 6; 7; 8; 9].
Proof. reflexivity. Qed.
