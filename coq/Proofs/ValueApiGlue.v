(* The nonce-cookie reading of the agent suite's glue (Agent/AbsGlue.nonce_features, used by the C07 / C08 / C13 checks)
   agrees with the value-API model of nonce_cookie.rs (Codec/ValueApi.v) on every str. *)
From Coq Require Import List NArith ZArith Lia Bool Arith ZifyBool ZifyN.
Import ListNotations.
From Rustun Require Import Base.Tlv Codec.AttrValue Codec.MsgType Codec.ValueApi Agent.AbsGlue.
From Rustun Require Import Proofs.AttrValueProofs Proofs.ValueApiProofs.
Open Scope N_scope.
Ltac Zify.zify_post_hook ::= Z.div_mod_to_equations.

(* the two base64 tables are the same function on bytes *)
Definition b64_same (c:N) : bool :=
  match b64_val c, va_b64_val c with Some a, Some b => a =? b | None, None => true | _, _ => false end.
Lemma b64_same_all : forall_bits 8 b64_same = true. Proof. vm_compute. reflexivity. Qed.
Lemma b64_val_agree c : c < 256 -> b64_val c = va_b64_val c.
Proof.
  intros H. pose proof (forall_bits_spec 8 b64_same b64_same_all c H) as E. unfold b64_same in E.
  destruct (b64_val c), (va_b64_val c); try discriminate; [apply N.eqb_eq in E; subst|]; reflexivity.
Qed.
Lemma b64_ascii c v : va_b64_val c = Some v -> c < 0x80 /\ v < 64.
Proof.
  unfold va_b64_val.
  destruct (N.leb_spec 65 c); destruct (N.leb_spec c 90); cbn [andb]; try (intros E; injection E as <-; lia).
  all: destruct (N.leb_spec 97 c); destruct (N.leb_spec c 122); cbn [andb]; try (intros E; injection E as <-; lia).
  all: destruct (N.leb_spec 48 c); destruct (N.leb_spec c 57); cbn [andb]; try (intros E; injection E as <-; lia).
  all: destruct (N.eqb_spec c 43); try (intros E; injection E as <-; lia).
  all: destruct (N.eqb_spec c 47); try (intros E; injection E as <-; lia); discriminate.
Qed.

Lemma strip_prefix_spec : forall p s r, strip_prefix p s = Some r -> s = p ++ r.
Proof.
  induction p as [|x p IH]; intros s r H; [cbn in H; injection H as <-; reflexivity|].
  destruct s as [|y s]; [discriminate|]. cbn [strip_prefix] in H. destruct (N.eqb_spec x y) as [->|]; [|discriminate].
  cbn [app]. f_equal. apply IH. exact H.
Qed.
Lemma starts_with_strip : forall p s, va_starts_with p s = match strip_prefix p s with Some _ => true | None => false end.
Proof.
  induction p as [|x p IH]; intros s; [reflexivity|]. destruct s as [|y s]; [reflexivity|].
  cbn [va_starts_with strip_prefix]. destruct (x =? y); [apply IH|reflexivity].
Qed.

(* the features of the three decoded bytes: the two top bits of the first base64 character *)
Lemma features_of_quad v0 v1 v2 v3 : v0 < 64 -> v1 < 64 -> v2 < 64 -> v3 < 64 ->
  let n := ((v0 * 64 + v1) * 64 + v2) * 64 + v3 in
  va_features_of [n / 65536; (n / 256) mod 256; n mod 256] = VOk (32 <=? v0, 16 <=? v0 mod 32).
Proof.
  intros H0 H1 H2 H3 n. unfold va_features_of, av_rd32. cbn [app]. rewrite !len_cons, len_nil. cbn [N.add].
  change (0 + 1 + 1 + 1 + 1 <? 4) with false. cbn [av_bind]. unfold take. change (N.to_nat 4) with 4%nat. cbn [firstn av_rd_n].
  set (v := (((0 * 256 + n / 65536) * 256 + (n / 256) mod 256) * 256 + n mod 256) * 256 + 0).
  assert (B31 : N.testbit v 31 = (32 <=? v0)).
  { apply eq_true_iff_eq. rewrite N.leb_le. split; intros T.
    - destruct (N.lt_ge_cases v0 32) as [L|G]; [|exact G]. exfalso.
      assert (v < 2 ^ 31) by (subst v n; change (2 ^ 31) with 2147483648; lia).
      rewrite N.bits_above_log2 in T; [discriminate|]. destruct (N.eq_dec v 0) as [Z|NZ]; [rewrite Z; cbn; lia|].
      apply N.log2_lt_pow2; lia.
    - assert (E : N.b2n (N.testbit v 31) = (v / 2 ^ 31) mod 2) by apply N.testbit_spec'.
      assert ((v / 2 ^ 31) mod 2 = 1) by (subst v n; change (2 ^ 31) with 2147483648; lia).
      destruct (N.testbit v 31); [reflexivity|cbn in E; lia]. }
  assert (B30 : N.testbit v 30 = (16 <=? v0 mod 32)).
  { assert (E : N.b2n (N.testbit v 30) = (v / 2 ^ 30) mod 2) by apply N.testbit_spec'.
    change (2 ^ 30) with 1073741824 in E.
    destruct (N.leb_spec 16 (v0 mod 32)) as [G|L].
    - assert ((v / 1073741824) mod 2 = 1) by (subst v n; lia). destruct (N.testbit v 30); [reflexivity|cbn in E; lia].
    - assert ((v / 1073741824) mod 2 = 0) by (subst v n; lia). destruct (N.testbit v 30); [cbn in E; lia|reflexivity]. }
  rewrite B31, B30. reflexivity.
Qed.


Section Cookie.
Variables (c0 c1 c2 c3 : N) (r' : bytes).
Let s := va_cookie_header ++ c0 :: c1 :: c2 :: c3 :: r'.
Lemma ck_len : len s = 13 + len r'.
Proof. unfold s. rewrite len_app, !len_cons. change (len va_cookie_header) with 9. lia. Qed.
Lemma ck_cookie : va_is_nonce_cookie s = true.
Proof.
  unfold va_is_nonce_cookie. rewrite ck_len. destruct (N.leb_spec 13 (13 + len r')); [|lia].
  unfold s, va_cookie_header. cbn [app va_starts_with]. rewrite !N.eqb_refl. reflexivity.
Qed.
Lemma ck_get_some f : va_str_get s 9 13 = Some f -> f = [c0; c1; c2; c3].
Proof.
  unfold va_str_get. destruct (_ && _); [|discriminate]. intros E. injection E as <-.
  unfold take, drop, s, va_cookie_header. change (N.to_nat (13 - 9)) with 4%nat. change (N.to_nat 9) with 9%nat. reflexivity.
Qed.
Lemma ck_get_ascii : c0 < 0x80 -> c1 < 0x80 -> c2 < 0x80 -> c3 < 0x80 -> av_utf8 s <> None ->
  va_str_get s 9 13 = Some [c0; c1; c2; c3].
Proof.
  intros A0 A1 A2 A3 Hu.
  assert (B9 : av_is_boundary s 9 = true).
  { apply boundary_char; [rewrite ck_len; lia|]. unfold drop, s, va_cookie_header. change (N.to_nat 9) with 9%nat.
    cbn [app skipn lead_ok]. destruct (N.ltb_spec c0 0x80); [reflexivity|lia]. }
  assert (B13 : av_is_boundary s 13 = true).
  { apply boundary_char; [rewrite ck_len; lia|].
    assert (E : drop 13 s = r') by (unfold drop, s, va_cookie_header; change (N.to_nat 13) with 13%nat; reflexivity).
    rewrite E. apply utf8_lead_ok.
    assert (Es : s = (va_cookie_header ++ [c0; c1; c2; c3]) ++ r') by (unfold s; rewrite <- app_assoc; reflexivity).
    rewrite Es, utf8_ascii_app in Hu.
    - destruct (av_utf8 r'); congruence.
    - unfold va_cookie_header. cbn [app]. repeat constructor; assumption || lia. }
  destruct (va_str_get s 9 13) as [f|] eqn:G; [rewrite (ck_get_some f G); reflexivity|].
  unfold va_str_get in G. rewrite B9, B13, ck_len in G. destruct (N.leb_spec 13 (13 + len r')); [|lia]. discriminate G.
Qed.

Lemma ck_agree : c0 < 256 -> c1 < 256 -> c2 < 256 -> c3 < 256 -> av_utf8 s <> None ->
  match b64_val c0, b64_val c1, b64_val c2, b64_val c3 with
  | Some v0, Some _, Some _, Some _ => Some (Some (32 <=? v0, 16 <=? v0 mod 32))
  | _, _, _, _ => Some None
  end = Some (match va_security_features s with VOk f => Some f | _ => None end).
Proof.
  intros C0 C1 C2 C3 Hu. rewrite !b64_val_agree by assumption.
  unfold va_security_features. rewrite ck_cookie. cbn [negb].
  destruct (va_b64_val c0) as [v0|] eqn:E0; destruct (va_b64_val c1) as [v1|] eqn:E1;
  destruct (va_b64_val c2) as [v2|] eqn:E2; destruct (va_b64_val c3) as [v3|] eqn:E3.
  { destruct (b64_ascii _ _ E0), (b64_ascii _ _ E1), (b64_ascii _ _ E2), (b64_ascii _ _ E3).
    rewrite ck_get_ascii by assumption. unfold va_b64_dec3. rewrite E0, E1, E2, E3.
    rewrite features_of_quad by assumption. reflexivity. }
  all: destruct (va_str_get s 9 13) as [f|] eqn:G; [|reflexivity];
       rewrite (ck_get_some f G); unfold va_b64_dec3; rewrite ?E0, ?E1, ?E2, ?E3; reflexivity.
Qed.
End Cookie.

(* for every str: the glue's reading = is_nonce_cookie + security_features of the value-API model *)
Theorem nonce_features_agree s : bytes_ok s = true -> av_utf8 s <> None ->
  nonce_features s = if va_is_nonce_cookie s then Some (match va_security_features s with VOk f => Some f | _ => None end) else None.
Proof.
  intros Hb Hu. unfold nonce_features, nonce_cookie_header. change k_obMatJos2 with va_cookie_header.
  destruct (strip_prefix va_cookie_header s) as [r|] eqn:Es.
  - apply strip_prefix_spec in Es. subst s.
    destruct r as [|c0 [|c1 [|c2 [|c3 r']]]];
      try (unfold va_is_nonce_cookie; rewrite len_app, ?len_cons, len_nil; change (len va_cookie_header) with 9;
           match goal with |- context [13 <=? ?x] => destruct (N.leb_spec 13 x); [lia|] end; rewrite andb_false_r; reflexivity).
    rewrite ck_cookie.
    assert (Hc : c0 < 256 /\ c1 < 256 /\ c2 < 256 /\ c3 < 256).
    { unfold bytes_ok in Hb. rewrite forallb_app in Hb. apply andb_prop in Hb as [_ Hb]. cbn [forallb] in Hb.
      unfold byte_ok in Hb. apply andb_prop in Hb as [B0 Hb]. apply andb_prop in Hb as [B1 Hb].
      apply andb_prop in Hb as [B2 Hb]. apply andb_prop in Hb as [B3 Hb]. repeat split; apply N.ltb_lt; assumption. }
    destruct Hc as (C0 & C1 & C2 & C3). apply ck_agree; assumption.
  - unfold va_is_nonce_cookie. rewrite starts_with_strip, Es. reflexivity.
Qed.
