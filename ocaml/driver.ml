(* Correspondence driver: reads a case file written by the Rust harness, evaluates the extracted Gallina model
   (lines "M <idx> <canonical result>") and the Gallina spec monitors on the implementation's logged behaviour
   (lines "S <idx> <0|1> <monitor> <class>"). Parsing and printing only; no logic of its own. *)
open Model

let rec pos_of_int i = if i = 1 then XH else if i land 1 = 1 then XI (pos_of_int (i lsr 1)) else XO (pos_of_int (i lsr 1))
let n_of_int i = if i <= 0 then N0 else Npos (pos_of_int i)
let rec int_of_pos = function XH -> 1 | XO p -> 2 * int_of_pos p | XI p -> 2 * int_of_pos p + 1
let int_of_n = function N0 -> 0 | Npos p -> int_of_pos p

let split_sp s = String.split_on_char ' ' s
let explode s = List.init (String.length s) (String.get s)

let out = Buffer.create (1 lsl 16)
let flush_out () = print_string (Buffer.contents out); Buffer.clear out
let emit s = Buffer.add_string out s; Buffer.add_char out '\n'; if Buffer.length out > 60000 then flush_out ()

(* ---------------------------------------------------------------- suite: filter *)
let parse_opts s =
  if s = "N" then None
  else Some { o_validate = s.[0] = '1'; o_unknown = s.[1] = '1'; o_not_ignore = s.[2] = '1' }

let kind_of_char = function 'O' -> Ord | 'M' -> MI | 'S' -> SHA | 'F' -> FP | _ -> failwith "kind"

let render_positions = function
  | None -> "ERR"
  | Some [] -> "OK -"
  | Some l -> "OK " ^ String.concat "," (List.map (fun n -> string_of_int (int_of_n n)) l)

let parse_positions s =
  match split_sp s with
  | ["ERR"] -> Some None
  | ["OK"; "-"] -> Some (Some [])
  | ["OK"; l] -> Some (Some (List.map (fun x -> n_of_int (int_of_string x)) (String.split_on_char ',' l)))
  | _ -> None  (* PANIC, BADSIZE, FOREIGN: never equal to a model result; every monitor fails *)

let filter_suite () =
  let idx = ref 0 in
  let pending = ref None in
  (try
    while true do
      let line = input_line stdin in
      if String.length line > 2 && line.[0] = 'C' then begin
        match split_sp line with
        | [_; o; k; g] ->
          let ks = if k = "-" then [] else List.map kind_of_char (explode k) in
          let gs = if g = "-" then [] else List.map (fun c -> c = '1') (explode g) in
          pending := Some (parse_opts o, List.combine ks gs)
        | _ -> failwith ("bad record: " ^ line)
      end else if String.length line > 2 && line.[0] = 'I' then begin
        match !pending with
        | None -> failwith "I without C"
        | Some (ctx, l) ->
          let i = !idx in incr idx;
          emit (Printf.sprintf "M %d %s" i (render_positions (filter_case ctx l)));
          let obs = parse_positions (String.sub line 2 (String.length line - 2)) in
          let b f = match obs with Some o -> f ctx l o | None -> false in
          emit (Printf.sprintf "S %d %d C09 -" i (if b monitor_C09 then 1 else 0));
          emit (Printf.sprintf "S %d %d C18all -" i (if b monitor_C18_all then 1 else 0));
          pending := None
      end
    done
  with End_of_file -> ())


(* ---------------------------------------------------------------- suite: reasm *)
let hexval c = match c with '0'..'9' -> Char.code c - 48 | 'a'..'f' -> Char.code c - 87 | 'A'..'F' -> Char.code c - 55 | _ -> failwith "hex"
let small_n = Array.init 256 n_of_int
let bytes_of_hex s =
  if s = "-" then [] else
  let n = String.length s / 2 in
  List.init n (fun i -> small_n.(hexval s.[2*i] * 16 + hexval s.[2*i+1]))
let hex_of_bytes l =
  if l = [] then "-" else begin
    let b = Buffer.create 64 in
    List.iter (fun x -> Buffer.add_string b (Printf.sprintf "%02x" (int_of_n x))) l; Buffer.contents b end

let render_call = function
  | CDecoded (p, c) -> Printf.sprintf "D%d:%s" (int_of_n c) (hex_of_bytes p)
  | CMore None -> "M?"
  | CMore (Some k) -> Printf.sprintf "M%d" (int_of_n k)
  | CInvalid c -> Printf.sprintf "EI%d" (int_of_n c)
  | CSmall c -> Printf.sprintf "ES%d" (int_of_n c)
  | CPanic -> "P"
  | CNewRefused -> "NR"
let render_log l = String.concat "|" (List.map (fun cs -> String.concat "," (List.map render_call cs)) l)

let parse_call s =
  let n = String.length s in
  let num from = n_of_int (int_of_string (String.sub s from (n - from))) in
  if s = "P" then Some CPanic else if s = "NR" then Some CNewRefused
  else if s = "M?" then Some (CMore None)
  else if n > 1 && s.[0] = 'M' then Some (CMore (Some (num 1)))
  else if n > 2 && s.[0] = 'E' && s.[1] = 'I' then (try Some (CInvalid (num 2)) with _ -> None)
  else if n > 2 && s.[0] = 'E' && s.[1] = 'S' then (try Some (CSmall (num 2)) with _ -> None)
  else if n > 1 && s.[0] = 'D' then
    (match String.index_opt s ':' with
     | Some i -> (try Some (CDecoded (bytes_of_hex (String.sub s (i+1) (n-i-1)), n_of_int (int_of_string (String.sub s 1 (i-1))))) with _ -> None)
     | None -> None)
  else None
let parse_log s =
  let chunks = String.split_on_char '|' s in
  try Some (List.map (fun c -> if c = "" then [] else
      List.map (fun x -> match parse_call x with Some v -> v | None -> raise Exit) (String.split_on_char ',' c)) chunks)
  with Exit -> None

let reasm_suite () =
  let idx = ref 0 in
  let pending = ref None in
  (try
    while true do
      let line = input_line stdin in
      if String.length line > 2 && line.[0] = 'C' then begin
        match split_sp line with
        | _ :: b :: chunks -> pending := Some (n_of_int (int_of_string b), List.map bytes_of_hex chunks)
        | _ -> failwith ("bad record: " ^ line)
      end else if String.length line >= 2 && line.[0] = 'I' then begin
        match !pending with
        | None -> failwith "I without C"
        | Some (b, chunks) ->
          let i = !idx in incr idx;
          emit (Printf.sprintf "M %d %s" i (render_log (run_log b chunks)));
          let obs = parse_log (String.sub line 2 (String.length line - 2)) in
          let v = match obs with Some o -> monitor_C16 b chunks o | None -> false in
          emit (Printf.sprintf "S %d %d C16 -" i (if v then 1 else 0));
          let nopanic = not (String.contains line 'P') in
          emit (Printf.sprintf "S %d %d C03reasm -" i (if nopanic then 1 else 0));
          pending := None
      end
    done
  with End_of_file -> ())

(* ---------------------------------------------------------------- suite: agent *)
let nn s =
  if String.length s <= 18 then n_of_int (int_of_string s)
  else begin
    (* beyond OCaml's native int (usize::MAX limits, u64 instants): decimal digits folded with the extracted N arithmetic *)
    let acc = ref N0 in
    String.iter (fun ch ->
        if ch < '0' || ch > '9' then failwith "int_of_string";
        acc := N.add (N.mul !acc (n_of_int 10)) (n_of_int (Char.code ch - 48))) s;
    !acc
  end
let alg_of_int = function 1 -> MD5 | 2 -> SHA256 | n -> OtherAlg (n_of_int n)
let int_of_alg = function MD5 -> 1 | SHA256 -> 2 | OtherAlg n -> int_of_n n
let parse_keyd s =
  if s = "x" then KCorrupt
  else if s.[0] = 't' then KST (nn (String.sub s 1 (String.length s - 1)))
  else match String.split_on_char '.' (String.sub s 1 (String.length s - 1)) with
    | [r; p; a] -> KLT (nn r, nn p, alg_of_int (int_of_string a))
    | _ -> failwith "keyd"
let tok_keyd = function
  | KCorrupt -> "x" | KST p -> Printf.sprintf "t%d" (int_of_n p)
  | KLT (r, p, a) -> Printf.sprintf "g%d.%d.%d" (int_of_n r) (int_of_n p) (int_of_alg a)
let two r = match String.split_on_char '.' r with [a; b] -> (nn a, nn b) | _ -> failwith "two"
let parse_attr s =
  let r = String.sub s 1 (String.length s - 1) in
  match s.[0] with
  | 'a' -> let (t, g) = two r in App (t, g)
  | 'u' -> UserName (nn r)
  | 'h' -> let (u, x) = two r in UserHash (u, x)
  | 'r' -> Realm (nn r)
  | 'n' -> let (n, c) = two r in Nonce (n, c)
  | 'L' -> PwdAlgs (if r = "" then [] else List.map (fun x -> alg_of_int (int_of_string x)) (String.split_on_char '-' r))
  | 'l' -> PwdAlg (alg_of_int (int_of_string r))
  | 'e' -> ErrorCode (nn r)
  | 'm' -> AMI (parse_keyd r)
  | 's' -> ASHA (parse_keyd r)
  | 'f' -> AFP (r = "1")
  | _ -> failwith ("attr token " ^ s)
let parse_attrs s = if s = "-" then [] else List.map parse_attr (String.split_on_char ',' s)
let tok_attr = function
  | App (t, g) -> Printf.sprintf "a%d.%d" (int_of_n t) (int_of_n g)
  | UserName u -> Printf.sprintf "u%d" (int_of_n u)
  | UserHash (u, r) -> Printf.sprintf "h%d.%d" (int_of_n u) (int_of_n r)
  | Realm r -> Printf.sprintf "r%d" (int_of_n r)
  | Nonce (n, c) -> Printf.sprintf "n%d.%d" (int_of_n n) (int_of_n c)
  | PwdAlgs l -> "L" ^ String.concat "-" (List.map (fun a -> string_of_int (int_of_alg a)) l)
  | PwdAlg a -> Printf.sprintf "l%d" (int_of_alg a)
  | ErrorCode c -> Printf.sprintf "e%d" (int_of_n c)
  | AMI k -> "m" ^ tok_keyd k
  | ASHA k -> "s" ^ tok_keyd k
  | AFP g -> if g then "f1" else "f0"
let tok_attrs l = if l = [] then "-" else String.concat "," (List.map tok_attr l)
let class_of_int = function 0 -> CRequest | 1 -> CIndication | 2 -> CSuccess | _ -> CError
let int_of_class = function CRequest -> 0 | CIndication -> 1 | CSuccess -> 2 | CError -> 3

let render_reply = function
  | ROk (Some id) -> Printf.sprintf "ok:%d" (int_of_n id)
  | ROk None -> "ok" | RMaxOut -> "maxout" | RDiscarded -> "discarded" | RIgnored -> "ignored"
  | RStunCheck -> "stuncheck" | RInternal -> "internal"
let render_events evs =
  let items = ref [] and tmo = ref None in
  List.iter (function
    | Out (id, true, p) -> items := Printf.sprintf "out:%d:1:%d:%d:%s" (int_of_n id) (int_of_class p.m_class) (int_of_n p.m_method) (tok_attrs p.m_attrs) :: !items
    | Out (id, false, _) -> items := Printf.sprintf "out:%d:0:=" (int_of_n id) :: !items
    | Notif (_, left) -> tmo := Some (Printf.sprintf "tmo:%d" (int_of_n left))
    | Retry id -> items := Printf.sprintf "retry:%d" (int_of_n id) :: !items
    | Failed (id, r) -> items := Printf.sprintf "fail:%d:%s" (int_of_n id) (match r with TimedOut -> "timeout" | ProtectionViolated -> "violated" | DoNotRetry -> "donotretry") :: !items
    | Received m ->
      let tys = List.map (fun a -> string_of_int (int_of_n (wire_type a))) m.m_attrs in
      items := Printf.sprintf "recv:%d:%d:%d:%s" (int_of_class m.m_class) (int_of_n m.m_method) (int_of_n m.m_id) (if tys = [] then "-" else String.concat "," tys) :: !items) evs;
  let l = List.sort compare !items @ (match !tmo with Some t -> [t] | None -> []) in
  if l = [] then "-" else String.concat " " l
let render_snapshot (c : client) =
  let ts = List.sort compare (List.map (fun (id, x) -> (int_of_n id, match x.inst with Some _ -> 1 | None -> 0)) c.t) in
  let hs = List.sort compare (List.map (fun ((a, d), id) -> (int_of_n id, int_of_n a, int_of_n d)) c.h) in
  let ks = List.sort compare (List.map int_of_n c.markers) in
  let lst f l = if l = [] then "-" else String.concat "," (List.map f l) in
  let m = match c.mech_ with
    | MNone -> "none"
    | MST s -> Printf.sprintf "st:%d" (match s with None -> 0 | Some IMI -> 1 | Some ISHA -> 2)
    | MLT s ->
      let st = match s.lt_st with First -> 0 | Retry401 -> 1 | Retry438 -> 2 | Subsequent -> 3 in
      (match s.lt_pr with
       | None -> Printf.sprintf "lt:%d:-" st
       | Some p ->
         Printf.sprintf "lt:%d:%d.%d.%d.%s.%s.%d.%d" st (int_of_n p.p_realm) (int_of_n (fst p.p_nonce)) (int_of_n (snd p.p_nonce))
           (match p.p_algs with None -> "-" | Some l -> "L" ^ String.concat "-" (List.map (fun a -> string_of_int (int_of_alg a)) l))
           (match p.p_alg with None -> "-" | Some a -> string_of_int (int_of_alg a))
           (match p.p_integ with ISHA -> 1 | IMI -> 0) (if p.p_anon then 1 else 0)) in
  Printf.sprintf "T=%s;H=%s;K=%s;M=%s"
    (lst (fun (i, f) -> Printf.sprintf "%d.%d" i f) ts)
    (lst (fun (i, a, d) -> Printf.sprintf "%d.%d.%d" i a d) hs)
    (match c.mech_ with MNone -> "-" | _ -> lst string_of_int ks) m

let parse_obs (iline : string) (jline : string) (prev : string option) =
  let f = Array.of_list (String.split_on_char ';' iline) in
  if Array.length f <> 7 then None else begin
    let ret = match f.(0) with
      | "ok" -> OOk | "maxout" -> OMaxOut | "discarded" -> ODiscarded | "ignored" -> OIgnored
      | "stuncheck" -> OStunCheck | "internal" -> OInternal | "panic" -> OPanic
      | s when String.length s > 3 && String.sub s 0 3 = "ok:" -> OOk
      | _ -> OOther in
    let tmoid = List.fold_left (fun acc t ->
        if String.length t > 6 && String.sub t 0 6 = "tmoid=" then Some (nn (String.sub t 6 (String.length t - 6))) else acc)
        None (split_sp jline) in
    let evs = if f.(1) = "-" then [] else List.filter_map (fun e ->
        match String.split_on_char ':' e with
        | ["out"; id; "1"; c; m; toks] ->
          Some (EOut (nn id, true, true, (try Some { m_class = class_of_int (int_of_string c); m_method = nn m; m_id = nn id; m_attrs = parse_attrs toks } with _ -> None)))
        | "out" :: id :: "1" :: _ -> Some (EOut (nn id, true, true, None))
        | ["out"; id; "0"; "="] -> Some (EOut (nn id, false, true, None))
        | "out" :: id :: "0" :: _ -> Some (EOut (nn id, false, false, None))
        | ["tmo"; left] -> Some (ETmo ((match tmoid with Some i -> i | None -> nn "99999"), nn left))
        | ["retry"; id] -> Some (ERetry' (nn id))
        | ["fail"; id; r] -> Some (EFail (nn id, (match r with "timeout" -> TimedOut | "violated" -> ProtectionViolated | _ -> DoNotRetry)))
        | "recv" :: c :: _ :: id :: _ -> Some (ERecv (class_of_int (int_of_string c), nn id))
        | _ -> None) (split_sp f.(1)) in
    let body s = String.sub s 2 (String.length s - 2) in
    let lst s = if body s = "-" then [] else String.split_on_char ',' (body s) in
    let ts = List.map (fun x -> nn (List.hd (String.split_on_char '.' x))) (lst f.(2)) in
    let hs = List.map (fun x -> match String.split_on_char '.' x with [i; a; d] -> ((nn i, nn a), nn d) | _ -> failwith "H entry") (lst f.(3)) in
    let ks = List.map nn (lst f.(4)) in
    (* "nothing changed" also covers the RTT estimator state and the instant of the last request (field R=...) *)
    let key = f.(2) ^ ";" ^ f.(3) ^ ";" ^ f.(5) ^ ";" ^ f.(6) in
    let same = match prev with Some p -> p = key | None -> false in
    Some ({ ob_ret = ret; ob_events = evs; ob_T = ts; ob_H = hs; ob_K = ks; ob_same = same }, key)
  end

let render_est = function
  | None -> "R=-"
  | Some e -> Printf.sprintf "R=%d.%d.%d.%s" (int_of_n e.e_calc.rc_rto) (int_of_n e.e_calc.rc_srtt) (int_of_n e.e_calc.rc_rttvar)
                (match e.e_last with Some l -> string_of_int (int_of_n l) | None -> "-")
let agent_suite () =
  let est = ref None in
  let idx = ref 0 in
  let cl = ref None in
  let pending = ref None in
  let mcf = ref None in
  let ms = ref None in
  let prev = ref None in
  let last_i = ref None in
  (try
    while true do
      let line = input_line stdin in
      let n = String.length line in
      if n > 2 && line.[0] = 'H' then begin
        match split_sp line with
        | _ :: rel :: rto :: rm :: rc :: gran :: limit :: mech :: fp :: ([] | ["d"]) ->
          let cf = { reliable = rel = "1"; cf_rm = nn rm; cf_rc = nn rc; limit = nn limit; use_fp = fp = "1" } in
          let m = match mech with
            | "0" -> MNone | "1" -> MST None | "2" -> MST (Some IMI) | "3" -> MST (Some ISHA)
            | _ -> MLT { lt_st = First; lt_pr = None } in
          cl := Some (init cf m);
          let cc = { cc_mech = nn mech; cc_fp = fp = "1"; cc_reliable = rel = "1"; cc_rto = nn rto; cc_gran = nn gran } in
          mcf := Some ({ mc_reliable = rel = "1"; mc_rm = nn rm; mc_rc = nn rc; mc_limit = nn limit }, cc);
          ms := Some (mall0 cc);
          est := (if rel = "1" then None else Some (est0 (nn rto) (nn gran)));
          (* the snapshot of a fresh client *)
          prev := Some ("T=-;H=-;" ^ (match mech with "0" -> "M=none" | "1" -> "M=st:0" | "2" -> "M=st:1" | "3" -> "M=st:2" | _ -> "M=lt:0:-")
                        ^ ";" ^ (if rel = "1" then "R=-" else "R=" ^ rto ^ ".0.0.-"))
        | _ -> failwith ("bad H: " ^ line)
      end else if n > 2 && line.[0] = 'O' then begin
        let f = Array.of_list (split_sp line) in
        let op, mo = match f.(1) with
          | "S" ->
            (* the model computes the initial interval itself on unreliable transport (exact estimator, Agent/RttExact.v);
               the monitors judge the interval the implementation reported *)
            let r_model = (match !est with Some e -> est_rto_for_send e (nn f.(2)) | None -> nn f.(4)) in
            Send (nn f.(2), nn f.(3), r_model, nn f.(5), parse_attrs f.(7), f.(6) = "1"), MSend (nn f.(2), nn f.(3), nn f.(4), nn f.(5), parse_attrs f.(7))
          | "N" -> Indication (nn f.(2), nn f.(3), parse_attrs f.(5), f.(4) = "1"), MInd (nn f.(3), parse_attrs f.(5))
          | "R" ->
            let m = { m_class = class_of_int (int_of_string f.(4)); m_method = nn f.(5); m_id = nn f.(6); m_attrs = parse_attrs f.(7) } in
            Recv (nn f.(2), f.(3) = "1", m), MRecv (nn f.(2), f.(3) = "1", m)
          | "T" -> Tmo (nn f.(2)), MTmo (nn f.(2))
          | _ -> failwith ("bad O: " ^ line) in
        pending := Some (op, mo)
      end else if n >= 2 && line.[0] = 'I' then begin
        match !cl, !pending with
        | Some c, Some (op, _) ->
          let i = !idx in incr idx;
          let ((c', rep), evs) = step c op in
          cl := Some c';
          est := (match !est with Some e -> Some (est_step e c op rep evs) | None -> None);
          emit (Printf.sprintf "M %d %s;%s;%s;%s" i (render_reply rep) (render_events evs) (render_snapshot c') (render_est !est));
          last_i := Some (i, String.sub line 2 (n - 2))
        | _ -> failwith "I without H/O"
      end else if n >= 1 && line.[0] = 'J' then begin
        match !last_i, !pending, !mcf, !ms with
        | Some (i, il), Some (_, mo), Some (c, cc), Some st ->
          (match parse_obs il (if n > 2 then String.sub line 2 (n - 2) else "") !prev with
           | None -> List.iter (fun k -> emit (Printf.sprintf "S %d 0 C%02d unparsable" i k)) [3]
           | Some (o, key) ->
             if not (mon_C13_ltkey cc st.ma_lt mo o) then begin
               emit (Printf.sprintf "S %d 0 C13 lt-integrity-key" i);
               (* C08: "an integrity attribute (SHA-256 if algorithms were offered, otherwise SHA-1) that verifies under the key
                  derived from user, realm and password": judged here as well, because the 9.2.4 server verdict of mon_C08 stops
                  at the missing algorithm attributes of the known finding D7 before it looks at the integrity kind *)
               emit (Printf.sprintf "S %d 0 C08 lt-integrity-key" i)
             end;
             if not (mon_C13_ltcred cc st.ma_lt mo o) then emit (Printf.sprintf "S %d 0 C13 lt-credential-attributes" i);
             (* C17: bytes that are not a STUN message are rejected and change nothing, not even a marker *)
             if not (mon_C17_undecodable st.ma_core mo o) then emit (Printf.sprintf "S %d 0 C17 undecodable-not-rejected" i);
             (* C07: a response without acceptable integrity fails the request (reliable) / marks it (unreliable) *)
             if not (mon_C07_reject cc st.ma_core st.ma_st mo o) then emit (Printf.sprintf "S %d 0 C07 st-bad-response-not-rejected" i);
             (* C08: a plain 401 / 438 challenge for an outstanding request is answered by the retry notification *)
             if not (mon_C08_retry cc st.ma_core st.ma_lt mo o) then emit (Printf.sprintf "S %d 0 C08 lt-challenge-not-retried" i);
             (* C06: before any response time has been measured the timeout in effect is the configured RTO *)
             if not (mon_C06_initial c cc st.ma_rtt mo o) then emit (Printf.sprintf "S %d 0 C06 initial-transmission" i);
             let (s', vs) = monitor_step c cc st mo o in
             ms := Some s'; prev := Some key;
             if List.mem "pwleak=1" (split_sp (if n > 2 then String.sub line 2 (n - 2) else "")) then
               emit (Printf.sprintf "S %d %d C08 password-on-wire" i (if mon_C08_secret true then 1 else 0));
             List.iter (fun ((k, v), cls) ->
                 let tag = match int_of_n k, int_of_n cls with
                   | 8, 1 -> "lt-retry401-no-integrity" | 8, 2 -> "lt-retry438-no-algorithms" | _ -> "-" in
                 emit (Printf.sprintf "S %d %d C%02d %s" i (if v then 1 else 0) (int_of_n k) tag)) vs);
          pending := None; last_i := None
        | _ -> ()
      end
    done
  with End_of_file -> ())

(* ---------------------------------------------------------------- suite: wire *)
let render_wres = function
  | WOk (size, ps) -> Printf.sprintf "OK %d %s" (int_of_n size) (if ps = [] then "-" else String.concat "," (List.map (fun p -> string_of_int (int_of_n p)) ps))
  | WErr -> "ERR" | WPanic -> "PANIC" | WUnmodelled -> "UNMODELLED"
let parse_ores s =
  match split_sp s with
  | ["OK"; size; "-"] -> OOkR (nn size, [])
  | ["OK"; size; ps] -> OOkR (nn size, List.map nn (String.split_on_char ',' ps))
  | ["ERR"] -> OErrR
  | _ -> OBad
let opts_of v u n = { o_validate = v; o_unknown = u; o_not_ignore = n }
let wire_suite () =
  let idx = ref 0 in
  let pending = ref None in
  let last = ref None in
  (try
    while true do
      let line = input_line stdin in
      let n = String.length line in
      if n > 2 && line.[0] = 'C' then begin
        match split_sp line with
        | _ :: "K" :: "S" :: [pw] -> pending := Some (`Key (st_key (bytes_of_hex pw)))
        | _ :: "K" :: "L" :: [u; r; p; a] -> pending := Some (`Key (lt_key (bytes_of_hex u) (bytes_of_hex r) (bytes_of_hex p) (nn a)))
        | [_; "F"; kind; _key; _buf] -> pending := Some (`Fault kind)
        | [_; key; buf] -> pending := Some (`Case (bytes_of_hex key, bytes_of_hex buf))
        | _ -> failwith ("bad record: " ^ line)
      end else if n >= 2 && line.[0] = 'I' then begin
        let i = !idx in incr idx;
        let body = String.sub line 2 (n - 2) in
        (match !pending with
         | Some (`Key r) ->
           let m = (match r with VOk k -> "OK " ^ hex_of_bytes k | VErr -> "ERR" | VPanic -> "PANIC" | VUnmodelled -> "UNMODELLED") in
           emit (Printf.sprintf "M %d %s" i m);
           (* C04: K is the OpaqueString password / MD5 or SHA-256 of user:realm:password *)
           emit (Printf.sprintf "S %d %d C04key -" i (if m = "UNMODELLED" || m = body then 1 else 0))
         | Some (`Fault kind) ->
           emit (Printf.sprintf "M %d -" i);
           emit (Printf.sprintf "S %d %d %s -" i (if body = "-" then 1 else 0) (if kind = "FP" then "C10fault" else "C04fault"))
         | Some (`Case (key, b)) ->
           let cfgs = List.concat_map (fun k -> List.concat_map (fun v -> List.concat_map (fun u -> List.map (fun nn_ -> (k, v, u, nn_)) [false; true]) [false; true]) [false; true]) [false; true] in
           let rs = decode dec_ok_full None b ::
                    List.map (fun (k, v, u, nn_) -> decode dec_ok_full (Some { w_key = (if k then Some key else None); w_opts = opts_of v u nn_ }) b) cfgs in
           if List.exists (fun r -> r = WUnmodelled) rs then emit (Printf.sprintf "M %d UNMODELLED" i)
           else emit (Printf.sprintf "M %d %s" i (String.concat "|" (List.map render_wres rs)));
           let obs = List.map parse_ores (String.split_on_char '|' body) in
           if List.length obs = 17 then begin
             let arr = Array.of_list obs in
             let o = { o_none = arr.(0);
                       o_cfg = (fun k v u nn_ -> arr.(1 + (if k then 8 else 0) + (if v then 4 else 0) + (if u then 2 else 0) + (if nn_ then 1 else 0))) } in
             emit (Printf.sprintf "S %d %d C18 -" i (if monitor_C18 o then 1 else 0));
             emit (Printf.sprintf "S %d %d C03dec -" i (if monitor_C03dec b o then 1 else 0))
           end else begin
             emit (Printf.sprintf "S %d 0 C18 unparsable" i); emit (Printf.sprintf "S %d 0 C03dec unparsable" i)
           end;
           last := Some (i, key, b)
         | None -> failwith "I without C");
        pending := None
      end else if n >= 1 && line.[0] = 'J' then begin
        match !last with
        | Some (i, key, b) ->
          let facts = List.filter_map (fun t -> match String.split_on_char '=' t with [a; v] -> Some (a, v) | _ -> None) (split_sp (if n > 2 then String.sub line 2 (n - 2) else "")) in
          let get k = try List.assoc k facts with Not_found -> "-" in
          let cmp name ty fact =
            let v = match get fact with
              | "-" -> true
              | "P" -> false
              | x -> (match rfc_verdict ty key b with Some m -> m = (x = "1") | None -> false) in
            emit (Printf.sprintf "S %d %d %s -" i (if v then 1 else 0) name) in
          cmp "C04acc" (n_of_int 8) "mi"; cmp "C04acc" (n_of_int 28) "sha"; cmp "C10acc" (n_of_int 32808) "fp";
          emit (Printf.sprintf "S %d %d C18ud -" i (if get "ud" = "1" then 1 else 0));
          (* the same option relations on the decoded VALUES (positions combined with value digests) *)
          (match get "pv" with
           | "-" -> ()
           | pv ->
             let obs = List.map (fun t -> parse_ores (String.concat " " (String.split_on_char '/' t))) (String.split_on_char '|' pv) in
             if List.length obs = 17 then begin
               let arr = Array.of_list obs in
               let o = { o_none = arr.(0);
                         o_cfg = (fun k v u nn_ -> arr.(1 + (if k then 8 else 0) + (if v then 4 else 0) + (if u then 2 else 0) + (if nn_ then 1 else 0))) } in
               emit (Printf.sprintf "S %d %d C18 values-differ" i (if monitor_C18val o then 1 else 0))
             end else emit (Printf.sprintf "S %d 0 C18 unparsable" i));
          emit (Printf.sprintf "S %d %d C03prefix -" i (if get "prefix" = "1" then 1 else 0));
          last := None
        | None -> ()
      end
    done
  with End_of_file -> ())

(* ---------------------------------------------------------------- suite: attrval *)
(* u64 values do not fit an OCaml int: 16 hex digits <-> N through two 32-bit halves *)
let av_two32 = N.mul (n_of_int 65536) (n_of_int 65536)
let av_n_of_hex16 s =
  let hi = int_of_string ("0x" ^ String.sub s 0 8) and lo = int_of_string ("0x" ^ String.sub s 8 8) in
  N.add (N.mul (n_of_int hi) av_two32) (n_of_int lo)
let av_hex16_of_n x = Printf.sprintf "%08x%08x" (int_of_n (N.div x av_two32)) (int_of_n (N.modulo x av_two32))

let av_tok_opt = function None -> "n" | Some b -> "s" ^ hex_of_bytes b
let av_parse_opt s =
  if s = "n" then None else Some (bytes_of_hex (String.sub s 1 (String.length s - 1)))
let av_list f l = if l = [] then "-" else String.concat "," (List.map f l)
let av_unlist f s = if s = "-" then [] else List.map f (String.split_on_char ',' s)

let render_aval = function
  | AvAddr (v6, port, ip) -> Printf.sprintf "addr:%d:%d:%s" (if v6 then 6 else 4) (int_of_n port) (hex_of_bytes ip)
  | AvU16 x -> Printf.sprintf "u16:%d" (int_of_n x)
  | AvU32 x -> Printf.sprintf "u32:%d" (int_of_n x)
  | AvU64 x -> "u64:" ^ av_hex16_of_n x
  | AvEmpty -> "empty"
  | AvText s -> "text:" ^ hex_of_bytes s
  | AvQuoted s -> "quoted:" ^ hex_of_bytes s
  | AvUser s -> "user:" ^ hex_of_bytes s
  | AvErr (c, r) -> Printf.sprintf "err:%d:%s" (int_of_n c) (hex_of_bytes r)
  | AvAErr (f, c, r) -> Printf.sprintf "aerr:%d:%d:%s" (int_of_n f) (int_of_n c) (hex_of_bytes r)
  | AvAlg (a, p) -> Printf.sprintf "alg:%d:%s" (int_of_n a) (av_tok_opt p)
  | AvAlgs l -> "algs:" ^ av_list (fun (a, p) -> Printf.sprintf "%d.%s" (int_of_n a) (av_tok_opt p)) l
  | AvUAttrs l -> "uattrs:" ^ av_list (fun t -> string_of_int (int_of_n t)) l
  | AvFixed b -> "fixed:" ^ hex_of_bytes b
  | AvOpaque b -> "opaque:" ^ hex_of_bytes b
  | AvChan x -> Printf.sprintf "chan:%d" (int_of_n x)
  | AvEven r -> if r then "even:1" else "even:0"
  | AvProto p -> Printf.sprintf "proto:%d" (int_of_n p)
  | AvFam f -> Printf.sprintf "fam:%d" (int_of_n f)
  | AvIcmp (t, c, d) -> Printf.sprintf "icmp:%d:%d:%s" (int_of_n t) (int_of_n c) (hex_of_bytes d)
  | AvMI r -> "mi:" ^ hex_of_bytes r
  | AvMIEnc -> "mienc"
  | AvSha r -> "sha:" ^ hex_of_bytes r
  | AvShaEnc -> "shaenc"
  | AvFp c -> Printf.sprintf "fp:%d" (int_of_n c)
  | AvFpEnc -> "fpenc"
  | AvUnknown (t, d) -> Printf.sprintf "unk:%d:%s" (int_of_n t) (av_tok_opt d)

let parse_aval tok =
  let num s = n_of_int (int_of_string s) in
  match String.split_on_char ':' tok with
  | ["addr"; f; port; ip] -> AvAddr (f = "6", num port, bytes_of_hex ip)
  | ["u16"; x] -> AvU16 (num x)
  | ["u32"; x] -> AvU32 (num x)
  | ["u64"; x] -> AvU64 (av_n_of_hex16 x)
  | ["empty"] -> AvEmpty
  | ["text"; s] -> AvText (bytes_of_hex s)
  | ["quoted"; s] -> AvQuoted (bytes_of_hex s)
  | ["user"; s] -> AvUser (bytes_of_hex s)
  | ["err"; c; r] -> AvErr (num c, bytes_of_hex r)
  | ["aerr"; f; c; r] -> AvAErr (num f, num c, bytes_of_hex r)
  | ["alg"; a; p] -> AvAlg (num a, av_parse_opt p)
  | ["algs"; l] ->
    AvAlgs (av_unlist (fun e -> match String.index_opt e '.' with
        | Some i -> (num (String.sub e 0 i), av_parse_opt (String.sub e (i + 1) (String.length e - i - 1)))
        | None -> failwith "algs entry") l)
  | ["uattrs"; l] -> AvUAttrs (av_unlist num l)
  | ["fixed"; b] -> AvFixed (bytes_of_hex b)
  | ["opaque"; b] -> AvOpaque (bytes_of_hex b)
  | ["chan"; x] -> AvChan (num x)
  | ["even"; r] -> AvEven (r = "1")
  | ["proto"; p] -> AvProto (num p)
  | ["fam"; f] -> AvFam (num f)
  | ["icmp"; t; c; d] -> AvIcmp (num t, num c, bytes_of_hex d)
  | ["mi"; r] -> AvMI (bytes_of_hex r)
  | ["mienc"] -> AvMIEnc
  | ["sha"; r] -> AvSha (bytes_of_hex r)
  | ["shaenc"] -> AvShaEnc
  | ["fp"; c] -> AvFp (num c)
  | ["fpenc"] -> AvFpEnc
  | ["unk"; t; d] -> AvUnknown (num t, av_parse_opt d)
  | _ -> failwith ("value token " ^ tok)

let render_vres f = function
  | VOk a -> "OK " ^ f a
  | VErr -> "ERR"
  | VPanic -> "PANIC"
  | VUnmodelled -> "UNMODELLED"

let last_av = ref None
let attrval_suite () =
  let idx = ref 0 in
  let is_enc = ref false in
  let pending = ref None in
  (try
    while true do
      let line = input_line stdin in
      let n = String.length line in
      if n > 2 && line.[0] = 'C' then begin
        match split_sp line with
        | [_; "D"; ud; txid; ty; v] ->
          is_enc := false;
          pending := Some (fun () ->
              render_vres render_aval (av_case_dec (ud = "1") (bytes_of_hex txid) (n_of_int (int_of_string ty)) (bytes_of_hex v)))
        | [_; "E"; txid; ty; tok; room] ->
          is_enc := true;
          pending := Some (fun () ->
              render_vres hex_of_bytes
                (av_case_enc (bytes_of_hex txid) (n_of_int (int_of_string ty)) (parse_aval tok) (n_of_int (int_of_string room))))
        | _ -> failwith ("bad record: " ^ (if n > 200 then String.sub line 0 200 else line))
      end else if n >= 2 && line.[0] = 'I' then begin
        match !pending with
        | None -> failwith "I without C"
        | Some f ->
          let i = !idx in incr idx;
          let mres = f () in
          emit (Printf.sprintf "M %d %s" i mres);
          if !is_enc && mres <> "UNMODELLED" then emit (Printf.sprintf "S %d %d C02 -" i (if mres = String.sub line 2 (n - 2) then 1 else 0));
          let nopanic = not (n >= 7 && String.sub line 2 5 = "PANIC") in
          emit (Printf.sprintf "S %d %d C03val -" i (if nopanic then 1 else 0));
          last_av := Some i;
          pending := None
      end else if n >= 8 && String.sub line 0 8 = "J touch=" then begin
        (* C19: the accessors of the decoded value were all called (also on a clone) *)
        (match !last_av with
         | Some i -> emit (Printf.sprintf "S %d %d C19acc accessor-panics-on-decoded-value" i (if String.sub line 8 (n - 8) = "ok" then 1 else 0))
         | None -> ());
        last_av := None
      end
    done
  with End_of_file -> ())

(* ---------------------------------------------------------------- suite: encbuf *)
let md5_of_bytes (l : n list) : string =
  let b = Bytes.create (List.length l) in
  List.iteri (fun i x -> Bytes.set b i (Char.chr (int_of_n x))) l;
  Digest.to_hex (Digest.bytes b)
let encbuf_suite () =
  let idx = ref 0 in
  let unmodelled = ref false in
  let last_obs = ref None in
  let pending = ref None in
  (try
    while true do
      let line = input_line stdin in
      let n = String.length line in
      if n > 2 && line.[0] = 'C' then begin
        match split_sp line with
        | _ :: "T" :: m :: c :: txid :: buflen :: fill :: specs ->
          (* typed attribute values: the value bytes come from the typed encoders of the model (ample room), then the
             message encoder with the caller's buffer *)
          let attrs = List.map (fun sp ->
              let r = String.sub sp 1 (String.length sp - 1) in
              match String.index_opt r ':' with
              | Some i -> TVal (nn (String.sub r 0 i), parse_aval (String.sub r (i+1) (String.length r - i - 1)))
              | None -> failwith "typed spec") specs in
          let tm = { t_method = nn m; t_class = nn c; t_txid = bytes_of_hex txid; t_attrs = attrs } in
          let bl = int_of_string buflen in
          let buf = List.init bl (fun i -> match fill with "0" -> small_n.(0) | "255" -> small_n.(255) | _ -> small_n.((i * 131 + 7) mod 256)) in
          (match enc_values (t_hdr tm) attrs with
           | VOk l -> pending := Some (buf, t_typ tm, tm.t_txid, l, n_of_int bl)
           | _ -> pending := None; unmodelled := true)
        | [_; m; c; txid; buflen; fill; attrs] ->
          let l = if attrs = "-" then [] else List.map (fun t ->
              let r = String.sub t 1 (String.length t - 1) in
              match t.[0] with
              | 'p' -> (match String.index_opt r '.' with
                        | Some i -> EPlain (nn (String.sub r 0 i), bytes_of_hex (String.sub r (i+1) (String.length r - i - 1)))
                        | None -> failwith "plain")
              | 'm' -> EMi (bytes_of_hex r) | 's' -> ESha (bytes_of_hex r) | _ -> EFp) (String.split_on_char ',' attrs) in
          let bl = int_of_string buflen in
          let buf = List.init bl (fun i -> match fill with "0" -> small_n.(0) | "255" -> small_n.(255) | _ -> small_n.((i * 131 + 7) mod 256)) in
          let typ = msg_type_of (nn m) (nn c) in
          pending := Some (buf, typ, bytes_of_hex txid, l, n_of_int bl)
        | _ -> failwith ("bad record: " ^ line)
      end else if n >= 2 && line.[0] = 'I' then begin
        match !pending with
        | Some (buf, typ, txid, l, bl) ->
          let i = !idx in incr idx;
          (match encode_msg buf typ txid l with
           | Ok (out, size) -> emit (Printf.sprintf "M %d OK %d %s" i (int_of_n size) (md5_of_bytes out))
           | Err -> emit (Printf.sprintf "M %d ERR" i)
           | Panic -> emit (Printf.sprintf "M %d PANIC" i));
          let obs = match split_sp (String.sub line 2 (n - 2)) with
            | ["OK"; size; _] -> Some (Some (nn size))
            | ["ERR"] -> Some None
            | _ -> None in
          emit (Printf.sprintf "S %d %d C14 -" i (if monitor_C14 bl l obs then 1 else 0));
          last_obs := Some (i, obs);
          pending := None
        | None ->
          if !unmodelled then begin let i = !idx in incr idx; emit (Printf.sprintf "M %d UNMODELLED" i); unmodelled := false; last_obs := None end
          else failwith "I without C"
      end else if n >= 2 && line.[0] = 'J' then begin
        match !last_obs with
        | Some (i, obs) ->
          let facts = split_sp (if n > 2 then String.sub line 2 (n - 2) else "") in
          List.iter (fun t -> match String.split_on_char '=' t with
              | ["tail"; v] -> emit (Printf.sprintf "S %d %d C14 tail-modified" i (if monitor_C14_tail obs (v = "1") then 1 else 0))
              | ["indep"; v] -> emit (Printf.sprintf "S %d %d C14 depends-on-previous-contents" i (if monitor_C14_indep (v = "1") then 1 else 0))
              | _ -> ()) facts;
          last_obs := None
        | None -> ()
      end
    done
  with End_of_file -> ())

(* ---------------------------------------------------------------- suite: valueapi *)
let rec nat_of_int i = if i <= 0 then O else S (nat_of_int (i - 1))
let render_outs l = String.concat "," (List.map (function
    | HNone -> "-" | HPanic -> "P" | HVal [] -> "e"
    | HVal vs -> String.concat "." (List.map (fun v -> string_of_int (int_of_n v)) vs)) l)
(* result records `C V <function> <args>`: the model of the value-type API (Codec/ValueApi.v); renderings as in
   harness/src/valuev.rs: OK .. | E (Err / None) | L (slice of the wrong length for the array conversion) | PANIC *)
let va_fn_id = function
  | "mt_from" -> 0 | "mt_new" -> 1 | "method" -> 2 | "class" -> 3 | "family" -> 4 | "algid" -> 5 | "errcode" -> 6
  | "icmptype" -> 7 | "icmpcode" -> 8 | "attrtype" -> 9 | "changereq" -> 10 | "padding" -> 11 | "chan" -> 12
  | "respport" -> 13 | "lifetime" -> 14 | "evenport" -> 15 | "icmp" -> 16 | "ctxpad" -> 17 | "reqtransport" -> 18
  | s -> failwith ("value function " ^ s)
let va_res f = function VOk a -> f a | VErr -> "E" | VPanic -> "PANIC" | VUnmodelled -> "UNMODELLED"
let va_ok_hex r = va_res (fun b -> "OK " ^ hex_of_bytes b) r
let va_array n b k = match va_array_from_slice (n_of_int n) b with VOk a -> k a | _ -> "L"
let va_nonce r =
  va_res (fun ((q, c), f) ->
      Printf.sprintf "OK %s %d %s" (hex_of_bytes q) (if c then 1 else 0)
        (va_res (fun (a, b) -> (if a then "1" else "0") ^ (if b then "1" else "0")) f)) (va_nonce_view r)
let va_alg_entry e =
  match String.index_opt e ':' with
  | Some i -> (nn (String.sub e 0 i), av_parse_opt (String.sub e (i + 1) (String.length e - i - 1)))
  | None -> failwith "alg entry"
let va_case (f : string list) : string =
  let num x = string_of_int (int_of_n x) in
  match f with
  | ["num"; fn; lo; n] ->
    let id = n_of_int (va_fn_id fn) and lo = int_of_string lo and n = int_of_string n in
    String.concat "," (List.init n (fun k ->
        va_res (fun l -> String.concat "." (List.map num l)) (va_num_case id (n_of_int (lo + k)))))
  | ["nonce"; h] -> va_nonce (va_nonce_new (bytes_of_hex h))
  | ["cookie"; h; k] ->
    let (a, b) = if k = "n" then (false, false) else let k = int_of_string k in (k land 1 = 1, k land 2 = 2) in
    va_nonce (va_new_nonce_cookie (bytes_of_hex h) a b)
  | ["realm"; h] -> va_ok_hex (va_realm_new (bytes_of_hex h))
  | ["software"; h] -> va_ok_hex (va_software_new (bytes_of_hex h))
  | ["padding"; h] -> va_ok_hex (va_padding_new (bytes_of_hex h))
  | ["username"; h] -> va_ok_hex (va_username_new (bytes_of_hex h))
  | ["userhash"; a; b] -> va_ok_hex (va_userhash_new (bytes_of_hex a) (bytes_of_hex b))
  | ["stkey"; h] -> va_ok_hex (va_key_short_term (bytes_of_hex h))
  | ["ltkey"; u; r; p; a] -> va_ok_hex (va_key_long_term (bytes_of_hex u) (bytes_of_hex r) (bytes_of_hex p) (nn a))
  | ["errcode"; c; h] ->
    va_res (fun (((code, cl), nu), r) -> Printf.sprintf "OK %s.%s.%s %s" (num code) (num cl) (num nu) (hex_of_bytes r))
      (va_error_code_view (nn c) (bytes_of_hex h))
  | ["hdr"; h] ->
    va_array 20 (bytes_of_hex h) (fun a ->
        va_res (fun ((ty, ml), x) -> Printf.sprintf "OK %s %s %s" (num ty) (num ml) (hex_of_bytes x)) (va_header_try_from a))
  | ["fp"; h] -> va_array 4 (bytes_of_hex h) (fun a -> va_res (fun c -> "OK " ^ num c) (va_fingerprint_from a))
  | ["mi"; h] -> va_array 20 (bytes_of_hex h) (fun a -> va_ok_hex (va_fixed_from (n_of_int 20) a))
  | ["sha"; h] -> va_array 32 (bytes_of_hex h) (fun a -> va_ok_hex (va_fixed_from (n_of_int 32) a))
  | ["token"; h] -> va_array 8 (bytes_of_hex h) (fun a -> va_ok_hex (va_fixed_from (n_of_int 8) a))
  | ["txid"; h] ->
    va_array 12 (bytes_of_hex h) (fun a ->
        va_res (fun x -> Printf.sprintf "OK %s %s" (hex_of_bytes x) (hex_of_bytes (va_txid_display x))) (va_fixed_from (n_of_int 12) a))
  | ["magic"; h] -> va_array 4 (bytes_of_hex h) (fun a -> va_res (fun e -> if e then "OK 1" else "OK 0") (va_cookie_eq a))
  | ["mtbytes"; h] -> va_array 2 (bytes_of_hex h) (fun a -> va_res (fun (m, c) -> Printf.sprintf "OK %s.%s" (num m) (num c)) (va_msgtype_from_bytes a))
  | ["uattrs"; l; a] -> "OK " ^ av_list num (List.fold_left va_ua_add (va_ua_from (av_unlist nn l)) (av_unlist nn a))
  | ["pwalgs"; l] ->
    "OK " ^ av_list (fun (id, p) -> Printf.sprintf "%s:%s" (num id) (av_tok_opt p)) (va_pa_from (av_unlist va_alg_entry l))
  | _ -> failwith ("bad value record: " ^ String.concat " " f)

let valueapi_suite () =
  let idx = ref 0 in
  let pending = ref None in
  (try
    while true do
      let line = input_line stdin in
      let n = String.length line in
      if n > 2 && line.[0] = 'C' then begin
        match split_sp line with
        | [_; "S"; _kind; ops] ->
          let parse o =
            let r = String.sub o 1 (String.length o - 1) in
            let nums = List.map int_of_string (String.split_on_char '.' r) in
            match o.[0], nums with
            | 'n', [x] -> HNew (nat_of_int x)
            | 'c', [x; y] -> HClone (nat_of_int x, nat_of_int y)
            | 'a', [x; v] -> HAdd (nat_of_int x, n_of_int v)
            | 'r', [x] -> HRead (nat_of_int x)
            | _ -> failwith ("script op " ^ o) in
          pending := Some (`Script (List.map parse (String.split_on_char ',' ops)))
        | _ :: "A" :: _ -> pending := Some `Api
        | _ :: "V" :: f -> pending := Some (`Value f)
        | _ -> failwith ("bad record: " ^ (if n > 200 then String.sub line 0 200 else line))
      end else if n >= 2 && line.[0] = 'I' then begin
        let i = !idx in incr idx;
        let body = String.sub line 2 (n - 2) in
        (match !pending with
         | Some (`Script ops) ->
           emit (Printf.sprintf "M %d %s" i (render_outs (outs_s heap0 ops)));
           (* the property: what the implementation returned is what value semantics returns, without a panic *)
           let ok = wfb [] ops && body = render_outs (outs_p [] ops) in
           emit (Printf.sprintf "S %d %d C19clone -" i (if ok then 1 else 0))
         | Some `Api ->
           emit (Printf.sprintf "M %d ok" i);
           emit (Printf.sprintf "S %d %d C19api -" i (if body = "ok" then 1 else 0))
         | Some (`Value f) ->
           emit (Printf.sprintf "M %d %s" i (va_case f));
           (* the property on the implementation: the call returned (no panic), and every access path to the value built
              agrees (X = they do not) *)
           let toks = List.concat_map (String.split_on_char ',') (split_sp body) in
           let panics = List.mem "PANIC" toks and disagree = List.mem "X" toks in
           emit (Printf.sprintf "S %d %d C19api %s" i (if panics || disagree then 0 else 1)
                   (if panics then "value-function-panics" else if disagree then "access-paths-disagree" else "-"))
         | None -> failwith "I without C");
        pending := None
      end
    done
  with End_of_file -> ())

(* ---------------------------------------------------------------- suite: codecrt *)
let rec take_n k l = if k <= 0 then [] else match l with [] -> [] | x :: r -> x :: take_n (k - 1) r
let codecrt_suite () =
  let ign_pending = ref None in
  let idx = ref 0 in
  let pending = ref None in
  let last = ref None in
  (try
    while true do
      let line = input_line stdin in
      let n = String.length line in
      if n > 2 && line.[0] = 'C' then begin
        match split_sp line with
        | [_; "Q"; ty; input] -> pending := Some (`Ctor (nn ty, bytes_of_hex input))
        | [_; "G"; b; b'] -> pending := Some (`Ign (bytes_of_hex b, bytes_of_hex b'))
        | _ :: m :: c :: txid :: specs ->
          let attrs = List.filter_map (fun sp ->
              if sp = "-" then None else
              let r = String.sub sp 1 (String.length sp - 1) in
              Some (match sp.[0] with
                  | 'v' -> (match String.index_opt r ':' with
                            | Some i -> TVal (nn (String.sub r 0 i), parse_aval (String.sub r (i+1) (String.length r - i - 1)))
                            | None -> failwith "spec")
                  | 'm' -> TMi (bytes_of_hex r) | 's' -> TSha (bytes_of_hex r) | _ -> TFp)) specs in
          pending := Some (`Msg { t_method = nn m; t_class = nn c; t_txid = bytes_of_hex txid; t_attrs = attrs })
        | _ -> failwith "bad record"
      end else if n >= 2 && line.[0] = 'I' then begin
        match !pending with
        | None -> failwith "I without C"
        | Some (`Ctor (cty, input)) ->
          let i = !idx in incr idx;
          (match ctor_of cty input with
           | VOk q -> emit (Printf.sprintf "M %d OK %s rt=%d" i (hex_of_bytes q) (if quoted_roundtrips q then 1 else 0))
           | VErr -> emit (Printf.sprintf "M %d REJ" i)
           | VPanic -> emit (Printf.sprintf "M %d PANIC" i)
           | VUnmodelled -> emit (Printf.sprintf "M %d UNMODELLED" i));
          (* C01 on the implementation: an accepted value must survive the round trip; the class tag comes from the model *)
          let body = String.sub line 2 (n - 2) in
          let ok = body = "REJ" || (String.length body > 5 && String.sub body (String.length body - 4) 4 = "rt=1") in
          (* the known class D8: decided by the model; where the constructor is outside the model (non-ASCII realm) by the
             shape of the value the implementation stored (it ends with half a quoted-pair) *)
          let stored = (match split_sp body with "OK" :: h :: _ -> (try Some (bytes_of_hex h) with _ -> None) | _ -> None) in
          let d8 = (match ctor_of cty input, stored with
              | VUnmodelled, Some q -> dangling_backslash q
              | _, _ -> int_of_n (ctor_class cty input) = 1) in
          emit (Printf.sprintf "S %d %d C01 %s" i (if ok then 1 else 0) (if d8 then "quoted-ctor-noncanonical" else "-"));
          last := None;
          pending := None
        | Some (`Ign (b, b')) ->
          let i = !idx in incr idx;
          let render bytes = match decode_typed bytes with
            | DOk (size, attrs) ->
              Printf.sprintf "%d %s" (int_of_n size) (if attrs = [] then "-" else String.concat " " (List.map (fun (ty, r) ->
                  Printf.sprintf "%d:%s" (int_of_n ty) (match r with VOk a -> render_aval a | VErr -> "ERR" | VPanic -> "PANIC" | VUnmodelled -> "UNMODELLED")) attrs))
            | DErr -> "DECERR" | DPanic -> "DECPANIC" | DUnmodelled -> "UNMODELLED" in
          let ra = render b and rb = render b' in
          let unmodelled s = let k = String.length "UNMODELLED" in
            let rec go j = j + k <= String.length s && (String.sub s j k = "UNMODELLED" || go (j + 1)) in go 0 in
          if unmodelled ra || unmodelled rb then emit (Printf.sprintf "M %d UNMODELLED" i)
          else emit (Printf.sprintf "M %d G %s|%s" i ra rb);
          (* C02, last sentence, on the implementation: the two decodes rendered by the harness are the same *)
          let body = String.sub line 2 (n - 2) in
          let impl_same = (match String.index_opt body '|' with
              | Some k -> String.sub body 2 (k - 2) = String.sub body (k + 1) (String.length body - k - 1)
              | None -> false) in
          (match int_of_n (monitor_C02ign b b' impl_same) with
           | 0 -> ()                                                   (* not a legal perturbation: not judged *)
           | 1 -> emit (Printf.sprintf "S %d 1 C02ign -" i)
           | _ -> emit (Printf.sprintf "S %d 0 C02ign -" i));
          ign_pending := Some (i, b, b');
          last := None;
          pending := None
        | Some (`Msg tm) ->
          let i = !idx in incr idx;
          let buf = List.init 16000 (fun _ -> small_n.(0x5A)) in
          (match encode_typed buf tm with
           | TOk (out, size) ->
             let bytes = take_n (int_of_n size) out in
             let dec = match decode_typed bytes with
               | DOk (_, attrs) ->
                 if attrs = [] then "-" else String.concat " " (List.map (fun (ty, r) ->
                     Printf.sprintf "%d:%s" (int_of_n ty) (match r with VOk a -> render_aval a | VErr -> "ERR" | VPanic -> "PANIC" | VUnmodelled -> "UNMODELLED")) attrs)
               | DErr -> "DECERR" | DPanic -> "DECPANIC" | DUnmodelled -> "UNMODELLED" in
             let enc_part = Printf.sprintf "OK %d %s" (int_of_n size) (md5_of_bytes bytes) in
             let body = String.sub line 2 (n - 2) in
             let impl_enc = match String.index_opt body ';' with Some k -> String.sub body 0 k | None -> body in
             emit (Printf.sprintf "S %d %d C02 -" i (if impl_enc = enc_part then 1 else 0));
             if dec = "UNMODELLED" then emit (Printf.sprintf "M %d UNMODELLED" i)
             else emit (Printf.sprintf "M %d %s;%s" i enc_part dec)
           | TErr -> emit (Printf.sprintf "M %d ENCERR" i)
           | TPanic -> emit (Printf.sprintf "M %d PANIC" i)
           | TUnmodelled -> emit (Printf.sprintf "M %d UNMODELLED" i));
          (* C01 speaks of values within their documented limits: av_wf; a canonical-form failure of a quoted string is the
             known constructor class, anything else outside the limits (e.g. a non-ASCII user name) is not judged *)
          let wf = List.for_all (function TVal (ty, a) -> av_wf ty a | _ -> true) tm.t_attrs in
          let quoted_bad = List.exists (function TVal (ty, AvQuoted q) -> not (av_wf ty (AvQuoted q)) | _ -> false) tm.t_attrs in
          last := Some (i, n >= 5 && String.sub line 2 2 = "OK", (if wf then `Judge else if quoted_bad then `Known else `Skip));
          pending := None
      end else if n >= 1 && line.[0] = 'J' && !ign_pending <> None then begin
        (match !ign_pending with
         | Some (i, b, b') ->
           (* the decoded VALUES compared by the implementation's own equality, and their re-encoding *)
           let deep = List.mem "deep=1" (split_sp (String.sub line 2 (n - 2))) in
           (match int_of_n (monitor_C02ign b b' deep) with
            | 0 -> ()
            | 1 -> emit (Printf.sprintf "S %d 1 C02ign -" i)
            | _ -> emit (Printf.sprintf "S %d 0 C02ign decoded-values-or-reencoding-differ" i))
         | None -> ());
        ign_pending := None
      end else if n >= 1 && line.[0] = 'J' then begin
        match !last with
        | Some (i, encoded, mode) ->
          let facts = List.filter_map (fun t -> match String.split_on_char '=' t with [a; v] -> Some (a, v) | _ -> None) (split_sp (if n > 2 then String.sub line 2 (n - 2) else "")) in
          let geti k = try nn (List.assoc k facts) with Not_found -> nn "0" in
          let rt = (try List.assoc "rt" facts = "1" with Not_found -> false) in
          let v = monitor_C01 encoded rt (geti "size") (geti "decsize") (geti "hdrlen") in
          (match mode with
           | `Judge -> emit (Printf.sprintf "S %d %d C01 -" i (if v then 1 else 0))
           | `Known -> emit (Printf.sprintf "S %d %d C01 quoted-ctor-noncanonical" i (if v then 1 else 0))
           | `Skip -> emit (Printf.sprintf "S %d 1 C01 outside-documented-limits" i));
          last := None
        | None -> ()
      end
    done
  with End_of_file -> ())

(* ---------------------------------------------------------------- suite: absglue *)
let absglue_suite () =
  let idx = ref 0 in
  let pending = ref None in
  (try
    while true do
      let line = input_line stdin in
      let n = String.length line in
      if n > 2 && line.[0] = 'C' then begin
        match split_sp line with
        | [_; "P"; _; realms; hexs] ->
          let rs = if realms = "-" then [] else List.map nn (String.split_on_char ',' realms) in
          pending := Some (rs, bytes_of_hex hexs, None)
        | [_; "P"; _; realms; cls; meth; toks; hexs] ->
          let rs = if realms = "-" then [] else List.map nn (String.split_on_char ',' realms) in
          pending := Some (rs, bytes_of_hex hexs, Some (nn cls, nn meth, toks))
        | _ -> failwith "bad glue record"
      end else if n >= 2 && line.[0] = 'I' then begin
        match !pending with
        | None -> failwith "I without C"
        | Some (rs, b, intended) ->
          let i = !idx in incr idx;
          (* the Gallina rendering (Concrete.craft_packet) of the abstract packet with the packet's own transaction id: for a
             packet the client sent, of the harness' abstract reading (the I line); for a crafted one, of the intended tokens *)
          let txid = List.filteri (fun j _ -> j >= 8 && j < 20) b in
          let rendering = (match intended, split_sp (String.sub line 2 (n - 2)) with
              | Some (cls, meth, toks), _ -> Some (cls, meth, toks)
              | None, cls :: meth :: toks :: _ -> Some (nn cls, nn meth, toks)
              | None, _ -> None) in
          let bfield = (match rendering with
              | None -> ""
              | Some (cls, meth, toks) ->
                (match (try Some (parse_attrs toks) with _ -> None) with
                 | None -> " B=UNPARSED"
                 | Some attrs -> (match craft_packet cls meth txid attrs with
                     | Ok bytes -> " B=" ^ hex_of_bytes bytes
                     | Err -> " B=ERR"
                     | Panic -> " B=PANIC"))) in
          (match abs_packet rs b with
           | None -> emit (Printf.sprintf "M %d MALFORMED" i)
           | Some ((cls, meth), attrs) -> emit (Printf.sprintf "M %d %d %d %s%s" i (int_of_n cls) (int_of_n meth) (tok_attrs attrs) bfield));
          pending := None
      end
    done
  with End_of_file -> ())

let () =
  (match Sys.argv with
   | [| _; "filter" |] -> filter_suite ()
   | [| _; "reasm" |] -> reasm_suite ()
   | [| _; "agent" |] -> agent_suite ()
   | [| _; "wire" |] -> wire_suite ()
   | [| _; "encbuf" |] -> encbuf_suite ()
   | [| _; "valueapi" |] -> valueapi_suite ()
   | [| _; "codecrt" |] -> codecrt_suite ()
   | [| _; "attrval" |] -> attrval_suite ()
   | [| _; "absglue" |] -> absglue_suite ()
   | _ -> prerr_endline "usage: driver <suite> < cases"; exit 2);
  flush_out ()
