(* Correspondence driver: reads a case file written by the Rust harness, evaluates the extracted Gallina model
   (lines "M <idx> <canonical result>") and the Gallina spec monitors on the implementation's logged behaviour
   (lines "S <idx> <0|1> <monitor> <class>"). Parsing and printing only; no logic of its own. *)
open Model

let rec pos_of_int i = if i = 1 then XH else if i land 1 = 1 then XI (pos_of_int (i lsr 1)) else XO (pos_of_int (i lsr 1))
let n_of_int i = if i <= 0 then N0 else Npos (pos_of_int i)
let rec int_of_pos = function XH -> 1 | XO p -> 2 * int_of_pos p | XI p -> 2 * int_of_pos p + 1
let int_of_n = function N0 -> 0 | Npos p -> int_of_pos p

let split_sp s = String.split_on_char ' ' s
let explode s = List.init (String.length s) (String.get s)

let out = Buffer.create (1 lsl 16)
let flush_out () = print_string (Buffer.contents out); Buffer.clear out
let emit s = Buffer.add_string out s; Buffer.add_char out '\n'; if Buffer.length out > 60000 then flush_out ()

(* ---------------------------------------------------------------- suite: filter *)
let parse_opts s =
  if s = "N" then None
  else Some { o_validate = s.[0] = '1'; o_unknown = s.[1] = '1'; o_not_ignore = s.[2] = '1' }

let kind_of_char = function 'O' -> Ord | 'M' -> MI | 'S' -> SHA | 'F' -> FP | _ -> failwith "kind"

let render_positions = function
  | None -> "ERR"
  | Some [] -> "OK -"
  | Some l -> "OK " ^ String.concat "," (List.map (fun n -> string_of_int (int_of_n n)) l)

let parse_positions s =
  match split_sp s with
  | ["ERR"] -> Some None
  | ["OK"; "-"] -> Some (Some [])
  | ["OK"; l] -> Some (Some (List.map (fun x -> n_of_int (int_of_string x)) (String.split_on_char ',' l)))
  | _ -> None  (* PANIC, BADSIZE, FOREIGN: never equal to a model result; every monitor fails *)

let filter_suite () =
  let idx = ref 0 in
  let pending = ref None in
  (try
    while true do
      let line = input_line stdin in
      if String.length line > 2 && line.[0] = 'C' then begin
        match split_sp line with
        | [_; o; k; g] ->
          let ks = if k = "-" then [] else List.map kind_of_char (explode k) in
          let gs = if g = "-" then [] else List.map (fun c -> c = '1') (explode g) in
          pending := Some (parse_opts o, List.combine ks gs)
        | _ -> failwith ("bad record: " ^ line)
      end else if String.length line > 2 && line.[0] = 'I' then begin
        match !pending with
        | None -> failwith "I without C"
        | Some (ctx, l) ->
          let i = !idx in incr idx;
          emit (Printf.sprintf "M %d %s" i (render_positions (filter_case ctx l)));
          let obs = parse_positions (String.sub line 2 (String.length line - 2)) in
          let b f = match obs with Some o -> f ctx l o | None -> false in
          emit (Printf.sprintf "S %d %d C09 -" i (if b monitor_C09 then 1 else 0));
          emit (Printf.sprintf "S %d %d C18all -" i (if b monitor_C18_all then 1 else 0));
          pending := None
      end
    done
  with End_of_file -> ())


(* ---------------------------------------------------------------- suite: reasm *)
let hexval c = match c with '0'..'9' -> Char.code c - 48 | 'a'..'f' -> Char.code c - 87 | 'A'..'F' -> Char.code c - 55 | _ -> failwith "hex"
let small_n = Array.init 256 n_of_int
let bytes_of_hex s =
  if s = "-" then [] else
  let n = String.length s / 2 in
  List.init n (fun i -> small_n.(hexval s.[2*i] * 16 + hexval s.[2*i+1]))
let hex_of_bytes l =
  if l = [] then "-" else begin
    let b = Buffer.create 64 in
    List.iter (fun x -> Buffer.add_string b (Printf.sprintf "%02x" (int_of_n x))) l; Buffer.contents b end

let render_call = function
  | CDecoded (p, c) -> Printf.sprintf "D%d:%s" (int_of_n c) (hex_of_bytes p)
  | CMore None -> "M?"
  | CMore (Some k) -> Printf.sprintf "M%d" (int_of_n k)
  | CInvalid c -> Printf.sprintf "EI%d" (int_of_n c)
  | CSmall c -> Printf.sprintf "ES%d" (int_of_n c)
  | CPanic -> "P"
  | CNewRefused -> "NR"
let render_log l = String.concat "|" (List.map (fun cs -> String.concat "," (List.map render_call cs)) l)

let parse_call s =
  let n = String.length s in
  let num from = n_of_int (int_of_string (String.sub s from (n - from))) in
  if s = "P" then Some CPanic else if s = "NR" then Some CNewRefused
  else if s = "M?" then Some (CMore None)
  else if n > 1 && s.[0] = 'M' then Some (CMore (Some (num 1)))
  else if n > 2 && s.[0] = 'E' && s.[1] = 'I' then (try Some (CInvalid (num 2)) with _ -> None)
  else if n > 2 && s.[0] = 'E' && s.[1] = 'S' then (try Some (CSmall (num 2)) with _ -> None)
  else if n > 1 && s.[0] = 'D' then
    (match String.index_opt s ':' with
     | Some i -> (try Some (CDecoded (bytes_of_hex (String.sub s (i+1) (n-i-1)), n_of_int (int_of_string (String.sub s 1 (i-1))))) with _ -> None)
     | None -> None)
  else None
let parse_log s =
  let chunks = String.split_on_char '|' s in
  try Some (List.map (fun c -> if c = "" then [] else
      List.map (fun x -> match parse_call x with Some v -> v | None -> raise Exit) (String.split_on_char ',' c)) chunks)
  with Exit -> None

let reasm_suite () =
  let idx = ref 0 in
  let pending = ref None in
  (try
    while true do
      let line = input_line stdin in
      if String.length line > 2 && line.[0] = 'C' then begin
        match split_sp line with
        | _ :: b :: chunks -> pending := Some (n_of_int (int_of_string b), List.map bytes_of_hex chunks)
        | _ -> failwith ("bad record: " ^ line)
      end else if String.length line >= 2 && line.[0] = 'I' then begin
        match !pending with
        | None -> failwith "I without C"
        | Some (b, chunks) ->
          let i = !idx in incr idx;
          emit (Printf.sprintf "M %d %s" i (render_log (run_log b chunks)));
          let obs = parse_log (String.sub line 2 (String.length line - 2)) in
          let v = match obs with Some o -> monitor_C16 b chunks o | None -> false in
          emit (Printf.sprintf "S %d %d C16 -" i (if v then 1 else 0));
          let nopanic = not (String.contains line 'P') in
          emit (Printf.sprintf "S %d %d C03reasm -" i (if nopanic then 1 else 0));
          pending := None
      end
    done
  with End_of_file -> ())

let () =
  (match Sys.argv with
   | [| _; "filter" |] -> filter_suite ()
   | [| _; "reasm" |] -> reasm_suite ()
   | _ -> prerr_endline "usage: driver <suite> < cases"; exit 2);
  flush_out ()
