(* Correspondence driver: reads a case file written by the Rust harness, evaluates the extracted Gallina model
   (lines "M <idx> <canonical result>") and the Gallina spec monitors on the implementation's logged behaviour
   (lines "S <idx> <0|1> <monitor> <class>"). Parsing and printing only; no logic of its own. *)
open Model

let rec pos_of_int i = if i = 1 then XH else if i land 1 = 1 then XI (pos_of_int (i lsr 1)) else XO (pos_of_int (i lsr 1))
let n_of_int i = if i <= 0 then N0 else Npos (pos_of_int i)
let rec int_of_pos = function XH -> 1 | XO p -> 2 * int_of_pos p | XI p -> 2 * int_of_pos p + 1
let int_of_n = function N0 -> 0 | Npos p -> int_of_pos p

let split_sp s = String.split_on_char ' ' s
let explode s = List.init (String.length s) (String.get s)

let out = Buffer.create (1 lsl 16)
let flush_out () = print_string (Buffer.contents out); Buffer.clear out
let emit s = Buffer.add_string out s; Buffer.add_char out '\n'; if Buffer.length out > 60000 then flush_out ()

(* ---------------------------------------------------------------- suite: filter *)
let parse_opts s =
  if s = "N" then None
  else Some { o_validate = s.[0] = '1'; o_unknown = s.[1] = '1'; o_not_ignore = s.[2] = '1' }

let kind_of_char = function 'O' -> Ord | 'M' -> MI | 'S' -> SHA | 'F' -> FP | _ -> failwith "kind"

let render_positions = function
  | None -> "ERR"
  | Some [] -> "OK -"
  | Some l -> "OK " ^ String.concat "," (List.map (fun n -> string_of_int (int_of_n n)) l)

let parse_positions s =
  match split_sp s with
  | ["ERR"] -> Some None
  | ["OK"; "-"] -> Some (Some [])
  | ["OK"; l] -> Some (Some (List.map (fun x -> n_of_int (int_of_string x)) (String.split_on_char ',' l)))
  | _ -> None  (* PANIC, BADSIZE, FOREIGN: never equal to a model result; every monitor fails *)

let filter_suite () =
  let idx = ref 0 in
  let pending = ref None in
  (try
    while true do
      let line = input_line stdin in
      if String.length line > 2 && line.[0] = 'C' then begin
        match split_sp line with
        | [_; o; k; g] ->
          let ks = if k = "-" then [] else List.map kind_of_char (explode k) in
          let gs = if g = "-" then [] else List.map (fun c -> c = '1') (explode g) in
          pending := Some (parse_opts o, List.combine ks gs)
        | _ -> failwith ("bad record: " ^ line)
      end else if String.length line > 2 && line.[0] = 'I' then begin
        match !pending with
        | None -> failwith "I without C"
        | Some (ctx, l) ->
          let i = !idx in incr idx;
          emit (Printf.sprintf "M %d %s" i (render_positions (filter_case ctx l)));
          let obs = parse_positions (String.sub line 2 (String.length line - 2)) in
          let b f = match obs with Some o -> f ctx l o | None -> false in
          emit (Printf.sprintf "S %d %d C09 -" i (if b monitor_C09 then 1 else 0));
          emit (Printf.sprintf "S %d %d C18all -" i (if b monitor_C18_all then 1 else 0));
          pending := None
      end
    done
  with End_of_file -> ())

let () =
  (match Sys.argv with
   | [| _; "filter" |] -> filter_suite ()
   | _ -> prerr_endline "usage: driver <suite> < cases"; exit 2);
  flush_out ()
